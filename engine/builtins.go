package main

import (
	"fmt"
	"go/token"
	"go/types"
	"math"
	"unicode/utf8"

	"golang.org/x/tools/go/ssa"
)

func (ex *Exec) callBuiltin(name string, args []Val, c *ssa.CallCommon) Val {
	switch name {
	case "len":
		switch x := args[0].(type) {
		case Str:
			if x.hasRope() {
				return ex.ropeLen(x)
			}
			return goInt(len(x.B))
		case Slice:
			if st, ok := c.Args[0].Type().Underlying().(*types.Slice); ok && x.A != nil {
				if b, ok := st.Elem().Underlying().(*types.Basic); ok && b.Kind() == types.Uint8 {
					// a byte slice made from a formatted string (unsafe.Slice, json.Marshal) is only good for handing on whole
					for _, e := range (*x.A)[x.Off : x.Off+x.Len] {
						if i, ok := e.(Int); ok && i.W >= wDec {
							unsupported("len of a byte slice holding a formatted (rope) segment")
						}
					}
				}
			}
			return goInt(x.Len)
		case *MapObj:
			if x == nil {
				return goInt(0)
			}
			ex.logAccess(x, false)
			return goInt(len(x.K))
		case Struct:
			return goInt(len(x))
		case Ptr: // pointer to array
			if x.P == nil {
				return goInt(int(c.Args[0].Type().Underlying().(*types.Pointer).Elem().Underlying().(*types.Array).Len()))
			}
			return goInt(len((*x.P).(Struct)))
		case nil:
			return goInt(0)
		}
	case "cap":
		switch x := args[0].(type) {
		case Slice:
			return goInt(x.Cap)
		case Struct:
			return goInt(len(x))
		case nil:
			return goInt(0)
		}
	case "append":
		s, _ := args[0].(Slice)
		var add []Val
		switch b := args[1].(type) {
		case Slice:
			add = b.elems()
		case Str: // append([]byte, string...)
			ex.needBytes(b, "append string bytes")
			for _, x := range b.B {
				add = append(add, x)
			}
		}
		var el types.Type
		if c != nil {
			if st, ok := c.Args[0].Type().Underlying().(*types.Slice); ok {
				el = st.Elem()
			}
		}
		return ex.appendVals(s, add, el)
	case "copy":
		d, _ := args[0].(Slice)
		var src []Val
		switch b := args[1].(type) {
		case Slice:
			src = b.elems()
		case Str:
			ex.needBytes(b, "copy from string")
			for _, x := range b.B {
				src = append(src, x)
			}
		}
		n := d.Len
		if len(src) < n {
			n = len(src)
		}
		tmp := make([]Val, n)
		for i := 0; i < n; i++ {
			tmp[i] = copyVal(src[i])
		}
		for i := 0; i < n; i++ {
			*d.at(i) = tmp[i]
		}
		return goInt(n)
	case "delete":
		m, _ := args[0].(*MapObj)
		if m != nil {
			ex.mapDelete(m, args[1])
		}
		return nil
	case "recover":
		if n := len(ex.curDeferFrame); n > 0 {
			fr := ex.curDeferFrame[n-1]
			if fr.panicking != nil {
				v := fr.panicking.val
				fr.panicking = nil
				return v
			}
		}
		return nil
	case "print", "println":
		return nil
	case "ssa:wrapnilchk":
		if p, ok := args[0].(Ptr); ok && p.P == nil {
			ex.gopanic("nil-deref", "value method called using nil pointer")
		}
		return args[0]
	case "min", "max":
		r := args[0]
		for _, a := range args[1:] {
			x, y := r.(Int), a.(Int)
			op := token.LSS
			if name == "max" {
				op = token.GTR
			}
			if ex.branch(ex.intBinop(op, y, x).(Bool)) {
				r = y
			}
		}
		return r
	case "StringData":
		return StrData{S: args[0].(Str)}
	case "Slice":
		switch sd := args[0].(type) {
		case StrData:
			if li, ok := args[1].(Int); ok && li.T != nil && li.T.Op == "var" {
				if r, ok := ex.ropeLens[li.T.Name]; ok && len(r.B) == len(sd.S.B) {
					a := make([]Val, len(r.B))
					for i := range a {
						a[i] = r.B[i]
					}
					return Slice{A: &a, Len: len(a), Cap: len(a)}
				}
			}
			n := ex.concInt(args[1], "unsafe.Slice length")
			ex.needBytes(sd.S, "unsafe.Slice")
			if n > len(sd.S.B) {
				unsupported("unsafe.Slice beyond string")
			}
			a := make([]Val, n)
			for i := 0; i < n; i++ {
				a[i] = sd.S.B[i]
			}
			return Slice{A: &a, Len: n, Cap: n}
		}
		unsupported("unsafe.Slice on %T", args[0])
	case "SliceData", "String":
		unsupported("unsafe.%s", name)
	case "clear":
		switch x := args[0].(type) {
		case *MapObj:
			if x != nil {
				x.K, x.V = nil, nil
			}
		}
		return nil
	}
	unsupported("builtin %s(%T)", name, args[0])
	return nil
}

// ropeLen: the length of a string with formatted segments is a fresh variable
// constrained to the possible range (a decimal segment has 1..20 bytes); it is
// only good for handing the whole string on (unsafe.Slice in unsafeGetBytes).
func (ex *Exec) ropeLen(x Str) Val {
	lo, hi := 0, 0
	for _, b := range x.B {
		switch b.W {
		case wDec:
			lo++
			hi += 20
		case wOpaque:
			unsupported("len of an opaque formatted string")
		default:
			lo++
			hi++
		}
	}
	name := fmt.Sprintf("rl%dw64", ex.nsym)
	t := mkVar(name, 64, ex.nsym)
	ex.nsym++
	if ex.ropeLens == nil {
		ex.ropeLens = map[string]Str{}
	}
	ex.ropeLens[name] = x
	ex.addPC(mkAnd(mkCmp("bvuge", t, mkConst(uint64(lo), 64)), mkCmp("bvule", t, mkConst(uint64(hi), 64))))
	return Int{T: t, W: 64, S: true}
}

// ---------------------------------------------------------------- conversions

func (ex *Exec) convert(x Val, from, to types.Type) Val {
	dst := to.Underlying()
	switch v := x.(type) {
	case Int:
		switch d := dst.(type) {
		case *types.Basic:
			switch {
			case d.Info()&types.IsString != 0:
				return ex.runeToString(v)
			case d.Info()&types.IsInteger != 0:
				w, s := intInfo(d)
				if v.T == nil {
					if v.S {
						return cint(v.signed(), w, s)
					}
					return Int{C: trunc(v.C, w), W: w, S: s}
				}
				switch {
				case w == v.W:
					return Int{T: v.T, W: w, S: s}
				case w < v.W:
					return mkInt(mkExtract(int(w)-1, 0, v.T), w, s)
				case v.S:
					return mkInt(mkSext(v.T, int(w)), w, s)
				default:
					return mkInt(mkZext(v.T, int(w)), w, s)
				}
			case d.Info()&types.IsFloat != 0:
				fw := uint8(64)
				if d.Kind() == types.Float32 {
					fw = 32
				}
				if v.T != nil {
					return symFloat(fpFromInt(v.T, v.S, fw), fw)
				}
				if v.S {
					return fl(float64(v.signed()), fw)
				}
				return fl(float64(v.C), fw)
			case d.Kind() == types.UnsafePointer:
				unsupported("int to unsafe.Pointer")
			}
		}
	case Float:
		if d, ok := dst.(*types.Basic); ok {
			switch {
			case d.Info()&types.IsFloat != 0:
				if v.T != nil {
					to := uint8(64)
					if d.Kind() == types.Float32 {
						to = 32
					}
					if to == v.W {
						return v
					}
					return symFloat(fpToFp(v.T, to), to)
				}
				if v.U {
					unsupported("conversion of a float parsed from symbolic digits")
				}
				if d.Kind() == types.Float32 {
					return fl(v.V, 32)
				}
				return Float{V: v.V, W: 64}
			case d.Info()&types.IsInteger != 0:
				w, s := intInfo(d)
				if v.T != nil {
					return mkInt(fpToInt(v.T, int(w), s), w, s)
				}
				if v.U {
					unsupported("conversion of a float parsed from symbolic digits")
				}
				if math.IsNaN(v.V) || math.IsInf(v.V, 0) {
					return Int{W: w, S: s}
				}
				if s {
					return cint(int64(v.V), w, s)
				}
				return Int{C: trunc(uint64(v.V), w), W: w, S: s}
			}
		}
	case Str:
		switch d := dst.(type) {
		case *types.Basic:
			return v
		case *types.Slice:
			ex.needBytes(v, "string to slice conversion")
			eb := d.Elem().Underlying().(*types.Basic)
			if eb.Kind() == types.Uint8 {
				a := make([]Val, len(v.B))
				for i, b := range v.B {
					a[i] = b
				}
				return Slice{A: &a, Len: len(a), Cap: len(a)}
			}
			// []rune
			var a []Val
			for pos := 0; pos < len(v.B); {
				r, w := ex.decodeRune(v.B[pos:])
				a = append(a, r)
				pos += w
			}
			if a == nil {
				a = []Val{}
			}
			return Slice{A: &a, Len: len(a), Cap: len(a)}
		}
	case Slice:
		switch d := dst.(type) {
		case *types.Basic: // []byte or []rune to string
			fe := from.Underlying().(*types.Slice).Elem().Underlying().(*types.Basic)
			var out []Int
			for _, e := range v.elems() {
				if fe.Kind() == types.Uint8 {
					out = append(out, e.(Int))
				} else {
					out = append(out, ex.runeToString(e.(Int)).B...)
				}
			}
			return Str{B: out}
		case *types.Slice:
			return v
		case *types.Array: // slice to array (Go 1.20): a copy of the first N elements
			n := int(d.Len())
			if v.Len < n {
				ex.gopanic("explicit", fmt.Sprintf("runtime error: cannot convert slice with length %d to array or pointer to array with length %d", v.Len, n))
			}
			out := make(Struct, n)
			copy(out, v.elems()[:n])
			return out
		case *types.Pointer: // slice to array pointer
			if at, ok := d.Elem().Underlying().(*types.Array); ok && v.Len < int(at.Len()) {
				ex.gopanic("explicit", fmt.Sprintf("runtime error: cannot convert slice with length %d to array or pointer to array with length %d", v.Len, at.Len()))
			}
			unsupported("slice to array pointer conversion")
		}
	case Ptr, *MapObj, Closure, Struct, Bool, nil, Iface:
		return x
	}
	unsupported("conversion %T -> %s", x, to)
	return nil
}

// runeToString: string(r) with r possibly symbolic.
func (ex *Exec) runeToString(v Int) Str {
	if v.T == nil {
		var r rune
		if v.S {
			sv := v.signed()
			if sv < 0 || sv > 0x10FFFF {
				r = utf8.RuneError
			} else {
				r = rune(sv)
			}
		} else {
			if v.C > 0x10FFFF {
				r = utf8.RuneError
			} else {
				r = rune(v.C)
			}
		}
		return cstr(string(r))
	}
	if v.W == 8 {
		if ex.branch(mkBool(mkCmp("bvult", v.T, mkConst(0x80, 8)))) {
			return Str{B: []Int{v}}
		}
		b0 := mkInt(mkBV("bvor", mkConst(0xc0, 8), mkBV("bvlshr", v.T, mkConst(6, 8))), 8, false)
		b1 := mkInt(mkBV("bvor", mkConst(0x80, 8), mkBV("bvand", v.T, mkConst(0x3f, 8))), 8, false)
		return Str{B: []Int{b0, b1}}
	}
	// 32-bit rune: fork on encoding length
	t := v.T
	w := int(v.W)
	ex8 := func(x *Term) *Term { return mkExtract(7, 0, x) }
	lt := func(c uint64) Bool { return mkBool(mkCmp("bvult", t, mkConst(c, w))) }
	shr := func(n uint64) *Term { return mkBV("bvlshr", t, mkConst(n, w)) }
	cont := func(x *Term) Int {
		return mkInt(mkBV("bvor", mkConst(0x80, 8), mkBV("bvand", ex8(x), mkConst(0x3f, 8))), 8, false)
	}
	if ex.branch(lt(0x80)) {
		return Str{B: []Int{mkInt(ex8(t), 8, false)}}
	}
	if ex.branch(lt(0x800)) {
		return Str{B: []Int{mkInt(mkBV("bvor", mkConst(0xc0, 8), ex8(shr(6))), 8, false), cont(t)}}
	}
	// surrogates and out of range -> U+FFFD
	isSur := mkBool(mkAnd(mkCmp("bvuge", t, mkConst(0xD800, w)), mkCmp("bvule", t, mkConst(0xDFFF, w))))
	if ex.branch(isSur) || !ex.branch(lt(0x110000)) {
		return cstr("�")
	}
	if ex.branch(lt(0x10000)) {
		return Str{B: []Int{mkInt(mkBV("bvor", mkConst(0xe0, 8), ex8(shr(12))), 8, false), cont(shr(6)), cont(t)}}
	}
	return Str{B: []Int{mkInt(mkBV("bvor", mkConst(0xf0, 8), ex8(shr(18))), 8, false), cont(shr(12)), cont(shr(6)), cont(t)}}
}

// decodeRune: forking UTF-8 decoder (semantics of utf8.DecodeRuneInString).
func (ex *Exec) decodeRune(b []Int) (Int, int) {
	if len(b) == 0 {
		return cint(utf8.RuneError, 32, true), 0
	}
	allConc := true
	n := len(b)
	if n > 4 {
		n = 4
	}
	for _, x := range b[:n] {
		if x.T != nil {
			allConc = false
		}
	}
	if allConc {
		buf := make([]byte, n)
		for i := range buf {
			buf[i] = byte(b[i].C)
		}
		r, w := utf8.DecodeRune(buf)
		return cint(int64(r), 32, true), w
	}
	bad := func() (Int, int) { return cint(utf8.RuneError, 32, true), 1 }
	b0 := b[0]
	in := func(x Int, lo, hi uint64) bool {
		if x.T == nil {
			return x.C >= lo && x.C <= hi
		}
		return ex.branch(mkBool(mkAnd(mkCmp("bvuge", x.T, mkConst(lo, 8)), mkCmp("bvule", x.T, mkConst(hi, 8)))))
	}
	z32 := func(x Int) *Term { return mkZext(x.term(), 32) }
	if in(b0, 0, 0x7f) {
		return mkInt(z32(b0), 32, true), 1
	}
	if !in(b0, 0xC2, 0xF4) {
		return bad()
	}
	and := func(x *Term, m uint64) *Term { return mkBV("bvand", x, mkConst(m, 32)) }
	shl := func(x *Term, n uint64) *Term { return mkBV("bvshl", x, mkConst(n, 32)) }
	or := func(xs ...*Term) *Term {
		r := xs[0]
		for _, x := range xs[1:] {
			r = mkBV("bvor", r, x)
		}
		return r
	}
	if in(b0, 0xC2, 0xDF) {
		if len(b) < 2 || !in(b[1], 0x80, 0xBF) {
			return bad()
		}
		return mkInt(or(shl(and(z32(b0), 0x1f), 6), and(z32(b[1]), 0x3f)), 32, true), 2
	}
	if in(b0, 0xE0, 0xEF) {
		lo, hi := uint64(0x80), uint64(0xBF)
		if in(b0, 0xE0, 0xE0) {
			lo = 0xA0
		} else if in(b0, 0xED, 0xED) {
			hi = 0x9F
		}
		if len(b) < 3 || !in(b[1], lo, hi) || !in(b[2], 0x80, 0xBF) {
			return bad()
		}
		return mkInt(or(shl(and(z32(b0), 0x0f), 12), shl(and(z32(b[1]), 0x3f), 6), and(z32(b[2]), 0x3f)), 32, true), 3
	}
	// F0..F4
	lo, hi := uint64(0x80), uint64(0xBF)
	if in(b0, 0xF0, 0xF0) {
		lo = 0x90
	} else if in(b0, 0xF4, 0xF4) {
		hi = 0x8F
	}
	if len(b) < 4 || !in(b[1], lo, hi) || !in(b[2], 0x80, 0xBF) || !in(b[3], 0x80, 0xBF) {
		return bad()
	}
	return mkInt(or(shl(and(z32(b0), 0x07), 18), shl(and(z32(b[1]), 0x3f), 12), shl(and(z32(b[2]), 0x3f), 6), and(z32(b[3]), 0x3f)), 32, true), 4
}

var _ = fmt.Sprint

// appendVals: Go's append. Spare capacity is written in place and the result
// shares the backing array; otherwise a new array (at least doubled) is made.
func (ex *Exec) appendVals(s Slice, add []Val, el types.Type) Slice {
	if len(add) == 0 {
		return s
	}
	if s.A != nil && s.Len+len(add) <= s.Cap {
		for i, v := range add {
			ex.logCell(s.at(s.Len+i), true)
			*(s.at(s.Len + i)) = copyVal(v)
		}
		return Slice{A: s.A, Off: s.Off, Len: s.Len + len(add), Cap: s.Cap}
	}
	need := s.Len + len(add)
	nc := s.Cap * 2
	if nc < need {
		nc = need
	}
	if nc < 4 && need <= 4 {
		// Go rounds small allocations up to size classes; irrelevant for the
		// semantics unless code relies on aliasing after append.
		nc = need
	}
	a := make([]Val, nc)
	for i := 0; i < s.Len; i++ {
		ex.logCell(s.at(i), false)
		a[i] = copyVal(*s.at(i))
	}
	for i, v := range add {
		a[s.Len+i] = copyVal(v)
	}
	for i := need; i < nc; i++ {
		if el != nil {
			a[i] = ex.zero(el)
		}
	}
	return Slice{A: &a, Len: need, Cap: nc}
}
