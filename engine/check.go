package main

import (
	"bufio"
	"bytes"
	"context"
	"encoding/json"
	"fmt"
	"os"
	"os/exec"
	"path/filepath"
	"regexp"
	"sort"
	"strings"
	"time"
)

// ---------------------------------------------------------------- native replay

type NativeResult struct {
	ID      int       `json:"id"`
	Outcome string    `json:"outcome"`
	Label   string    `json:"label,omitempty"`
	Site    string    `json:"site,omitempty"`
	Msg     string    `json:"msg,omitempty"`
	Notes   []NoteOut `json:"notes,omitempty"`
	Covers  []string  `json:"covers,omitempty"`
}

var digitsRe = regexp.MustCompile(`0x[0-9a-f]+|[0-9]+`)

func normMsg(m string) string {
	m = digitsRe.ReplaceAllString(m, "N")
	if i := strings.Index(m, "\n"); i >= 0 {
		m = m[:i]
	}
	if len(m) > 70 {
		m = m[:70]
	}
	return m
}

func (r *NativeResult) signature(harness string) string {
	switch r.Outcome {
	case "assert":
		return "assert:" + r.Label
	case "panic":
		return "panic:" + r.Site + ":" + normMsg(r.Msg)
	case "hang":
		return "hang:" + harness
	case "race":
		return "race:" + r.Msg
	case "crash":
		return "crash:" + normMsg(r.Msg)
	}
	return r.Outcome
}

func workDir() string {
	d := filepath.Join(verifDir, ".work")
	os.MkdirAll(d, 0o755)
	return d
}

// buildReplayBinary compiles the harness package's test binary against /repo's working tree.
func buildReplayBinary(pkg string) (string, error) {
	out := filepath.Join(workDir(), pkg+".test")
	cmd := exec.Command("go", "test", "-c", "-vet=off", "-o", out, "./"+pkg)
	cmd.Dir = harnessDir()
	cmd.Env = goEnv()
	b, err := cmd.CombinedOutput()
	if err != nil {
		return "", fmt.Errorf("go test -c ./%s: %v\n%s", pkg, err, b)
	}
	return out, nil
}

// buildRaceBinary: the same test binary with the race detector (only needed to confirm a predicted race).
func buildRaceBinary(pkg string) (string, error) {
	out := filepath.Join(workDir(), pkg+".race.test")
	cmd := exec.Command("go", "test", "-c", "-race", "-vet=off", "-o", out, "./"+pkg)
	cmd.Dir = harnessDir()
	env := []string{}
	for _, e := range goEnv() {
		if e != "CGO_ENABLED=0" {
			env = append(env, e)
		}
	}
	cmd.Env = append(env, "CGO_ENABLED=1")
	b, err := cmd.CombinedOutput()
	if err != nil {
		return "", fmt.Errorf("go test -c -race ./%s: %v\n%s", pkg, err, b)
	}
	return out, nil
}

var raceBin string

// runBatch runs vectors natively; results are keyed by vector ID.
func runBatch(bin string, vecs []*Vector, perVec time.Duration) map[int]*NativeResult {
	res := map[int]*NativeResult{}
	if len(vecs) == 0 {
		return res
	}
	// predicted hangs are run one at a time with a short deadline
	var pending []*Vector
	for _, v := range vecs {
		if v.Predicted != nil && v.Predicted.Outcome == "race" {
			if raceBin == "" {
				rb, err := buildRaceBinary(strings.ToLower(v.Property))
				if err != nil {
					fmt.Fprintln(os.Stderr, "ENGINE-ERROR:", err)
					res[v.ID] = &NativeResult{ID: v.ID, Outcome: "vector", Msg: "cannot build the race binary"}
					continue
				}
				raceBin = rb
			}
			for k, r := range runOne(raceBin, v, 120*time.Second) {
				res[k] = r
			}
			continue
		}
		if v.Predicted != nil && v.Predicted.Outcome == "hang" {
			for k, r := range runOne(bin, v, 5*time.Second) {
				res[k] = r
			}
			continue
		}
		pending = append(pending, v)
	}
	for len(pending) > 0 {
		f := filepath.Join(workDir(), fmt.Sprintf("batch-%d-%d.jsonl", os.Getpid(), time.Now().UnixNano()))
		var buf bytes.Buffer
		for _, v := range pending {
			b, _ := json.Marshal(v)
			buf.Write(b)
			buf.WriteByte('\n')
		}
		os.WriteFile(f, buf.Bytes(), 0o644)
		budget := time.Duration(len(pending))*perVec/50 + 15*time.Second
		ctx, cancel := context.WithTimeout(context.Background(), budget)
		cmd := exec.CommandContext(ctx, bin, "-test.run", "^TestReplay$", "-test.count=1")
		cmd.Env = append(os.Environ(), "VERIF_REPLAY_BATCH="+f)
		cmd.Dir = workDir()
		out, _ := cmd.CombinedOutput()
		timedOut := ctx.Err() != nil
		cancel()
		os.Remove(f)
		got := 0
		sc := bufio.NewScanner(bytes.NewReader(out))
		sc.Buffer(make([]byte, 1<<20), 1<<26)
		for sc.Scan() {
			line := sc.Text()
			if !strings.HasPrefix(line, "REPLAY-RESULT ") {
				continue
			}
			var r NativeResult
			if json.Unmarshal([]byte(line[len("REPLAY-RESULT "):]), &r) == nil {
				rr := r
				res[r.ID] = &rr
				got++
			}
		}
		if got >= len(pending) {
			break
		}
		// the binary died or hung at vector number `got`: classify it and continue after it
		bad := pending[got]
		if timedOut {
			res[bad.ID] = &NativeResult{ID: bad.ID, Outcome: "hang", Msg: "no result within " + budget.String()}
		} else {
			msg := string(out)
			if i := strings.Index(msg, "fatal error:"); i >= 0 {
				msg = msg[i:]
			} else if i := strings.Index(msg, "panic:"); i >= 0 {
				msg = msg[i:]
			}
			res[bad.ID] = &NativeResult{ID: bad.ID, Outcome: "crash", Msg: msg}
		}
		pending = pending[got+1:]
	}
	return res
}

// raceSummary: the innermost plush frames of the two accesses of the first report
func raceSummary(out string) string {
	var fns []string
	lines := strings.Split(out, "\n")
	for i, l := range lines {
		if strings.HasPrefix(l, "Write at") || strings.HasPrefix(l, "Read at") || strings.HasPrefix(l, "Previous write at") || strings.HasPrefix(l, "Previous read at") {
			for _, m := range lines[i+1:] {
				m = strings.TrimSpace(m)
				if m == "" {
					break
				}
				if strings.Contains(m, "gobuffalo/plush") && strings.HasSuffix(m, "()") && !strings.HasPrefix(m, "/") {
					fn := strings.TrimSuffix(m, "()")
					if k := strings.LastIndex(fn, "/"); k >= 0 {
						fn = fn[k+1:]
					}
					fns = append(fns, strings.TrimPrefix(strings.SplitN(l, " at", 2)[0], "Previous ")+" in "+fn)
					break
				}
			}
		}
		if len(fns) == 2 {
			break
		}
	}
	for i := range fns {
		fns[i] = strings.ToLower(fns[i][:1]) + fns[i][1:]
	}
	sort.Strings(fns)
	return strings.Join(fns, " / ")
}

func runOne(bin string, v *Vector, d time.Duration) map[int]*NativeResult {
	res := map[int]*NativeResult{}
	f := filepath.Join(workDir(), fmt.Sprintf("one-%d-%d.json", os.Getpid(), time.Now().UnixNano()))
	b, _ := json.Marshal(v)
	os.WriteFile(f, b, 0o644)
	defer os.Remove(f)
	ctx, cancel := context.WithTimeout(context.Background(), d)
	defer cancel()
	cmd := exec.CommandContext(ctx, bin, "-test.run", "^TestReplay$", "-test.count=1")
	cmd.Env = append(os.Environ(), "VERIF_REPLAY="+f)
	cmd.Dir = workDir()
	out, _ := cmd.CombinedOutput()
	if ctx.Err() != nil {
		res[v.ID] = &NativeResult{ID: v.ID, Outcome: "hang", Msg: "the native run did not return within " + d.String()}
		return res
	}
	if strings.Contains(string(out), "WARNING: DATA RACE") {
		res[v.ID] = &NativeResult{ID: v.ID, Outcome: "race", Msg: raceSummary(string(out))}
		return res
	}
	for _, line := range strings.Split(string(out), "\n") {
		if strings.HasPrefix(line, "REPLAY-RESULT ") {
			var r NativeResult
			if json.Unmarshal([]byte(line[len("REPLAY-RESULT "):]), &r) == nil {
				r.ID = v.ID
				res[v.ID] = &r
			}
		}
	}
	if res[v.ID] == nil {
		msg := string(out)
		if i := strings.Index(msg, "fatal error:"); i >= 0 {
			msg = msg[i:]
		}
		res[v.ID] = &NativeResult{ID: v.ID, Outcome: "crash", Msg: msg}
	}
	return res
}

// ---------------------------------------------------------------- known findings

type Finding struct {
	Status    string `json:"status"` // known | fixed
	Property  string `json:"property"`
	Signature string `json:"signature"` // glob on the native signature
	Harness   string `json:"harness"`   // glob on the harness name ("" = any)
	What      string `json:"what"`
	Example   string `json:"example,omitempty"`
	Commit    string `json:"commit,omitempty"`
}

func loadFindings() []Finding {
	var fs []Finding
	b, err := os.ReadFile(filepath.Join(verifDir, "known_findings.json"))
	if err != nil {
		return nil
	}
	if err := json.Unmarshal(b, &fs); err != nil {
		fmt.Fprintln(os.Stderr, "ENGINE-ERROR: known_findings.json:", err)
		os.Exit(3)
	}
	return fs
}

func globMatch(pat, s string) bool {
	if pat == "" {
		return true
	}
	// '*' matches any run of characters; everything else literal
	parts := strings.Split(pat, "*")
	if len(parts) == 1 {
		return pat == s
	}
	if !strings.HasPrefix(s, parts[0]) {
		return false
	}
	s = s[len(parts[0]):]
	for i := 1; i < len(parts)-1; i++ {
		j := strings.Index(s, parts[i])
		if j < 0 {
			return false
		}
		s = s[j+len(parts[i]):]
	}
	return strings.HasSuffix(s, parts[len(parts)-1])
}

func matchFinding(fs []Finding, property, harness, sig string) *Finding {
	for i := range fs {
		f := &fs[i]
		if f.Status == "known" && f.Property == property && globMatch(f.Signature, sig) && globMatch(f.Harness, harness) {
			return f
		}
	}
	return nil
}

func exhaustive0(res *exploreResult) bool { return res.unexplored == 0 && res.stats.deadline == 0 }

// ---------------------------------------------------------------- the check command

type checkOpts struct {
	property string
	tier     string
	pkg      string
	only     string // harness name filter (substring)
	workers  int
	budget   time.Duration
	fuel     int64
	seed     int64
	solver   string
	noReplay bool
	verbose  bool
	cross    bool
}

func runCheck(o *checkOpts) int {
	t0 := time.Now()
	tierN := 0
	if o.tier == "thorough" {
		tierN = 1
	}
	w, loadDur := loadWorld([]string{"./" + o.pkg}, tierN, o.property)
	// discover harnesses by running the package initialisers once
	probe := &Exec{w: w, sol: newSolver(o.solver, 20000), st: newStats(), q: newQueue(), viols: &violSet{bySig: map[string][]*Violation{}, count: map[string]int{}}}
	probe.resetPath(nil)
	probe.fuel = 1 << 40
	func() {
		defer func() {
			if r := recover(); r != nil {
				fmt.Fprintf(os.Stderr, "ENGINE-ERROR: package initialisation failed: %v\n", r)
				if gp, ok := r.(*goPanic); ok {
					fmt.Fprintln(os.Stderr, gp.msg, gp.stack)
				}
				os.Exit(3)
			}
		}()
		probe.initGlobals()
	}()
	probe.sol.close()
	var names []string
	for _, n := range probe.regOrder {
		if strings.HasPrefix(n, o.property+"_") && (o.only == "" || strings.Contains(n, o.only)) {
			names = append(names, n)
		}
	}
	if len(names) == 0 {
		fmt.Fprintln(os.Stderr, "ENGINE-ERROR: no harness registered for", o.property)
		return 3
	}
	cfg := &runConfig{fuel: o.fuel, seed: o.seed, validateCap: 200, sampleCap: 40}
	if tierN == 1 {
		cfg.validateCap = 2000
	}
	if tierN == 1 || o.cross {
		cfg.crossCap = 400
	} else {
		cfg.crossCap = 40
	}
	cfg.validateCap = cfg.validateCap/o.workers + 1
	cfg.sampleCap = cfg.sampleCap/o.workers + 1
	if o.budget > 0 {
		cfg.deadline = time.Now().Add(o.budget)
	}
	res := explore(w, names, cfg, o.workers, o.solver)
	st := res.stats

	// ---- cross-solver comparison of a sample of the queries z3 decided
	crossStats := map[string]interface{}{}
	crossBad := 0
	xq := res.xqueries
	maxX := 120
	if tierN == 1 || o.cross {
		maxX = 3000
	}
	if len(xq) > maxX { // an even sample
		step := float64(len(xq)) / float64(maxX)
		var pick []xquery
		for i := 0; i < maxX; i++ {
			pick = append(pick, xq[int(float64(i)*step)])
		}
		xq = pick
	}
	for _, other := range []string{"cvc5", "z3-new"} {
		if _, err := exec.LookPath(other); err != nil {
			continue
		}
		n, bad, inc, err := crossCheck(other, xq)
		if err != nil {
			crossStats[other] = "error: " + err.Error()
			continue
		}
		crossStats[other] = map[string]int{"compared": n, "disagreements": bad, "unknown_or_error": inc}
		crossBad += bad
	}

	// ---- replay candidates and validate sampled passing paths natively
	findings := loadFindings()
	var lines []string
	violations, knownHits, spurious := 0, map[string]int{}, 0
	validated, validateMismatch := 0, 0
	probes, probeHits := 0, 0
	var violSamples []map[string]interface{}
	if !o.noReplay {
		bin, err := buildReplayBinary(o.pkg)
		if err != nil {
			fmt.Fprintln(os.Stderr, "ENGINE-ERROR:", err)
			return 3
		}
		defer os.Remove(bin)
		defer func() {
			if raceBin != "" {
				os.Remove(raceBin)
			}
		}()
		var cands []*Vector
		id := 1
		sigs := make([]string, 0, len(res.viols.bySig))
		for s := range res.viols.bySig {
			sigs = append(sigs, s)
		}
		sort.Strings(sigs)
		hasPerm := func(v *Vector) bool {
			for _, x := range v.Values {
				if x.Kind == "perm" {
					return true
				}
			}
			return false
		}
		var runList []*Vector
		copies := map[int][]int{} // candidate id -> ids of its extra copies
		for _, s := range sigs {
			for _, v := range res.viols.bySig[s] {
				v.vec.ID = id
				id++
				cands = append(cands, v.vec)
				runList = append(runList, v.vec)
				if hasPerm(v.vec) {
					// the Go runtime picks its own map order: try the vector several times
					for k := 0; k < 24; k++ {
						c := *v.vec
						c.ID = id
						id++
						copies[v.vec.ID] = append(copies[v.vec.ID], c.ID)
						runList = append(runList, &c)
					}
				}
			}
		}
		nat := runBatch(bin, runList, 10*time.Second)
		for orig, ids := range copies {
			if r := nat[orig]; r != nil && r.Outcome != "ok" {
				continue
			}
			for _, cid := range ids {
				if r := nat[cid]; r != nil && r.Outcome != "ok" && r.Outcome != "assume" && r.Outcome != "vector" {
					rr := *r
					rr.ID = orig
					nat[orig] = &rr
					break
				}
			}
		}
		// a candidate that the batch did not reproduce is tried once more alone in a fresh
		// process: the executor starts every path from freshly initialised package state,
		// the batch does not (process-wide state written by earlier vectors can mask it)
		alone := 0
		for _, v := range cands {
			r := nat[v.ID]
			if alone >= 60 || !(r == nil || r.Outcome == "ok") {
				continue
			}
			alone++
			if r2 := runBatch(bin, []*Vector{v}, 10*time.Second)[v.ID]; r2 != nil && r2.Outcome != "ok" && r2.Outcome != "assume" && r2.Outcome != "vector" {
				nat[v.ID] = r2
			}
		}
		head := repoHead()
		reported := map[string]bool{}
		for _, v := range cands {
			r := nat[v.ID]
			if v.Predicted != nil && v.Predicted.Outcome == "probe" {
				probes++
				if r == nil || r.Outcome == "ok" || r.Outcome == "assume" || r.Outcome == "vector" {
					continue // a clean native run of an inconclusive path's prefix says nothing
				}
				probeHits++
			}
			if r == nil || r.Outcome == "ok" || r.Outcome == "assume" || r.Outcome == "vector" {
				spurious++
				oc := "none"
				if r != nil {
					oc = r.Outcome + " " + r.Msg
				}
				lines = append(lines, fmt.Sprintf("ENGINE-DISCREPANCY property=%s harness=%s predicted=%s/%s%s native=%s inputs=%v", o.property, v.Harness, v.Predicted.Outcome, v.Predicted.Label, v.Predicted.Site, oc, v.Inputs))
				continue
			}
			sig := r.signature(v.Harness)
			if f := matchFinding(findings, o.property, v.Harness, sig); f != nil {
				knownHits[f.What]++
				continue
			}
			key := v.Harness + "|" + sig
			if reported[key] {
				continue
			}
			reported[key] = true
			violations++
			v.Signature = sig
			v.RepoHead = head
			v.Predicted = &Predicted{Outcome: r.Outcome, Label: r.Label, Site: r.Site, Msg: r.Msg}
			path := filepath.Join(verifDir, "replays", fmt.Sprintf("%s-%s.json", o.property, shaOf(key)))
			b, _ := json.MarshalIndent(v, "", " ")
			os.MkdirAll(filepath.Dir(path), 0o755)
			os.WriteFile(path, b, 0o644)
			lines = append(lines, fmt.Sprintf("VIOLATION property=%s replay=%s", o.property, path))
			lines = append(lines, fmt.Sprintf("  harness=%s signature=%q inputs=%v notes=%v", v.Harness, sig, v.Inputs, v.Notes))
			violSamples = append(violSamples, map[string]interface{}{"harness": v.Harness, "signature": sig, "inputs": v.Inputs})
		}
		// path validation
		var vv []*Vector
		for _, v := range st.validate {
			v.ID = id
			id++
			vv = append(vv, v)
		}
		natv := runBatch(bin, vv, 10*time.Second)
		for _, v := range vv {
			r := natv[v.ID]
			ok := r != nil && r.Outcome == "ok" && len(r.Notes) == len(v.Notes)
			hasPerm := false
			for _, x := range v.Values {
				if x.Kind == "perm" {
					hasPerm = true // Go's own map order is not controllable natively
				}
			}
			if ok && !hasPerm {
				for i := range v.Notes {
					if v.Notes[i].V != "?" && r.Notes[i].V != "?" && (v.Notes[i].K != r.Notes[i].K || v.Notes[i].V != r.Notes[i].V) {
						ok = false
					}
				}
			}
			if ok {
				validated++
			} else if hasPerm && r != nil && r.Outcome == "assert" {
				// the native run took a map order of its own; its failure, if real,
				// is found by the engine on the path with that order
			} else {
				validateMismatch++
				oc := "none"
				if r != nil {
					oc = fmt.Sprintf("%s %s %s notes=%v", r.Outcome, r.Label, r.Msg, r.Notes)
				}
				lines = append(lines, fmt.Sprintf("ENGINE-DISCREPANCY (path validation) property=%s harness=%s inputs=%v engine_notes=%v native=%s", o.property, v.Harness, v.Inputs, v.Notes, oc))
			}
		}
	}
	for what, n := range knownHits {
		lines = append(lines, fmt.Sprintf("KNOWN-FINDING: property=%s %s (replayed %d)", o.property, what, n))
	}
	sort.Strings(lines)

	// ---- vacuity: every harness must have at least one complete feasible path
	var vacuous []string
	hasCand := map[string]bool{}
	for sig := range res.viols.count {
		hasCand[strings.SplitN(sig, "|", 2)[0]] = true
	}
	var undecided []string
	for _, n := range names {
		if st.perHarness[n] == 0 && !hasCand[n] && exhaustive0(res) {
			if st.inconcPerH[n] > 0 {
				// every path ran into something the engine cannot execute: no verdict, not an alarm
				undecided = append(undecided, n)
			} else {
				vacuous = append(vacuous, n)
			}
		}
	}

	// ---- evidence
	exhaustive := res.unexplored == 0 && st.deadline == 0
	var funcs []string
	for f := range st.funcs {
		funcs = append(funcs, shortFn(f))
	}
	sort.Strings(funcs)
	incon := map[string]int64{}
	var inconTotal int64
	for k, v := range st.inconclusive {
		incon[k] = v
		inconTotal += v
	}
	candCount := 0
	for _, c := range res.viols.count {
		candCount += c
	}
	var samples []interface{}
	for _, s := range st.samples {
		samples = append(samples, s)
		if len(samples) >= 40 {
			break
		}
	}
	for _, s := range violSamples {
		samples = append(samples, s)
	}
	if len(samples) == 0 {
		samples = append(samples, map[string]interface{}{"harnesses": names})
	}
	transitions := st.forks
	if transitions == 0 {
		transitions = st.paths
	}
	ev := map[string]interface{}{
		"property_id": o.property,
		"tier":        o.tier,
		"seed":        o.seed,
		"level":       "model_checking",
		"wall_s":      time.Since(t0).Seconds(),
		"violations":  violations,
		"coverage": map[string]interface{}{
			"states":                             st.paths,
			"transitions":                        transitions,
			"traces_validated_against_impl":      validated,
			"samples":                            samples,
			"exhaustive":                         exhaustive,
			"obligations":                        st.obligations,
			"discharged":                         st.discharged,
			"explanation":                        "bounded symbolic execution of the Go SSA of /repo (regenerated from the working tree on this run); states = complete feasible paths decided; transitions = forks on symbolic conditions; every assertion and every implicit run-time check on every path is an SMT query (or an exact 256-value evaluation for single-byte conditions)",
			"harnesses":                          names,
			"paths_per_harness":                  st.perHarness,
			"functions_encoded":                  funcs,
			"functions_encoded_count":            len(funcs),
			"ssa_instructions_executed":          st.instrs,
			"solver":                             o.solver,
			"solver_queries":                     map[string]int64{"sat": res.sat, "unsat": res.unsat, "unknown": res.unknown, "byte_fastpath_decisions": st.fast},
			"solver_time_s":                      res.solverTime.Seconds(),
			"cross_solver":                       crossStats,
			"cross_solver_disagreements":         crossBad,
			"load_and_ssa_build_s":               loadDur.Seconds(),
			"infeasible_paths_pruned":            st.infeasible,
			"inconclusive_paths":                 inconTotal,
			"inconclusive_reasons":               incon,
			"unwind_failures":                    st.unwind,
			"assertions_with_unknown":            st.assertUnknown,
			"unexplored_prefixes":                res.unexplored,
			"paths_cut_by_deadline":              st.deadline,
			"violation_candidates":               candCount,
			"spurious_counterexamples":           spurious,
			"inconclusive_paths_probed_natively": probes,
			"inconclusive_path_probes_failing":   probeHits,
			"known_findings_hit":                 knownHits,
			"path_validation_mismatches":         validateMismatch,
			"covers":                             st.covers,
			"workers":                            res.workers,
			"fuel_per_path":                      o.fuel,
			"repo_head":                          repoHead(),
			"vacuous_harnesses":                  vacuous,
			"undecided_harnesses":                undecided,
		},
		"assumptions": []string{
			"go/packages + go/ssa (x/tools v0.29.0) construct the SSA of /repo correctly",
			"the executor's semantics of the SSA instructions and the models listed in DESIGN.md §2.5/§2.6 (strings, fmt, strconv, errors, sync, html/template escapers, reflect over go/types) — validated by native replay of sampled passing paths (traces_validated_against_impl) and of every counterexample",
			"z3 answers sat/unsat correctly (any unknown or (error line makes the path inconclusive)",
			"bounds: only the harness inputs within the ranges stated in DESIGN.md §4 for this tier; anything larger is outside the claim",
		},
	}
	eb, _ := json.MarshalIndent(ev, "", " ")
	os.MkdirAll(filepath.Join(verifDir, "evidence"), 0o755)
	os.WriteFile(filepath.Join(verifDir, "evidence", o.property+".json"), eb, 0o644)

	// ---- report
	fmt.Printf("property=%s tier=%s harnesses=%d paths=%d forks=%d infeasible=%d inconclusive=%d unwind=%d unexplored=%d obligations=%d discharged=%d candidates=%d validated=%d wall=%.1fs (load %.1fs, solver %.1fs cpu, sat=%d unsat=%d unknown=%d fast=%d)\n",
		o.property, o.tier, len(names), st.paths, st.forks, st.infeasible, inconTotal, st.unwind, res.unexplored, st.obligations, st.discharged, candCount, validated, time.Since(t0).Seconds(), loadDur.Seconds(), res.solverTime.Seconds(), res.sat, res.unsat, res.unknown, st.fast)
	if o.verbose {
		for _, n := range names {
			fmt.Printf("  harness %-40s ok-paths=%d\n", n, st.perHarness[n])
		}
	}
	for _, k := range sortedKeys(st.inconclusive) {
		fmt.Printf("  INCONCLUSIVE %6d  %s\n", st.inconclusive[k], k)
	}
	for _, l := range lines {
		fmt.Println(l)
	}
	for _, n := range undecided {
		fmt.Printf("UNDECIDED harness=%s: every path is inconclusive (see the reasons above); the claim of this run does not include it\n", n)
	}
	if violations > 0 {
		return 1
	}
	if crossBad > 0 {
		fmt.Println("ENGINE-ERROR: z3 and another solver disagree on", crossBad, "queries:", crossStats)
		return 3
	}
	if len(vacuous) > 0 {
		fmt.Println("ENGINE-ERROR: harnesses without any complete feasible path (vacuous):", vacuous)
		return 3
	}
	return 0
}
