package main

import (
	"flag"
	"fmt"
	"os"
	"runtime"
	"strconv"
	"strings"
	"time"
)

func usage() {
	fmt.Fprintln(os.Stderr, `usage:
  symgo check <property-id> [--tier quick|thorough] [--only substr] [--workers n] [--budget dur] [--fuel n] [--solver z3] [--no-replay] [-v]
  symgo replay <replay-file>
  symgo selftest`)
	os.Exit(2)
}

func main() {
	if len(os.Args) < 2 {
		usage()
	}
	if d := os.Getenv("VERIF_DIR"); d != "" {
		verifDir = d
	}
	if d := os.Getenv("VERIF_REPO"); d != "" {
		repoDir = d
	}
	switch os.Args[1] {
	case "check":
		if len(os.Args) < 3 {
			usage()
		}
		prop := os.Args[2]
		fs := flag.NewFlagSet("check", flag.ExitOnError)
		tier := fs.String("tier", "", "quick|thorough")
		only := fs.String("only", "", "harness name filter")
		workers := fs.Int("workers", 0, "worker count")
		budget := fs.Duration("budget", 0, "wall budget for exploration")
		fuel := fs.Int64("fuel", 1_000_000, "SSA instructions per path")
		solver := fs.String("solver", "z3", "solver binary")
		noReplay := fs.Bool("no-replay", false, "skip native replay")
		verbose := fs.Bool("v", false, "verbose")
		cross := fs.Bool("cross", false, "large cross-solver sample (default in the thorough tier)")
		fs.Parse(os.Args[3:])
		if *tier == "" {
			*tier = os.Getenv("VERIF_TIER")
			if *tier == "" {
				*tier = "quick"
			}
		}
		if *workers == 0 {
			*workers = runtime.NumCPU()
			if *workers > 16 {
				*workers = 16
			}
		}
		if *budget == 0 {
			if *tier == "thorough" {
				*budget = 25 * time.Minute
			} else {
				*budget = 600 * time.Second
			}
		}
		seed := int64(1)
		if s := os.Getenv("VERIF_SEED"); s != "" {
			if v, err := strconv.ParseInt(s, 10, 64); err == nil {
				seed = v
			}
		}
		o := &checkOpts{property: prop, tier: *tier, pkg: strings.ToLower(prop), only: *only, workers: *workers, budget: *budget, fuel: *fuel, seed: seed, solver: *solver, noReplay: *noReplay, verbose: *verbose, cross: *cross}
		os.Exit(runCheck(o))
	case "replay":
		if len(os.Args) < 3 {
			usage()
		}
		os.Exit(runReplay(os.Args[2]))
	case "selftest":
		os.Exit(runSelftest())
	default:
		usage()
	}
}
