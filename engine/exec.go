package main

import (
	"fmt"
	"go/constant"
	"go/token"
	"go/types"
	"strconv"
	"strings"
	"sync"
	"time"

	"golang.org/x/tools/go/ssa"
)

// ---------------------------------------------------------------- shared world

const plushPath = "github.com/gobuffalo/plush/v5"
const harnessPath = "verifharness"

type fnInfo struct {
	fn     *ssa.Function
	name   string
	slots  map[ssa.Value]int
	nslots int
	model  modelFn
	interp bool
	inRepo bool
	hasDef bool
}

type World struct {
	prog     *ssa.Program
	pkgs     []*ssa.Package
	mu       sync.Mutex
	infos    map[*ssa.Function]*fnInfo
	initPkgs []*ssa.Package // plush + harness packages
	globals  []*ssa.Global
	rtypeT   types.Type // *reflect.rtype
	errorT   types.Type
	emptyI   *types.Interface
	tier     int
	property string
}

func interpretablePkg(path string) bool {
	return path == plushPath || strings.HasPrefix(path, plushPath+"/") || path == harnessPath || strings.HasPrefix(path, harnessPath+"/") || path == "errors" || lazyPkg(path)
}

// lazyPkg: dependencies of plush that are executed from their SSA like plush itself, but whose
// (large) package initialisation runs only on the paths that call into them: gobuffalo/flect
// (inflection tables) behind pathFor and the inflection helpers.
func lazyPkg(path string) bool {
	return path == "github.com/gobuffalo/flect" || strings.HasPrefix(path, "github.com/gobuffalo/flect/")
}

var interpretableFns = map[string]bool{
	"(*fmt.wrapError).Error":   true,
	"(*fmt.wrapError).Unwrap":  true,
	"(*fmt.wrapErrors).Error":  true,
	"(*fmt.wrapErrors).Unwrap": true,
	"strings.Title":            false,
}

func (w *World) info(fn *ssa.Function) *fnInfo {
	w.mu.Lock()
	defer w.mu.Unlock()
	if fi := w.infos[fn]; fi != nil {
		return fi
	}
	fi := &fnInfo{fn: fn, name: fn.String()}
	fi.model = models[fi.name]
	if fi.model == nil && strings.HasPrefix(fi.name, harnessPath+"/vrt.") {
		fi.model = vrtModels[strings.TrimPrefix(fi.name, harnessPath+"/vrt.")]
	}
	pkgPath := ""
	if fn.Pkg != nil {
		pkgPath = fn.Pkg.Pkg.Path()
	} else if fn.Origin() != nil && fn.Origin().Pkg != nil {
		pkgPath = fn.Origin().Pkg.Pkg.Path()
	}
	fi.inRepo = pkgPath == plushPath || strings.HasPrefix(pkgPath, plushPath+"/")
	if fn.Blocks != nil {
		switch {
		case fn.Pkg == nil && fn.Synthetic != "":
			fi.interp = true // wrappers, bound methods, thunks
		case interpretablePkg(pkgPath):
			fi.interp = true
		case interpretableFns[fi.name]:
			fi.interp = true
		}
	}
	if fi.interp {
		fi.slots = map[ssa.Value]int{}
		n := 0
		for _, p := range fn.Params {
			fi.slots[p] = n
			n++
		}
		for _, p := range fn.FreeVars {
			fi.slots[p] = n
			n++
		}
		for _, b := range fn.Blocks {
			for _, ins := range b.Instrs {
				if v, ok := ins.(ssa.Value); ok {
					fi.slots[v] = n
					n++
				}
				if _, ok := ins.(*ssa.Defer); ok {
					fi.hasDef = true
				}
			}
		}
		fi.nslots = n
	}
	w.infos[fn] = fi
	return fi
}

// ---------------------------------------------------------------- executor (one per worker)

type varInfo struct {
	kind string // byte|int|int64|bool|choice|perm
	t    *Term  // nil for choice/perm (concrete per path)
	v    int64  // value for choice/perm
}

type noteRec struct {
	k string
	v Val
}

type Exec struct {
	w   *World
	sol *Solver
	st  *Stats
	q   *Queue

	// lazily initialised packages (lazyPkg), per path
	lazyDone    map[*ssa.Package]bool
	lazyRunning bool

	// per path
	prefix        []uint16
	nd            int
	pc            []*Term
	vars          []varInfo
	nsym          int
	instrs        int64
	fuel          int64
	dom           map[int]*byteset
	taint         map[int]bool
	globals       map[*ssa.Global]*Val
	stack         []*fnInfo
	notes         []noteRec
	covers        []string
	mapNondet     bool
	registry      map[string]Closure
	regOrder      []string
	opaqueN       uint64
	harness       string
	deadline      time.Time
	viol          []*Violation
	forks         int64
	depth         int
	frozen        map[*MapObj]bool
	builders      int
	known         map[string]bool
	ropeLens      map[string]Str
	par           *parState
	pathViol      bool
	curDeferFrame []*frame
	locks         map[*Val]bool
	syncMaps      map[*Val]*MapObj
	pools         map[*Val][]Val
	initFailure   string
	frozenCells   map[*Val]bool
	curH          int
	viols         *violSet
}

type frame struct {
	fi        *fnInfo
	regs      []Val
	defers    []deferred
	recovered bool
	panicking *goPanic
}

type deferred struct {
	cl      Closure
	fn      *ssa.Function
	args    []Val
	builtin string
}

func (ex *Exec) resetPath(prefix []uint16) {
	ex.prefix = prefix
	ex.nd = 0
	ex.pc = ex.pc[:0]
	ex.vars = nil
	ex.nsym = 0
	ex.instrs = 0
	ex.dom = map[int]*byteset{}
	ex.taint = map[int]bool{}
	ex.known = map[string]bool{}
	ex.pathViol = false
	ex.ropeLens = nil
	ex.par = nil
	ex.stack = ex.stack[:0]
	ex.notes = nil
	ex.covers = nil
	ex.mapNondet = false
	ex.opaqueN = 0
	ex.viol = nil
	ex.depth = 0
	ex.lazyDone = nil
	ex.lazyRunning = false
	ex.locks = nil
	ex.syncMaps = nil
	ex.pools = nil
}

// initGlobals zeroes every global of the interpretable packages and runs their
// package initialisers (per path: no state is carried from one path to the next).
func (ex *Exec) initGlobals() {
	ex.globals = make(map[*ssa.Global]*Val, len(ex.w.globals))
	for _, g := range ex.w.globals {
		v := ex.zero(g.Type().(*types.Pointer).Elem())
		ex.globals[g] = &v
	}
	ex.registry = map[string]Closure{}
	ex.regOrder = nil
	ex.initFailure = ""
	for _, p := range ex.w.initPkgs {
		ex.initPkg(p)
	}
}

// initPkg runs one package initialiser. A package-level initialiser that needs
// something the executor cannot do (an unmodelled library call) must not take
// the whole check down: the failure is remembered, the remaining packages are
// still initialised (the harness packages register their entry points), and
// every path then ends as inconclusive with the reason (initFailure).
func (ex *Exec) initPkg(p *ssa.Package) {
	defer func() {
		if r := recover(); r != nil {
			if pe, ok := r.(pathEnd); ok && pe.kind == "unsupported" {
				if ex.initFailure == "" {
					ex.initFailure = "package initialisation of " + p.Pkg.Path() + ": " + pe.msg
				}
				return
			}
			panic(r)
		}
	}()
	ex.call(p.Func("init"), nil, nil)
}

// ---------------------------------------------------------------- symbolic variables

func (ex *Exec) freshVar(kind string, w int) *Term {
	name := fmt.Sprintf("v%dw%d", ex.nsym, w)
	t := mkVar(name, w, ex.nsym)
	ex.nsym++
	ex.vars = append(ex.vars, varInfo{kind: kind, t: t})
	return t
}

// ---------------------------------------------------------------- decisions

func (ex *Exec) domOf(v int) *byteset {
	d := ex.dom[v]
	if d == nil {
		d = fullByteset()
		ex.dom[v] = d
	}
	return d
}

func (ex *Exec) noteTaint(t *Term) {
	if t.vid == -1 {
		return
	}
	if t.Op == "var" {
		ex.taint[t.vid] = true
		return
	}
	for _, a := range t.Args {
		ex.noteTaint(a)
	}
}

// feasibleBoth returns whether cond can be true and whether it can be false under pc.
func (ex *Exec) feasibleBoth(c *Term) (ft, ff bool) {
	if c.vid >= 0 && c.vw == 8 && !ex.taint[c.vid] && c.size < 64 {
		d := ex.domOf(c.vid)
		for x := 0; x < 256 && !(ft && ff); x++ {
			if d.has(x) {
				xv := uint64(x)
				if c.eval(func(string, int) uint64 { return xv }) != 0 {
					ft = true
				} else {
					ff = true
				}
			}
		}
		ex.st.fast++
		return
	}
	rt := ex.sol.check(ex.pc, c)
	if rt == resUnknown {
		unsupported("solver unknown")
	}
	ft = rt == resSat
	if !ft {
		// pc is satisfiable (invariant), so ¬c must be feasible
		return false, true
	}
	rf := ex.sol.check(ex.pc, mkNot(c))
	if rf == resUnknown {
		unsupported("solver unknown")
	}
	ff = rf == resSat
	return
}

// addPC records a decided condition in the path condition (and byte domains).
func (ex *Exec) addPC(c *Term) {
	ex.pc = append(ex.pc, c)
	ex.known[c.s] = true
	if c.Op == "not" {
		ex.known[c.Args[0].s] = false
	} else {
		ex.known["(not "+c.s+")"] = false
	}
	if c.vid >= 0 && c.vw == 8 && !ex.taint[c.vid] && c.size < 64 {
		d := ex.domOf(c.vid)
		for x := 0; x < 256; x++ {
			if d.has(x) {
				xv := uint64(x)
				if c.eval(func(string, int) uint64 { return xv }) == 0 {
					d.clear(x)
				}
			}
		}
	} else {
		ex.noteTaint(c)
	}
}

// branch decides a boolean, forking if both outcomes are feasible.
func (ex *Exec) fastEligible(t *Term) bool {
	return t.vid >= 0 && t.vw == 8 && !ex.taint[t.vid] && t.size < 64 && !t.fp
}

func (ex *Exec) allFast(ts []*Term) bool {
	if len(ts) > 16 {
		return false
	}
	for _, t := range ts {
		if t.vid == -1 {
			continue
		}
		if !ex.fastEligible(t) {
			return false
		}
	}
	return true
}

func (ex *Exec) branch(b Bool) bool {
	if b.T == nil {
		return b.C
	}
	// a conjunction / disjunction of single-byte conditions is decided one
	// conjunct at a time (short-circuit), so that every decision stays a
	// single-variable atom served exactly by the byte domains
	if t := b.T; t.vid == -2 {
		neg := false
		if t.Op == "not" {
			t, neg = t.Args[0], true
		}
		if (t.Op == "and" || t.Op == "or") && ex.allFast(t.Args) {
			res := t.Op == "and"
			for _, a := range t.Args {
				if ex.branch(mkBool(a)) != (t.Op == "and") {
					res = t.Op != "and"
					break
				}
			}
			return res != neg
		}
	}
	// a condition already decided on this path is not a decision
	if v, ok := ex.known[b.T.s]; ok {
		return v
	}
	k := ex.nd
	ex.nd++
	var d bool
	if k < len(ex.prefix) {
		d = ex.prefix[k] == 1
	} else {
		ft, ff := ex.feasibleBoth(b.T)
		switch {
		case ft && ff:
			ex.forks++
			alt := make([]uint16, len(ex.prefix)+1)
			copy(alt, ex.prefix)
			alt[len(ex.prefix)] = 0
			ex.pushPrefix(alt)
			d = true
		case ft:
			d = true
		case ff:
			d = false
		default:
			panic(pathEnd{"infeasible", ""})
		}
		v := uint16(0)
		if d {
			v = 1
		}
		ex.prefix = append(ex.prefix, v)
	}
	if d {
		ex.addPC(b.T)
	} else {
		ex.addPC(mkNot(b.T))
	}
	return d
}

// choose forks over 0..n-1 without constraints (enumerated dimension).
func (ex *Exec) choose(n int, kind string) int {
	if n <= 0 {
		panic(pathEnd{"infeasible", "choice of 0"})
	}
	k := ex.nd
	ex.nd++
	var d int
	if k < len(ex.prefix) {
		d = int(ex.prefix[k])
	} else {
		for alt := n - 1; alt >= 1; alt-- {
			p := make([]uint16, len(ex.prefix)+1)
			copy(p, ex.prefix)
			p[len(ex.prefix)] = uint16(alt)
			ex.pushPrefix(p)
			ex.forks++
		}
		d = 0
		ex.prefix = append(ex.prefix, 0)
	}
	if kind != "" {
		ex.vars = append(ex.vars, varInfo{kind: kind, v: int64(d)})
	}
	return d
}

// assume adds a constraint; the path ends if it is infeasible.
func (ex *Exec) assume(b Bool) {
	if b.T == nil {
		if !b.C {
			panic(pathEnd{"infeasible", "assume"})
		}
		return
	}
	ft, _ := ex.feasibleTrue(b.T)
	if !ft {
		panic(pathEnd{"infeasible", "assume"})
	}
	ex.addPC(b.T)
}

func (ex *Exec) feasibleTrue(c *Term) (bool, bool) {
	if c.vid >= 0 && c.vw == 8 && !ex.taint[c.vid] && c.size < 64 {
		ft, ff := ex.feasibleBoth(c)
		return ft, ff
	}
	r := ex.sol.check(ex.pc, c)
	if r == resUnknown {
		unsupported("solver unknown")
	}
	return r == resSat, true
}

// concretize forks a symbolic int over lo..hi (inclusive); the caller guarantees
// (by an earlier branch) that the value lies in that range.
func (ex *Exec) concretize(i Int, lo, hi int) int {
	if i.T == nil {
		return int(i.signed())
	}
	for k := lo; k < hi; k++ {
		if ex.branch(mkBool(mkEq(i.T, mkConst(uint64(int64(k)), int(i.W))))) {
			return k
		}
	}
	ex.assume(mkBool(mkEq(i.T, mkConst(uint64(int64(hi)), int(i.W)))))
	return hi
}

// concInt: the value must be concrete for the engine to continue.
func (ex *Exec) concInt(v Val, what string) int {
	i := v.(Int)
	if i.T != nil {
		unsupported("symbolic %s", what)
	}
	return int(i.signed())
}

// ---------------------------------------------------------------- zero values and constants

func (ex *Exec) zero(t types.Type) Val {
	switch {
	case isNamed(t, "reflect", "Value"):
		return RV{}
	case isNamed(t, "strings", "Builder"), isNamed(t, "bytes", "Buffer"):
		return Struct{Str{}}
	}
	switch u := t.Underlying().(type) {
	case *types.Basic:
		switch {
		case u.Info()&types.IsBoolean != 0:
			return Bool{}
		case u.Info()&types.IsString != 0:
			return Str{}
		case u.Info()&types.IsInteger != 0:
			w, s := intInfo(u)
			return Int{W: w, S: s}
		case u.Info()&types.IsFloat != 0:
			if u.Kind() == types.Float32 {
				return Float{W: 32}
			}
			return Float{W: 64}
		case u.Kind() == types.UnsafePointer:
			return Ptr{}
		}
		return nil
	case *types.Struct:
		st := make(Struct, u.NumFields())
		for i := range st {
			st[i] = ex.zero(u.Field(i).Type())
		}
		return st
	case *types.Array:
		a := make(Struct, u.Len())
		for i := range a {
			a[i] = ex.zero(u.Elem())
		}
		return a
	case *types.Pointer:
		return Ptr{}
	case *types.Slice:
		return Slice{}
	case *types.Map:
		return (*MapObj)(nil)
	case *types.Signature:
		return Closure{}
	case *types.Interface:
		return nil
	case *types.Tuple:
		tp := make(Tuple, u.Len())
		for i := range tp {
			tp[i] = ex.zero(u.At(i).Type())
		}
		return tp
	case *types.Chan:
		return nil
	}
	return nil
}

func (ex *Exec) constVal(c *ssa.Const) Val {
	if c.Value == nil {
		return ex.zero(c.Type())
	}
	t := c.Type()
	if tp, ok := t.(*types.TypeParam); ok {
		t = tp.Underlying()
	}
	switch u := t.Underlying().(type) {
	case *types.Basic:
		switch {
		case u.Info()&types.IsBoolean != 0:
			return Bool{C: constant.BoolVal(c.Value)}
		case u.Info()&types.IsString != 0:
			return cstr(constant.StringVal(c.Value))
		case u.Info()&types.IsInteger != 0:
			w, s := intInfo(u)
			if s {
				return cint(c.Int64(), w, s)
			}
			return Int{C: trunc(c.Uint64(), w), W: w}
		case u.Info()&types.IsFloat != 0:
			if u.Kind() == types.Float32 {
				return Float{V: float64(float32(c.Float64())), W: 32}
			}
			return Float{V: c.Float64(), W: 64}
		}
	}
	panic(engineError(fmt.Sprintf("const %v of type %v", c, c.Type())))
}

func (fr *frame) get(ex *Exec, v ssa.Value) Val {
	switch x := v.(type) {
	case *ssa.Const:
		return ex.constVal(x)
	case *ssa.Global:
		p := ex.globals[x]
		if p == nil {
			// global of a package that is not interpreted: a named reference for the
			// models that understand it (unicode range tables), else the zero value
			var z Val
			if x.Pkg != nil && x.Pkg.Pkg.Path() == "unicode" {
				z = StdRef{Name: "unicode." + x.Name()}
			} else {
				z = ex.zero(x.Type().(*types.Pointer).Elem())
			}
			p = &z
			ex.globals[x] = p
		}
		return Ptr{p}
	case *ssa.Function:
		return Closure{Fn: x}
	case *ssa.Builtin:
		return Closure{Nat: "builtin:" + x.Name()}
	}
	s, ok := fr.fi.slots[v]
	if !ok {
		panic(engineError(fmt.Sprintf("no slot for %s in %s", v.Name(), fr.fi.name)))
	}
	return fr.regs[s]
}

// ---------------------------------------------------------------- panics

func (ex *Exec) gopanic(kind, msg string) {
	gp := &goPanic{kind: kind, msg: msg}
	for i := len(ex.stack) - 1; i >= 0; i-- {
		gp.stack = append(gp.stack, ex.stack[i].name)
		if gp.site == "" && ex.stack[i].inRepo {
			gp.site = shortFn(ex.stack[i].name)
		}
	}
	gp.val = Iface{T: types.Typ[types.String], V: cstr(msg)}
	panic(gp)
}

func (ex *Exec) stackNames() []string {
	var out []string
	for _, f := range ex.stack {
		out = append(out, f.name)
	}
	return out
}

func shortFn(name string) string {
	name = strings.ReplaceAll(name, plushPath+"/", "")
	name = strings.ReplaceAll(name, plushPath+".", "plush.")
	name = strings.ReplaceAll(name, plushPath, "plush")
	return name
}

// ---------------------------------------------------------------- calls

func (ex *Exec) callClosure(cl Closure, args []Val) Val {
	if cl.Nat != "" {
		return ex.callNative(cl, args)
	}
	if cl.Fn == nil {
		ex.gopanic("nil-deref", "call of nil func")
	}
	if cl.HasR {
		args = append([]Val{cl.Recv}, args...)
	}
	return ex.call(cl.Fn, args, cl.Env)
}

func (ex *Exec) call(fn *ssa.Function, args []Val, env []Val) (ret Val) {
	fi := ex.w.info(fn)
	if fi.model != nil {
		return fi.model(ex, args)
	}
	if fn.Name() == "init" && fn.Pkg != nil && !interpretablePkg(fn.Pkg.Pkg.Path()) {
		return nil
	}
	if fn.Pkg != nil && lazyPkg(fn.Pkg.Pkg.Path()) {
		if fn.Name() == "init" {
			if !ex.lazyRunning {
				return nil // deferred to the first call into the package on this path
			}
		} else if !ex.lazyDone[fn.Pkg] && !strings.HasPrefix(fn.Name(), "init#") {
			if ex.lazyDone == nil {
				ex.lazyDone = map[*ssa.Package]bool{}
			}
			ex.lazyDone[fn.Pkg] = true
			was, par := ex.lazyRunning, ex.par
			ex.lazyRunning = true
			ex.par = nil // initialisation happens before main: its accesses belong to no thread
			ex.call(fn.Pkg.Func("init"), nil, nil)
			ex.lazyRunning, ex.par = was, par
		}
	}
	if fn.Pkg != nil && fn.Pkg.Pkg.Path() == "errors" && fn.Name() == "init" {
		return nil
	}
	if !fi.interp {
		if r, ok := ex.tryNativeCall(fi.name, fn, args); ok {
			return r
		}
		unsupported("unmodelled callee %s", fi.name)
	}
	if ex.depth > 400 {
		panic(pathEnd{"unwind", "recursion depth"})
	}
	ex.depth++
	ex.stack = append(ex.stack, fi)
	ex.st.fnSeen(fi)
	fr := &frame{fi: fi, regs: make([]Val, fi.nslots)}
	n := 0
	for range fn.Params {
		fr.regs[n] = args[n]
		n++
	}
	for i := range fn.FreeVars {
		fr.regs[n] = env[i]
		n++
	}
	if !fi.hasDef {
		ret = ex.run(fr, fn.Blocks[0])
		ex.stack = ex.stack[:len(ex.stack)-1]
		ex.depth--
		return ret
	}
	// function with defers: run them on panic too, support recover()
	depth, slen := ex.depth, len(ex.stack)
	func() {
		defer func() {
			if r := recover(); r != nil {
				gp, ok := r.(*goPanic)
				if !ok {
					panic(r)
				}
				ex.depth, ex.stack = depth, ex.stack[:slen]
				fr.panicking = gp
				ex.runDefers(fr)
				if fr.panicking != nil {
					panic(fr.panicking)
				}
				// recovered
				if fn.Recover != nil {
					ret = ex.run(fr, fn.Recover)
				} else {
					ret = ex.zeroResults(fn)
				}
			}
		}()
		ret = ex.run(fr, fn.Blocks[0])
	}()
	ex.stack = ex.stack[:slen-1]
	ex.depth = depth - 1
	return ret
}

func (ex *Exec) zeroResults(fn *ssa.Function) Val {
	res := fn.Signature.Results()
	switch res.Len() {
	case 0:
		return nil
	case 1:
		return ex.zero(res.At(0).Type())
	}
	return ex.zero(res)
}

func (ex *Exec) runDefers(fr *frame) {
	for len(fr.defers) > 0 {
		d := fr.defers[len(fr.defers)-1]
		fr.defers = fr.defers[:len(fr.defers)-1]
		cur := fr
		ex.curDeferFrame = append(ex.curDeferFrame, cur)
		func() {
			defer func() { ex.curDeferFrame = ex.curDeferFrame[:len(ex.curDeferFrame)-1] }()
			if d.builtin != "" {
				ex.callBuiltin(d.builtin, d.args, nil)
			} else if d.fn != nil {
				ex.call(d.fn, d.args, nil)
			} else {
				ex.callClosure(d.cl, d.args)
			}
		}()
	}
}

func (ex *Exec) tick() {
	ex.instrs++
	if ex.instrs > ex.fuel {
		panic(pathEnd{"unwind", "fuel"})
	}
	if ex.instrs&0xfff == 0 && !ex.deadline.IsZero() && time.Now().After(ex.deadline) {
		panic(pathEnd{"deadline", ""})
	}
}

func (ex *Exec) run(fr *frame, blk *ssa.BasicBlock) Val {
	var prev *ssa.BasicBlock
	fi := fr.fi
	for {
		var next *ssa.BasicBlock
		for _, ins := range blk.Instrs {
			ex.tick()
			switch in := ins.(type) {
			case *ssa.Phi:
				for i, p := range blk.Preds {
					if p == prev {
						fr.regs[fi.slots[in]] = fr.get(ex, in.Edges[i])
						break
					}
				}
			case *ssa.Alloc:
				v := ex.zero(in.Type().(*types.Pointer).Elem())
				fr.regs[fi.slots[in]] = Ptr{&v}
			case *ssa.UnOp:
				fr.regs[fi.slots[in]] = ex.unop(in, fr.get(ex, in.X))
			case *ssa.BinOp:
				fr.regs[fi.slots[in]] = ex.binop(in.Op, fr.get(ex, in.X), fr.get(ex, in.Y), in.X.Type())
			case *ssa.Store:
				p, ok := fr.get(ex, in.Addr).(Ptr)
				if !ok || p.P == nil {
					ex.gopanic("nil-deref", "invalid memory address or nil pointer dereference (store)")
				}
				ex.checkFrozenPtr(p.P)
				ex.logCell(p.P, true)
				storeInto(p.P, fr.get(ex, in.Val))
			case *ssa.FieldAddr:
				p, ok := fr.get(ex, in.X).(Ptr)
				if !ok || p.P == nil {
					ex.gopanic("nil-deref", "invalid memory address or nil pointer dereference (field)")
				}
				st, ok := (*p.P).(Struct)
				if !ok {
					panic(engineError(fmt.Sprintf("FieldAddr on %T in %s", *p.P, fi.name)))
				}
				fr.regs[fi.slots[in]] = Ptr{&st[in.Field]}
			case *ssa.Field:
				st, ok := fr.get(ex, in.X).(Struct)
				if !ok {
					panic(engineError(fmt.Sprintf("Field on %T in %s", fr.get(ex, in.X), fi.name)))
				}
				fr.regs[fi.slots[in]] = copyVal(st[in.Field])
			case *ssa.IndexAddr:
				fr.regs[fi.slots[in]] = ex.indexAddr(fr.get(ex, in.X), fr.get(ex, in.Index).(Int))
			case *ssa.Index:
				fr.regs[fi.slots[in]] = ex.index(fr.get(ex, in.X), fr.get(ex, in.Index).(Int))
			case *ssa.Lookup:
				fr.regs[fi.slots[in]] = ex.lookup(in, fr.get(ex, in.X), fr.get(ex, in.Index))
			case *ssa.Slice:
				fr.regs[fi.slots[in]] = ex.sliceOp(fr, in)
			case *ssa.Call:
				fr.regs[fi.slots[in]] = ex.doCall(fr, &in.Call)
			case *ssa.Extract:
				fr.regs[fi.slots[in]] = fr.get(ex, in.Tuple).(Tuple)[in.Index]
			case *ssa.Convert:
				fr.regs[fi.slots[in]] = ex.convert(fr.get(ex, in.X), in.X.Type(), in.Type())
			case *ssa.ChangeType:
				fr.regs[fi.slots[in]] = fr.get(ex, in.X)
			case *ssa.MakeMap:
				mt := in.Type().Underlying().(*types.Map)
				fr.regs[fi.slots[in]] = &MapObj{KT: mt.Key(), VT: mt.Elem()}
			case *ssa.MapUpdate:
				m, _ := fr.get(ex, in.Map).(*MapObj)
				if m == nil {
					ex.gopanic("nil-map", "assignment to entry in nil map")
				}
				ex.mapSet(m, fr.get(ex, in.Key), fr.get(ex, in.Value))
			case *ssa.MakeInterface:
				fr.regs[fi.slots[in]] = Iface{T: in.X.Type(), V: fr.get(ex, in.X)}
			case *ssa.ChangeInterface:
				fr.regs[fi.slots[in]] = fr.get(ex, in.X)
			case *ssa.TypeAssert:
				fr.regs[fi.slots[in]] = ex.typeAssert(in, fr.get(ex, in.X))
			case *ssa.MakeClosure:
				env := make([]Val, len(in.Bindings))
				for i, b := range in.Bindings {
					env[i] = fr.get(ex, b)
				}
				fr.regs[fi.slots[in]] = Closure{Fn: in.Fn.(*ssa.Function), Env: env}
			case *ssa.MakeSlice:
				n := ex.concInt(fr.get(ex, in.Len), "make len")
				c := ex.concInt(fr.get(ex, in.Cap), "make cap")
				if n < 0 || c < n {
					ex.gopanic("make", "makeslice: len out of range")
				}
				a := make([]Val, c)
				el := in.Type().Underlying().(*types.Slice).Elem()
				for i := range a {
					a[i] = ex.zero(el)
				}
				fr.regs[fi.slots[in]] = Slice{A: &a, Len: n, Cap: c}
			case *ssa.Range:
				fr.regs[fi.slots[in]] = ex.rangeStart(fr.get(ex, in.X))
			case *ssa.Next:
				fr.regs[fi.slots[in]] = ex.rangeNext(in, fr.get(ex, in.Iter).(*mapIter))
			case *ssa.Defer:
				fr.defers = append(fr.defers, ex.mkDeferred(fr, &in.Call))
			case *ssa.RunDefers:
				ex.runDefers(fr)
			case *ssa.Panic:
				v := fr.get(ex, in.X)
				gp := &goPanic{kind: "explicit", msg: ex.showVal(v), val: v}
				for i := len(ex.stack) - 1; i >= 0; i-- {
					gp.stack = append(gp.stack, ex.stack[i].name)
					if gp.site == "" && ex.stack[i].inRepo {
						gp.site = shortFn(ex.stack[i].name)
					}
				}
				panic(gp)
			case *ssa.If:
				if ex.branch(fr.get(ex, in.Cond).(Bool)) {
					next = blk.Succs[0]
				} else {
					next = blk.Succs[1]
				}
			case *ssa.Jump:
				next = blk.Succs[0]
			case *ssa.Return:
				switch len(in.Results) {
				case 0:
					return nil
				case 1:
					return fr.get(ex, in.Results[0])
				}
				t := make(Tuple, len(in.Results))
				for i, r := range in.Results {
					t[i] = fr.get(ex, r)
				}
				return t
			case *ssa.DebugRef:
			case *ssa.Go:
				unsupported("go statement")
			case *ssa.Select, *ssa.Send, *ssa.MakeChan:
				unsupported("channels")
			default:
				unsupported("SSA instruction %T", ins)
			}
		}
		prev, blk = blk, next
	}
}

func (ex *Exec) mkDeferred(fr *frame, c *ssa.CallCommon) deferred {
	args := make([]Val, len(c.Args))
	for i, a := range c.Args {
		args[i] = fr.get(ex, a)
	}
	if c.IsInvoke() {
		recv := fr.get(ex, c.Value)
		fn, rv := ex.resolveInvoke(recv, c.Method)
		return deferred{fn: fn, args: append([]Val{rv}, args...)}
	}
	switch f := c.Value.(type) {
	case *ssa.Builtin:
		return deferred{builtin: f.Name(), args: args}
	case *ssa.Function:
		return deferred{fn: f, args: args}
	}
	return deferred{cl: fr.get(ex, c.Value).(Closure), args: args}
}

func (ex *Exec) resolveInvoke(recv Val, m *types.Func) (*ssa.Function, Val) {
	ifc, ok := recv.(Iface)
	if !ok {
		ex.gopanic("nil-deref", "invalid memory address or nil pointer dereference (method call on nil interface)")
	}
	sel := ex.w.prog.MethodSets.MethodSet(ifc.T).Lookup(m.Pkg(), m.Name())
	if sel == nil {
		panic(engineError(fmt.Sprintf("no method %s on %s", m.Name(), ifc.T)))
	}
	fn := ex.w.prog.MethodValue(sel)
	if fn == nil {
		unsupported("abstract method %s on %s", m.Name(), ifc.T)
	}
	return fn, ifc.V
}

func (ex *Exec) doCall(fr *frame, c *ssa.CallCommon) Val {
	args := make([]Val, len(c.Args), len(c.Args)+1)
	for i, a := range c.Args {
		args[i] = fr.get(ex, a)
	}
	if c.IsInvoke() {
		recv := fr.get(ex, c.Value)
		if ifc, ok := recv.(Iface); ok {
			if rt, ok := ifc.V.(RT); ok {
				return ex.rtypeMethod(rt, c.Method.Name(), args)
			}
		}
		fn, rv := ex.resolveInvoke(recv, c.Method)
		return ex.call(fn, append([]Val{rv}, args...), nil)
	}
	switch f := c.Value.(type) {
	case *ssa.Builtin:
		return ex.callBuiltin(f.Name(), args, c)
	case *ssa.Function:
		return ex.call(f, args, nil)
	}
	cl, ok := fr.get(ex, c.Value).(Closure)
	if !ok {
		panic(engineError(fmt.Sprintf("call of %T", fr.get(ex, c.Value))))
	}
	return ex.callClosure(cl, args)
}

// ---------------------------------------------------------------- unary / binary

func (ex *Exec) unop(in *ssa.UnOp, x Val) Val {
	switch in.Op {
	case token.MUL:
		p, ok := x.(Ptr)
		if !ok || p.P == nil {
			ex.gopanic("nil-deref", "invalid memory address or nil pointer dereference")
		}
		ex.logCell(p.P, false)
		return copyVal(*p.P)
	case token.NOT:
		b := x.(Bool)
		if b.T == nil {
			return Bool{C: !b.C}
		}
		return mkBool(mkNot(b.T))
	case token.SUB:
		switch i := x.(type) {
		case Int:
			if i.T == nil {
				return Int{C: trunc(-i.C, i.W), W: i.W, S: i.S}
			}
			return mkInt(mkNeg(i.T), i.W, i.S)
		case Float:
			if i.T != nil {
				return symFloat(fpNeg(i.T), i.W)
			}
			return Float{V: -i.V, W: i.W}
		}
	case token.XOR:
		i := x.(Int)
		if i.T == nil {
			return Int{C: trunc(^i.C, i.W), W: i.W, S: i.S}
		}
		return mkInt(mkBvNot(i.T), i.W, i.S)
	case token.ARROW:
		unsupported("channel receive")
	}
	panic(engineError("unop " + in.Op.String()))
}

var cmpNames = map[token.Token]string{token.LSS: "lt", token.LEQ: "le", token.GTR: "gt", token.GEQ: "ge"}

func (ex *Exec) binop(op token.Token, x, y Val, xt types.Type) Val {
	switch a := x.(type) {
	case Int:
		b := y.(Int)
		return ex.intBinop(op, a, b)
	case Bool:
		b := y.(Bool)
		switch op {
		case token.EQL:
			return mkBool(mkEq(a.term(), b.term()))
		case token.NEQ:
			return mkBool(mkNot(mkEq(a.term(), b.term())))
		case token.AND, token.LAND:
			return mkBool(mkAnd(a.term(), b.term()))
		case token.OR, token.LOR:
			return mkBool(mkOr(a.term(), b.term()))
		}
		panic(engineError("bool op " + op.String()))
	case Float:
		b := y.(Float)
		if (a.T != nil || !a.U) && (b.T != nil || !b.U) && (a.T != nil || b.T != nil) {
			at, bt := a.term(), b.term()
			switch op {
			case token.ADD:
				return symFloat(fpArith("fp.add", at, bt), a.W)
			case token.SUB:
				return symFloat(fpArith("fp.sub", at, bt), a.W)
			case token.MUL:
				return symFloat(fpArith("fp.mul", at, bt), a.W)
			case token.QUO:
				return symFloat(fpArith("fp.div", at, bt), a.W)
			case token.EQL:
				return mkBool(fpCmp("fp.eq", at, bt))
			case token.NEQ:
				return mkBool(mkNot(fpCmp("fp.eq", at, bt)))
			case token.LSS:
				return mkBool(fpCmp("fp.lt", at, bt))
			case token.LEQ:
				return mkBool(fpCmp("fp.leq", at, bt))
			case token.GTR:
				return mkBool(fpCmp("fp.gt", at, bt))
			case token.GEQ:
				return mkBool(fpCmp("fp.geq", at, bt))
			}
			panic(engineError("float op " + op.String()))
		}
		if a.U || b.U {
			unsupported("arithmetic on a float parsed from symbolic digits")
		}
		switch op {
		case token.ADD:
			return fl(a.V+b.V, a.W)
		case token.SUB:
			return fl(a.V-b.V, a.W)
		case token.MUL:
			return fl(a.V*b.V, a.W)
		case token.QUO:
			return fl(a.V/b.V, a.W)
		case token.EQL:
			return Bool{C: a.V == b.V}
		case token.NEQ:
			return Bool{C: a.V != b.V}
		case token.LSS:
			return Bool{C: a.V < b.V}
		case token.LEQ:
			return Bool{C: a.V <= b.V}
		case token.GTR:
			return Bool{C: a.V > b.V}
		case token.GEQ:
			return Bool{C: a.V >= b.V}
		}
		panic(engineError("float op " + op.String()))
	case Str:
		b := y.(Str)
		switch op {
		case token.ADD:
			return concatStr(a, b)
		case token.EQL:
			return ex.strEq(a, b)
		case token.NEQ:
			e := ex.strEq(a, b)
			if e.T == nil {
				return Bool{C: !e.C}
			}
			return mkBool(mkNot(e.T))
		case token.LSS, token.LEQ, token.GTR, token.GEQ:
			return ex.strCmp(op, a, b)
		}
		panic(engineError("str op " + op.String()))
	}
	switch op {
	case token.EQL:
		return ex.valEq(x, y)
	case token.NEQ:
		e := ex.valEq(x, y)
		if e.T == nil {
			return Bool{C: !e.C}
		}
		return mkBool(mkNot(e.T))
	}
	panic(engineError(fmt.Sprintf("binop %s on %T", op, x)))
}

func fl(v float64, w uint8) Float {
	if w == 32 {
		return Float{V: float64(float32(v)), W: 32}
	}
	return Float{V: v, W: w}
}

func (ex *Exec) intBinop(op token.Token, a, b Int) Val {
	// shifts may have operands of different widths
	if op == token.SHL || op == token.SHR {
		if b.T == nil {
			sh := b.C
			if b.S && b.signed() < 0 {
				ex.gopanic("shift", "negative shift amount")
			}
			if a.T == nil {
				if op == token.SHL {
					if sh >= 64 {
						return Int{W: a.W, S: a.S}
					}
					return Int{C: trunc(a.C<<sh, a.W), W: a.W, S: a.S}
				}
				if a.S {
					if sh >= 64 {
						sh = 63
					}
					return cint(a.signed()>>sh, a.W, a.S)
				}
				if sh >= 64 {
					return Int{W: a.W, S: a.S}
				}
				return Int{C: a.C >> sh, W: a.W, S: a.S}
			}
			st := mkConst(sh, int(a.W))
			if sh >= uint64(a.W) && !(op == token.SHR && a.S) {
				return Int{W: a.W, S: a.S}
			}
			if sh >= uint64(a.W) {
				st = mkConst(uint64(a.W)-1, int(a.W))
			}
			switch {
			case op == token.SHL:
				return mkInt(mkBV("bvshl", a.T, st), a.W, a.S)
			case a.S:
				return mkInt(mkBV("bvashr", a.T, st), a.W, a.S)
			default:
				return mkInt(mkBV("bvlshr", a.T, st), a.W, a.S)
			}
		}
		unsupported("symbolic shift amount")
	}
	if a.W >= wDec || b.W >= wDec {
		unsupported("arithmetic on a formatted string segment")
	}
	if a.W != b.W {
		panic(engineError(fmt.Sprintf("int binop %s width mismatch %d/%d", op, a.W, b.W)))
	}
	if (a.T != nil && a.T.W != int(a.W)) || (b.T != nil && b.T.W != int(b.W)) {
		panic(engineError(fmt.Sprintf("int binop %s: term width disagrees with value width: %v/%d %v/%d in %v", op, a.T, a.W, b.T, b.W, ex.stackNames())))
	}
	if a.T == nil && b.T == nil {
		switch op {
		case token.ADD:
			return Int{C: trunc(a.C+b.C, a.W), W: a.W, S: a.S}
		case token.SUB:
			return Int{C: trunc(a.C-b.C, a.W), W: a.W, S: a.S}
		case token.MUL:
			return Int{C: trunc(a.C*b.C, a.W), W: a.W, S: a.S}
		case token.QUO, token.REM:
			if b.C == 0 {
				ex.gopanic("div-zero", "integer divide by zero")
			}
			name := "bvudiv"
			if a.S {
				name = "bvsdiv"
			}
			if op == token.REM {
				name = "bvurem"
				if a.S {
					name = "bvsrem"
				}
			}
			r, _ := evalBV(name, int(a.W), a.C, b.C)
			return Int{C: r, W: a.W, S: a.S}
		case token.AND:
			return Int{C: a.C & b.C, W: a.W, S: a.S}
		case token.OR:
			return Int{C: a.C | b.C, W: a.W, S: a.S}
		case token.XOR:
			return Int{C: a.C ^ b.C, W: a.W, S: a.S}
		case token.AND_NOT:
			return Int{C: a.C &^ b.C, W: a.W, S: a.S}
		case token.EQL:
			return Bool{C: a.C == b.C}
		case token.NEQ:
			return Bool{C: a.C != b.C}
		case token.LSS, token.LEQ, token.GTR, token.GEQ:
			p := "bvu"
			if a.S {
				p = "bvs"
			}
			r, _ := evalCmp(p+cmpNames[op], int(a.W), a.C, b.C)
			return Bool{C: r}
		}
		panic(engineError("int op " + op.String()))
	}
	at, bt := a.term(), b.term()
	switch op {
	case token.ADD:
		return mkInt(mkBV("bvadd", at, bt), a.W, a.S)
	case token.SUB:
		return mkInt(mkBV("bvsub", at, bt), a.W, a.S)
	case token.MUL:
		return mkInt(mkBV("bvmul", at, bt), a.W, a.S)
	case token.QUO, token.REM:
		if ex.branch(mkBool(mkEq(bt, mkConst(0, int(b.W))))) {
			ex.gopanic("div-zero", "integer divide by zero")
		}
		name := "bvudiv"
		if a.S {
			name = "bvsdiv"
		}
		if op == token.REM {
			name = "bvurem"
			if a.S {
				name = "bvsrem"
			}
		}
		return mkInt(mkBV(name, at, bt), a.W, a.S)
	case token.AND:
		return mkInt(mkBV("bvand", at, bt), a.W, a.S)
	case token.OR:
		return mkInt(mkBV("bvor", at, bt), a.W, a.S)
	case token.XOR:
		return mkInt(mkBV("bvxor", at, bt), a.W, a.S)
	case token.AND_NOT:
		return mkInt(mkBV("bvand", at, mkBvNot(bt)), a.W, a.S)
	case token.EQL:
		return mkBool(mkEq(at, bt))
	case token.NEQ:
		return mkBool(mkNot(mkEq(at, bt)))
	case token.LSS, token.LEQ, token.GTR, token.GEQ:
		p := "bvu"
		if a.S {
			p = "bvs"
		}
		return mkBool(mkCmp(p+cmpNames[op], at, bt))
	}
	panic(engineError("sym int op " + op.String()))
}

// ---------------------------------------------------------------- strings

// ropeSafe: byte-level access needs every element to be a real byte.
func (ex *Exec) needBytes(s Str, what string) {
	if s.hasRope() {
		unsupported("%s on a formatted (rope) string", what)
	}
}

// strEq: equality of two strings as a Bool (possibly symbolic).
func (ex *Exec) strEq(a, b Str) Bool {
	if !a.hasRope() && !b.hasRope() {
		if len(a.B) != len(b.B) {
			return Bool{C: false}
		}
		var parts []*Term
		for i := range a.B {
			p, q := a.B[i], b.B[i]
			if p.T == nil && q.T == nil {
				if p.C != q.C {
					return Bool{C: false}
				}
				continue
			}
			parts = append(parts, mkEq(p.term(), q.term()))
		}
		return mkBool(mkAnd(parts...))
	}
	return ex.ropeEq(a, b)
}

// ropeEq compares strings that contain Dec/Opaque segments (DESIGN §2.2).
// A decimal segment stands for a non-empty string over [-0-9]. Without symbolic
// plain bytes both strings are cut into maximal numeric runs and literal bytes:
// equal strings have the same pattern of literals and runs, so a differing
// pattern decides "unequal"; runs are compared pairwise (decimal formatting is
// injective). With symbolic plain bytes only item-wise aligned strings are compared.
func (ex *Exec) ropeEq(a, b Str) Bool {
	hasSym := false
	for _, s := range []Str{a, b} {
		for _, x := range s.B {
			if x.W == wOpaque {
				unsupported("comparison of opaque formatted strings")
			}
			if x.W == 8 && x.T != nil {
				hasSym = true
			}
		}
	}
	decTerm := func(x Int) *Term {
		if x.T != nil {
			return x.T
		}
		return mkConst(x.C, 64)
	}
	if hasSym {
		rng := func(s Str) (lo, hi int) {
			for _, x := range s.B {
				if x.W == wDec {
					lo, hi = lo+1, hi+20
				} else {
					lo, hi = lo+1, hi+1
				}
			}
			return
		}
		alo, ahi := rng(a)
		blo, bhi := rng(b)
		if ahi < blo || bhi < alo {
			return Bool{C: false}
		}
		if len(a.B) != len(b.B) {
			unsupported("comparison of formatted strings with different skeletons")
		}
		var parts []*Term
		for i := range a.B {
			p, q := a.B[i], b.B[i]
			if p.W != q.W {
				unsupported("comparison of formatted strings with different skeletons")
			}
			if p.W == wDec {
				parts = append(parts, mkEq(decTerm(p), decTerm(q)))
				continue
			}
			if p.T == nil && q.T == nil {
				if p.C != q.C {
					// a literal difference next to a decimal segment of unknown
					// length is only conclusive before the first segment
					before := true
					for _, x := range a.B[:i] {
						if x.W == wDec {
							before = false
						}
					}
					if before {
						return Bool{C: false}
					}
					unsupported("formatted strings differing after a segment")
				}
				continue
			}
			parts = append(parts, mkEq(p.term(), q.term()))
		}
		return mkBool(mkAnd(parts...))
	}
	type run struct {
		lit   byte
		items []Int // numeric run
	}
	isNum := func(x Int) bool { return x.W == wDec || (x.C >= '0' && x.C <= '9') || x.C == '-' }
	cut := func(s Str) []run {
		var out []run
		for _, x := range s.B {
			if isNum(x) {
				if n := len(out); n > 0 && out[n-1].items != nil {
					out[n-1].items = append(out[n-1].items, x)
				} else {
					out = append(out, run{items: []Int{x}})
				}
			} else {
				out = append(out, run{lit: byte(x.C)})
			}
		}
		return out
	}
	ra, rb := cut(a), cut(b)
	if len(ra) != len(rb) {
		return Bool{C: false}
	}
	var parts []*Term
	for i := range ra {
		p, q := ra[i], rb[i]
		if (p.items == nil) != (q.items == nil) {
			return Bool{C: false}
		}
		if p.items == nil {
			if p.lit != q.lit {
				return Bool{C: false}
			}
			continue
		}
		// numeric runs
		conc := func(it []Int) (string, bool) {
			b := make([]byte, len(it))
			for i, x := range it {
				if x.W != 8 {
					return "", false
				}
				b[i] = byte(x.C)
			}
			return string(b), true
		}
		ps, pc := conc(p.items)
		qs, qc := conc(q.items)
		switch {
		case pc && qc:
			if ps != qs {
				return Bool{C: false}
			}
		case len(p.items) == 1 && p.items[0].W == wDec && len(q.items) == 1 && q.items[0].W == wDec:
			parts = append(parts, mkEq(decTerm(p.items[0]), decTerm(q.items[0])))
		case len(p.items) == 1 && p.items[0].W == wDec && qc, len(q.items) == 1 && q.items[0].W == wDec && pc:
			seg, cs := p.items[0], qs
			if pc {
				seg, cs = q.items[0], ps
			}
			n, err := strconv.ParseInt(cs, 10, 64)
			if err != nil || strconv.FormatInt(n, 10) != cs {
				return Bool{C: false}
			}
			parts = append(parts, mkEq(decTerm(seg), mkConst(uint64(n), 64)))
		default:
			// composite runs (a segment adjacent to digits or to another segment):
			// decidable only when both sides are item-wise identical
			same := len(p.items) == len(q.items)
			for k := 0; same && k < len(p.items); k++ {
				a, b := p.items[k], q.items[k]
				if a.W != b.W || (a.T == nil) != (b.T == nil) || (a.T != nil && a.T.s != b.T.s) || (a.T == nil && a.C != b.C) {
					same = false
				}
			}
			if !same {
				unsupported("comparison of composite numeric runs in formatted strings")
			}
		}
	}
	return mkBool(mkAnd(parts...))
}

// strCmp: ordering, forking on the first differing position.
func (ex *Exec) strCmp(op token.Token, a, b Str) Val {
	ex.needBytes(a, "string ordering")
	ex.needBytes(b, "string ordering")
	n := len(a.B)
	if len(b.B) < n {
		n = len(b.B)
	}
	res := func(c int) Val {
		switch op {
		case token.LSS:
			return Bool{C: c < 0}
		case token.LEQ:
			return Bool{C: c <= 0}
		case token.GTR:
			return Bool{C: c > 0}
		}
		return Bool{C: c >= 0}
	}
	for i := 0; i < n; i++ {
		p, q := a.B[i], b.B[i]
		if ex.branch(ex.intBinop(token.EQL, p, q).(Bool)) {
			continue
		}
		if ex.branch(ex.intBinop(token.LSS, p, q).(Bool)) {
			return res(-1)
		}
		return res(1)
	}
	switch {
	case len(a.B) < len(b.B):
		return res(-1)
	case len(a.B) > len(b.B):
		return res(1)
	}
	return res(0)
}

// ---------------------------------------------------------------- equality of arbitrary values

func (ex *Exec) valEq(x, y Val) Bool {
	ix, xi := x.(Iface)
	iy, yi := y.(Iface)
	if xi || yi {
		if !xi || !yi {
			// one side nil interface (Go nil) or a non-interface value
			if x == nil || y == nil {
				return Bool{C: false}
			}
			return Bool{C: false}
		}
		if !types.Identical(ix.T, iy.T) {
			return Bool{C: false}
		}
		if !types.Comparable(ix.T) {
			ex.gopanic("uncomparable", "comparing uncomparable type "+typeString(ix.T))
		}
		return ex.valEq(ix.V, iy.V)
	}
	if x == nil || y == nil {
		return Bool{C: isNilVal(x) && isNilVal(y)}
	}
	switch a := x.(type) {
	case Int:
		b, ok := y.(Int)
		if !ok {
			return Bool{C: false}
		}
		return ex.intBinop(token.EQL, a, b).(Bool)
	case Bool:
		b, ok := y.(Bool)
		if !ok {
			return Bool{C: false}
		}
		return mkBool(mkEq(a.term(), b.term()))
	case Float:
		b, ok := y.(Float)
		if ok && (a.T != nil || b.T != nil) && (a.T != nil || !a.U) && (b.T != nil || !b.U) {
			if a.W != b.W {
				return Bool{C: false}
			}
			return mkBool(fpCmp("fp.eq", a.term(), b.term()))
		}
		if ok && (a.U || b.U) {
			unsupported("equality of floats parsed from symbolic digits")
		}
		return Bool{C: ok && a.V == b.V}
	case Str:
		b, ok := y.(Str)
		if !ok {
			return Bool{C: false}
		}
		return ex.strEq(a, b)
	case Ptr:
		b, ok := y.(Ptr)
		return Bool{C: ok && a.P == b.P}
	case *MapObj:
		b, ok := y.(*MapObj)
		return Bool{C: ok && a == b}
	case Slice:
		b, ok := y.(Slice)
		return Bool{C: ok && a.A == nil && b.A == nil}
	case Closure:
		b, ok := y.(Closure)
		return Bool{C: ok && isNilVal(a) && isNilVal(b)}
	case RT:
		b, ok := y.(RT)
		return Bool{C: ok && ((a.T == nil && b.T == nil) || (a.T != nil && b.T != nil && types.Identical(a.T, b.T)))}
	case Struct:
		b, ok := y.(Struct)
		if !ok || len(a) != len(b) {
			return Bool{C: false}
		}
		var parts []*Term
		for i := range a {
			e := ex.valEq(a[i], b[i])
			if e.T == nil && !e.C {
				return Bool{C: false}
			}
			parts = append(parts, e.term())
		}
		return mkBool(mkAnd(parts...))
	}
	return Bool{C: false}
}

// ---------------------------------------------------------------- indexing, slicing

// boundsCheck forks on 0 <= i < n and returns a concrete in-range index.
func (ex *Exec) boundsCheck(i Int, n int, what string) int {
	if i.T == nil {
		v := i.signed()
		if v < 0 || v >= int64(n) {
			ex.gopanic("index", fmt.Sprintf("%s: index out of range [%d] with length %d", what, v, n))
		}
		return int(v)
	}
	w := int(i.W)
	inRange := mkCmp("bvult", i.T, mkConst(uint64(n), w))
	if n == 0 || !ex.branch(mkBool(inRange)) {
		ex.gopanic("index", fmt.Sprintf("%s: index out of range [symbolic] with length %d", what, n))
	}
	return ex.concretize(i, 0, n-1)
}

func (ex *Exec) indexAddr(x Val, i Int) Val {
	switch a := x.(type) {
	case Slice:
		k := ex.boundsCheck(i, a.Len, "slice")
		return Ptr{a.at(k)}
	case Ptr:
		if a.P == nil {
			ex.gopanic("nil-deref", "invalid memory address or nil pointer dereference (array)")
		}
		arr := (*a.P).(Struct)
		k := ex.boundsCheck(i, len(arr), "array")
		return Ptr{&arr[k]}
	}
	panic(engineError(fmt.Sprintf("IndexAddr on %T", x)))
}

func (ex *Exec) index(x Val, i Int) Val {
	switch m := x.(type) {
	case Str:
		ex.needBytes(m, "string indexing")
		k := ex.boundsCheck(i, len(m.B), "string")
		return m.B[k]
	case Struct:
		k := ex.boundsCheck(i, len(m), "array")
		return copyVal(m[k])
	}
	panic(engineError(fmt.Sprintf("Index on %T", x)))
}

func (ex *Exec) sliceOp(fr *frame, in *ssa.Slice) Val {
	x := fr.get(ex, in.X)
	var n, capv int
	switch s := x.(type) {
	case Str:
		ex.needBytes(s, "string slicing")
		n, capv = len(s.B), len(s.B)
	case Slice:
		n, capv = s.Len, s.Cap
	case Ptr:
		if s.P == nil {
			ex.gopanic("nil-deref", "slice of nil array pointer")
		}
		n = len((*s.P).(Struct))
		capv = n
	default:
		panic(engineError(fmt.Sprintf("Slice on %T", x)))
	}
	getBound := func(v ssa.Value, def int) Int {
		if v == nil {
			return goInt(def)
		}
		return fr.get(ex, v).(Int)
	}
	lo := getBound(in.Low, 0)
	hi := getBound(in.High, n)
	mx := getBound(in.Max, capv)
	// checks: 0 <= lo <= hi <= max <= cap
	chk := func(a, b Int) bool { // a <= b (as unsigned after non-negativity)
		return ex.branch(ex.intBinop(token.LEQ, Int{C: a.C, T: a.T, W: a.W, S: true}, Int{C: b.C, T: b.T, W: b.W, S: true}).(Bool))
	}
	fail := func() {
		ex.gopanic("slice-bounds", fmt.Sprintf("slice bounds out of range [%s:%s] with capacity %d", ex.showInt(lo), ex.showInt(hi), capv))
	}
	if !chk(goInt(0), lo) || !chk(lo, hi) || !chk(hi, mx) || !chk(mx, goInt(capv)) {
		fail()
	}
	l := ex.concretize(lo, 0, capv)
	h := ex.concretize(hi, l, capv)
	m := ex.concretize(mx, h, capv)
	switch s := x.(type) {
	case Str:
		return Str{B: s.B[l:h]}
	case Slice:
		if s.A == nil {
			return Slice{}
		}
		return Slice{A: s.A, Off: s.Off + l, Len: h - l, Cap: m - l}
	case Ptr:
		arr := (*s.P).(Struct)
		a := []Val(arr)
		return Slice{A: &a, Off: l, Len: h - l, Cap: m - l}
	}
	return nil
}

func (ex *Exec) showInt(i Int) string {
	if i.T != nil {
		return "sym"
	}
	return fmt.Sprint(i.signed())
}

// ---------------------------------------------------------------- maps

func (ex *Exec) keyEq(k, key Val) Bool {
	return ex.valEq(k, key)
}

func (ex *Exec) checkHashable(key Val) {
	if ifc, ok := key.(Iface); ok {
		if !types.Comparable(ifc.T) {
			ex.gopanic("unhashable", "runtime error: hash of unhashable type "+typeString(ifc.T))
		}
		// comparable static type, unhashable content (an interface element or field holding a slice, map or func)
		if !ex.valComparable(ifc.T, ifc.V) {
			ex.gopanic("unhashable", "runtime error: hash of unhashable type (boxed in "+typeString(ifc.T)+")")
		}
	}
}

func (ex *Exec) mapFind(m *MapObj, key Val) int {
	if m == nil {
		return -1
	}
	ex.logAccess(m, false)
	ex.checkHashable(key)
	for i, k := range m.K {
		if ex.branch(ex.keyEq(k, key)) {
			return i
		}
	}
	return -1
}

func (ex *Exec) mapSet(m *MapObj, key, val Val) {
	if ex.frozen != nil && ex.frozen[m] {
		ex.frozenViolation("store to a map reachable from the frozen template")
	}
	ex.logAccess(m, true)
	if i := ex.mapFind(m, key); i >= 0 {
		m.V[i] = copyVal(val)
		return
	}
	m.K = append(m.K, copyVal(key))
	m.V = append(m.V, copyVal(val))
}

func (ex *Exec) mapDelete(m *MapObj, key Val) {
	ex.logAccess(m, true)
	if i := ex.mapFind(m, key); i >= 0 {
		m.K = append(append([]Val{}, m.K[:i]...), m.K[i+1:]...)
		m.V = append(append([]Val{}, m.V[:i]...), m.V[i+1:]...)
	}
}

func (ex *Exec) lookup(in *ssa.Lookup, x, key Val) Val {
	switch m := x.(type) {
	case *MapObj:
		et := in.X.Type().Underlying().(*types.Map).Elem()
		var res Val
		found := false
		if i := ex.mapFind(m, key); i >= 0 {
			res, found = copyVal(m.V[i]), true
		} else {
			res = ex.zero(et)
		}
		if in.CommaOk {
			return Tuple{res, Bool{C: found}}
		}
		return res
	case Str:
		ex.needBytes(m, "string indexing")
		k := ex.boundsCheck(key.(Int), len(m.B), "string")
		return m.B[k]
	}
	panic(engineError(fmt.Sprintf("Lookup on %T", x)))
}

// permutations of 0..n-1
func perms(n int) [][]int {
	if n == 0 {
		return [][]int{{}}
	}
	var out [][]int
	for _, p := range perms(n - 1) {
		for pos := 0; pos <= len(p); pos++ {
			q := append(append(append([]int{}, p[:pos]...), n-1), p[pos:]...)
			out = append(out, q)
		}
	}
	return out
}

func (ex *Exec) mapOrder(m *MapObj) []int {
	n := 0
	if m != nil {
		n = len(m.K)
		ex.logAccess(m, false)
	}
	order := make([]int, n)
	for i := range order {
		order[i] = i
	}
	if ex.mapNondet && n >= 2 && n <= 4 {
		ps := perms(n)
		// identity first
		k := ex.choose(len(ps), "perm")
		// make choice 0 the identity permutation
		id := 0
		for i, p := range ps {
			same := true
			for j := range p {
				if p[j] != j {
					same = false
				}
			}
			if same {
				id = i
			}
		}
		ps[0], ps[id] = ps[id], ps[0]
		return ps[k]
	}
	return order
}

func (ex *Exec) rangeStart(x Val) Val {
	switch m := x.(type) {
	case *MapObj:
		return &mapIter{m: m, order: ex.mapOrder(m)}
	case Str:
		ex.needBytes(m, "range over string")
		s := m
		return &mapIter{str: &s}
	}
	panic(engineError(fmt.Sprintf("Range on %T", x)))
}

func (ex *Exec) rangeNext(in *ssa.Next, it *mapIter) Val {
	if in.IsString {
		if it.pos >= len(it.str.B) {
			return Tuple{Bool{C: false}, goInt(0), Int{W: 32, S: true}}
		}
		r, w := ex.decodeRune(it.str.B[it.pos:])
		start := it.pos
		it.pos += w
		return Tuple{Bool{C: true}, goInt(start), r}
	}
	for it.m != nil && it.i < len(it.order) {
		idx := it.order[it.i]
		it.i++
		if idx < len(it.m.K) {
			return Tuple{Bool{C: true}, copyVal(it.m.K[idx]), copyVal(it.m.V[idx])}
		}
	}
	return Tuple{Bool{C: false}, nil, nil}
}

// ---------------------------------------------------------------- type assertions

func (ex *Exec) implements(t types.Type, it *types.Interface) bool {
	return types.Implements(t, it)
}

func (ex *Exec) typeAssert(in *ssa.TypeAssert, x Val) Val {
	ifc, isI := x.(Iface)
	ok := false
	var res Val
	if isI {
		if types.IsInterface(in.AssertedType) {
			if _, isRT := ifc.V.(RT); isRT {
				ok = true
			} else {
				ok = ex.implements(ifc.T, in.AssertedType.Underlying().(*types.Interface))
			}
			res = ifc
		} else {
			ok = types.Identical(ifc.T, in.AssertedType)
			res = ifc.V
		}
	}
	if !ok {
		res = ex.zero(in.AssertedType)
		if !in.CommaOk {
			have := "nil"
			if isI {
				have = typeString(ifc.T)
			}
			ex.gopanic("type-assert", fmt.Sprintf("interface conversion: interface is %s, not %s", have, typeString(in.AssertedType)))
		}
	}
	if in.CommaOk {
		return Tuple{res, Bool{C: ok}}
	}
	return res
}

// ---------------------------------------------------------------- diagnostics

func (ex *Exec) showVal(v Val) string {
	switch x := v.(type) {
	case nil:
		return "<nil>"
	case Iface:
		return ex.showVal(x.V)
	case Str:
		return x.show()
	case Int:
		if x.T != nil {
			return x.T.s
		}
		if x.S {
			return fmt.Sprint(x.signed())
		}
		return fmt.Sprint(x.C)
	case Bool:
		if x.T != nil {
			return x.T.s
		}
		return fmt.Sprint(x.C)
	case Float:
		return fmt.Sprint(x.V)
	case Ptr:
		if x.P == nil {
			return "nil-ptr"
		}
		return "&" + ex.showVal(*x.P)
	case Struct:
		var ps []string
		for _, e := range x {
			ps = append(ps, ex.showVal(e))
		}
		return "{" + strings.Join(ps, " ") + "}"
	}
	return fmt.Sprintf("%T", v)
}
