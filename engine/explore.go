package main

import (
	"crypto/sha1"
	"encoding/hex"
	"fmt"
	"hash/fnv"
	"os"
	"runtime/debug"
	"sort"
	"strconv"
	"strings"
	"sync"
	"time"
)

// ---------------------------------------------------------------- work queue

type workItem struct {
	h      int
	prefix []uint16
}

type Queue struct {
	mu     sync.Mutex
	cond   *sync.Cond
	items  []workItem
	busy   int
	closed bool
	pushed int64
	curH   int // harness of the worker pushing (set per worker through push wrapper)
}

func newQueue() *Queue {
	q := &Queue{}
	q.cond = sync.NewCond(&q.mu)
	return q
}

// workerQueue binds pushes to the harness a worker is executing.
type workerQueue struct {
	q *Queue
	h int
}

func (q *Queue) pushItem(it workItem) {
	q.mu.Lock()
	q.items = append(q.items, it)
	q.pushed++
	q.mu.Unlock()
	q.cond.Signal()
}

// pop blocks until an item is available or all workers are idle.
func (q *Queue) pop() (workItem, bool) {
	q.mu.Lock()
	defer q.mu.Unlock()
	for {
		if q.closed {
			return workItem{}, false
		}
		if n := len(q.items); n > 0 {
			// depth-first within a harness, harnesses in registration order
			best := n - 1
			for i := n - 1; i >= 0 && i >= n-64; i-- {
				if q.items[i].h < q.items[best].h {
					best = i
				}
			}
			it := q.items[best]
			q.items = append(q.items[:best], q.items[best+1:]...)
			q.busy++
			return it, true
		}
		if q.busy == 0 {
			q.closed = true
			q.cond.Broadcast()
			return workItem{}, false
		}
		q.cond.Wait()
	}
}

func (q *Queue) done() {
	q.mu.Lock()
	q.busy--
	if q.busy == 0 && len(q.items) == 0 {
		q.closed = true
		q.cond.Broadcast()
	}
	q.mu.Unlock()
}

func (q *Queue) stop() int {
	q.mu.Lock()
	defer q.mu.Unlock()
	n := len(q.items)
	q.closed = true
	q.cond.Broadcast()
	return n
}

// the Exec pushes through this adapter
func (ex *Exec) pushPrefix(p []uint16) { ex.q.pushItem(workItem{h: ex.curH, prefix: p}) }

// ---------------------------------------------------------------- statistics

type Stats struct {
	paths         int64
	infeasible    int64
	inconclusive  map[string]int64
	unwind        int64
	deadline      int64
	forks         int64
	fast          int64
	instrs        int64
	obligations   int64
	discharged    int64
	assertUnknown int64
	funcs         map[string]bool
	perHarness    map[string]int64
	inconcPerH    map[string]int64
	covers        map[string]int64
	samples       []Sample
	validate      []*Vector
	validateSeen  int64
}

type Sample struct {
	Harness string            `json:"harness"`
	Inputs  []string          `json:"inputs"`
	Notes   map[string]string `json:"notes,omitempty"`
	Outcome string            `json:"outcome"`
}

func newStats() *Stats {
	return &Stats{inconclusive: map[string]int64{}, funcs: map[string]bool{}, perHarness: map[string]int64{}, inconcPerH: map[string]int64{}, covers: map[string]int64{}}
}

func (s *Stats) fnSeen(fi *fnInfo) {
	if fi.inRepo && !s.funcs[fi.name] {
		s.funcs[fi.name] = true
	}
}

func (s *Stats) merge(o *Stats) {
	s.paths += o.paths
	s.infeasible += o.infeasible
	s.unwind += o.unwind
	s.deadline += o.deadline
	s.forks += o.forks
	s.fast += o.fast
	s.instrs += o.instrs
	s.obligations += o.obligations
	s.discharged += o.discharged
	s.assertUnknown += o.assertUnknown
	for k, v := range o.inconclusive {
		s.inconclusive[k] += v
	}
	for k := range o.funcs {
		s.funcs[k] = true
	}
	for k, v := range o.perHarness {
		s.perHarness[k] += v
	}
	for k, v := range o.inconcPerH {
		s.inconcPerH[k] += v
	}
	for k, v := range o.covers {
		s.covers[k] += v
	}
	s.samples = append(s.samples, o.samples...)
	s.validate = append(s.validate, o.validate...)
	s.validateSeen += o.validateSeen
}

// ---------------------------------------------------------------- violations

type Vector struct {
	Property  string     `json:"property"`
	Harness   string     `json:"harness"`
	Tier      int        `json:"tier"`
	Values    []VecValue `json:"values"`
	Predicted *Predicted `json:"predicted,omitempty"`
	Notes     []NoteOut  `json:"notes,omitempty"`
	ID        int        `json:"id,omitempty"`
	Covers    []string   `json:"covers,omitempty"`
	RepoHead  string     `json:"repo_head,omitempty"`
	Signature string     `json:"signature,omitempty"`
	Inputs    []string   `json:"inputs_readable,omitempty"`
	Partial   bool       `json:"partial,omitempty"` // values of a decided prefix only: the native run takes zero values for the rest
}

type VecValue struct {
	Kind string `json:"kind"`
	V    int64  `json:"v"`
}

type NoteOut struct {
	K string `json:"k"`
	V string `json:"v"`
}

type Predicted struct {
	Outcome string `json:"outcome"` // assert | panic | hang
	Label   string `json:"label,omitempty"`
	Site    string `json:"site,omitempty"`
	Msg     string `json:"msg,omitempty"`
}

type Violation struct {
	vec *Vector
	sig string // engine-side signature (pre-replay)
}

type violSet struct {
	mu    sync.Mutex
	bySig map[string][]*Violation
	count map[string]int
}

func (vs *violSet) add(v *Violation) {
	vs.mu.Lock()
	defer vs.mu.Unlock()
	vs.count[v.sig]++
	if len(vs.bySig[v.sig]) < 3 {
		vs.bySig[v.sig] = append(vs.bySig[v.sig], v)
	}
}

// ---------------------------------------------------------------- assertions and leaves

// buildVector turns a solver model into a replay vector.
func (ex *Exec) buildVector(model map[string]uint64) *Vector {
	v := &Vector{Property: ex.w.property, Harness: ex.harness, Tier: ex.w.tier}
	for _, vi := range ex.vars {
		if vi.t == nil {
			v.Values = append(v.Values, VecValue{vi.kind, vi.v})
			continue
		}
		x := model[vi.t.Name]
		switch vi.kind {
		case "byte":
			v.Values = append(v.Values, VecValue{"byte", int64(x & 0xff)})
		case "bool":
			v.Values = append(v.Values, VecValue{"bool", int64(x & 1)})
		default:
			v.Values = append(v.Values, VecValue{vi.kind, int64(x)})
		}
	}
	v.Inputs = readable(v.Values)
	return v
}

// readable groups consecutive bytes into a quoted string for humans.
func readable(vals []VecValue) []string {
	var out []string
	var run []byte
	flush := func() {
		if run != nil {
			out = append(out, "bytes:"+strconv.Quote(string(run)))
			run = nil
		}
	}
	for _, v := range vals {
		if v.Kind == "byte" {
			run = append(run, byte(v.V))
			continue
		}
		flush()
		out = append(out, fmt.Sprintf("%s:%d", v.Kind, v.V))
	}
	flush()
	return out
}

func (ex *Exec) symVarTerms() []*Term {
	var ts []*Term
	for _, vi := range ex.vars {
		if vi.t != nil {
			ts = append(ts, vi.t)
		}
	}
	return ts
}

func (ex *Exec) evalNotes(model map[string]uint64) []NoteOut {
	var out []NoteOut
	for _, n := range ex.notes {
		out = append(out, NoteOut{n.k, ex.noteString(n.v, model)})
	}
	return out
}

func (ex *Exec) noteString(v Val, model map[string]uint64) string {
	env := func(name string, id int) uint64 { return model[name] }
	switch x := v.(type) {
	case nil:
		return "<nil>"
	case Iface:
		if s, ok := x.V.(Str); ok {
			return ex.noteString(s, model)
		}
		if i, ok := x.V.(Int); ok {
			return ex.noteString(i, model)
		}
		if b, ok := x.V.(Bool); ok {
			return ex.noteString(b, model)
		}
		if types_isError(ex, x) {
			fn := ex.lookupMethod(x.T, "Error")
			if fn != nil {
				defer func() { recover() }()
				r := ex.call(fn, []Val{x.V}, nil)
				return ex.noteString(r, model)
			}
		}
		return "?"
	case Str:
		var b []byte
		for _, e := range x.B {
			switch {
			case e.W == wDec:
				var n int64
				if e.T != nil {
					n = int64(e.T.eval(env))
				} else {
					n = int64(e.C)
				}
				b = append(b, strconv.FormatInt(n, 10)...)
			case e.W == wOpaque:
				return "?"
			case e.T != nil:
				b = append(b, byte(e.T.eval(env)))
			default:
				b = append(b, byte(e.C))
			}
		}
		return hex.EncodeToString(b)
	case Int:
		if x.T != nil {
			return fmt.Sprint(int64(x.T.eval(env)))
		}
		return fmt.Sprint(x.signed())
	case Bool:
		if x.T != nil {
			return fmt.Sprint(x.T.eval(env) != 0)
		}
		return fmt.Sprint(x.C)
	}
	return "?"
}

func types_isError(ex *Exec, x Iface) bool {
	return ex.lookupMethod(x.T, "Error") != nil
}

type assertEnd struct{}

// assert: the property. A feasible ¬cond is a violation candidate (with model).
func (ex *Exec) assert(b Bool, label string) {
	ex.st.obligations++
	if b.T == nil {
		if b.C {
			ex.st.discharged++
			return
		}
		model, r := ex.sol.model(ex.pc, nil, ex.symVarTerms())
		if r == resSat {
			ex.recordViolation(model, &Predicted{Outcome: "assert", Label: label})
		} else {
			ex.st.assertUnknown++
		}
		panic(pathEnd{"assertfail", label})
	}
	model, r := ex.sol.model(ex.pc, mkNot(b.T), ex.symVarTerms())
	switch r {
	case resUnsat:
		ex.st.discharged++
		return
	case resSat:
		ex.recordViolation(model, &Predicted{Outcome: "assert", Label: label})
	default:
		ex.st.assertUnknown++
	}
	// continue on the side where the assertion holds (if any)
	ex.assume(b)
}

func (ex *Exec) recordViolation(model map[string]uint64, p *Predicted) {
	vec := ex.buildVector(model)
	vec.Predicted = p
	vec.Notes = ex.evalNotes(model)
	ex.pathViol = true
	sig := ex.harness + "|" + p.Outcome + "|" + p.Label + p.Site + "|" + normMsg(p.Msg)
	ex.viols.add(&Violation{vec: vec, sig: sig})
}

// probeInconclusive: the executor cannot continue this path (an unmodelled
// callee, a byte-level operation on a formatted number ...). The claim shrinks,
// but the values that led here are known: the solver's model of the decided
// prefix is replayed natively (remaining inputs zero). A native assertion
// failure or panic is a real violation with a concrete input; a clean native
// run says nothing and is not reported. At most a few probes per harness and
// reason.
func (ex *Exec) probeInconclusive(reason string) {
	if ex.viols == nil || ex.par != nil {
		return
	}
	sig := ex.harness + "|probe|" + reason
	ex.viols.mu.Lock()
	n := ex.viols.count[sig]
	ex.viols.mu.Unlock()
	if n >= 6 {
		ex.viols.mu.Lock()
		ex.viols.count[sig]++
		ex.viols.mu.Unlock()
		return
	}
	defer func() { recover() }() // a solver hiccup here must not turn into an engine error
	model, r := ex.sol.model(ex.pc, nil, ex.symVarTerms())
	if r != resSat {
		return
	}
	vec := ex.buildVector(model)
	vec.Partial = true
	vec.Predicted = &Predicted{Outcome: "probe", Msg: reason}
	ex.viols.add6(&Violation{vec: vec, sig: sig})
}

func (vs *violSet) add6(v *Violation) {
	vs.mu.Lock()
	defer vs.mu.Unlock()
	vs.count[v.sig]++
	if len(vs.bySig[v.sig]) < 6 {
		vs.bySig[v.sig] = append(vs.bySig[v.sig], v)
	}
}

func (ex *Exec) frozenViolation(msg string) {
	model, r := ex.sol.model(ex.pc, nil, ex.symVarTerms())
	if r == resSat {
		ex.recordViolation(model, &Predicted{Outcome: "assert", Label: "frozen: " + msg})
	}
	panic(pathEnd{"assertfail", msg})
}

func (ex *Exec) checkFrozenPtr(p *Val) {
	if ex.frozenCells != nil && ex.frozenCells[p] {
		ex.frozenViolation("store to memory reachable from the frozen template")
	}
}

// ---------------------------------------------------------------- running one path

type runConfig struct {
	fuel        int64
	deadline    time.Time
	seed        int64
	validateCap int
	sampleCap   int
	crossCap    int
}

func hashPrefix(h int, p []uint16, seed int64) uint64 {
	f := fnv.New64a()
	var b [2]byte
	f.Write([]byte(strconv.Itoa(h) + ":" + strconv.FormatInt(seed, 10)))
	for _, x := range p {
		b[0], b[1] = byte(x), byte(x>>8)
		f.Write(b[:])
	}
	return f.Sum64()
}

func (ex *Exec) runPath(it workItem, harnessNames []string, cfg *runConfig) {
	ex.resetPath(it.prefix)
	ex.curH = it.h
	ex.harness = harnessNames[it.h]
	ex.fuel = cfg.fuel
	ex.deadline = cfg.deadline
	ex.locks = nil
	ex.frozenCells = nil
	ex.frozen = nil
	ex.curDeferFrame = nil
	outcome := ""
	func() {
		defer func() {
			r := recover()
			ex.st.instrs += ex.instrs
			ex.st.forks += ex.forks
			ex.forks = 0
			if r == nil {
				return
			}
			switch x := r.(type) {
			case pathEnd:
				switch x.kind {
				case "infeasible":
					ex.st.infeasible++
					outcome = "infeasible"
				case "assertfail":
					ex.st.paths++
					outcome = "assertfail"
				case "unsupported":
					if os.Getenv("SYMGO_DEBUG") != "" && ex.st.inconclusive[x.msg] < 2 {
						fmt.Fprintf(os.Stderr, "INCONCLUSIVE %s: %s\n  stack=%v\n", ex.harness, x.msg, ex.stackNames())
						for _, n := range ex.notes {
							fmt.Fprintf(os.Stderr, "  note %s = %s\n", n.k, ex.showVal(n.v))
						}
					}
					ex.st.inconclusive[x.msg]++
					ex.st.inconcPerH[ex.harness]++
					ex.probeInconclusive(x.msg)
					ex.st.paths++
					outcome = "inconclusive"
				case "unwind":
					ex.st.unwind++
					ex.st.paths++
					outcome = "unwind"
					if model, rs := ex.sol.model(ex.pc, nil, ex.symVarTerms()); rs == resSat {
						ex.recordViolation(model, &Predicted{Outcome: "hang", Label: "fuel exhausted (" + x.msg + ")"})
					}
				case "deadline":
					ex.st.deadline++
					outcome = "deadline"
				}
			case *goPanic:
				ex.st.paths++
				outcome = "panic"
				model, rs := ex.sol.model(ex.pc, nil, ex.symVarTerms())
				if rs == resSat {
					ex.recordViolation(model, &Predicted{Outcome: "panic", Site: x.site, Msg: x.kind + ": " + x.msg})
				} else {
					ex.st.inconclusive["panic path with unknown model"]++
				}
			default:
				panic(r)
			}
		}()
		ex.initGlobals()
		if ex.initFailure != "" {
			unsupported("%s", ex.initFailure)
		}
		cl, ok := ex.registry[ex.harness]
		if !ok {
			panic(engineError("harness not registered: " + ex.harness))
		}
		ex.callClosure(cl, nil)
		ex.st.paths++
		outcome = "ok"
	}()
	if outcome == "ok" && ex.pathViol {
		ex.st.perHarness[ex.harness]++ // complete, but it carries a violation candidate: not a validation sample
	} else if outcome == "ok" {
		ex.st.perHarness[ex.harness]++
		for _, c := range ex.covers {
			ex.st.covers[ex.harness+"/"+c]++
		}
		// sampling for evidence and path validation
		hv := hashPrefix(it.h, ex.prefix, cfg.seed)
		wantSample := ex.st.perHarness[ex.harness] <= 2
		wantValidate := len(ex.st.validate) < cfg.validateCap && (hv%16 == 0 || ex.st.perHarness[ex.harness] <= 3)
		if wantSample || wantValidate {
			model, rs := ex.sol.model(ex.pc, nil, ex.symVarTerms())
			if rs == resSat {
				vec := ex.buildVector(model)
				vec.Notes = ex.evalNotes(model)
				vec.Covers = ex.covers
				if wantSample && len(ex.st.samples) < cfg.sampleCap {
					s := Sample{Harness: ex.harness, Inputs: vec.Inputs, Outcome: "ok", Notes: map[string]string{}}
					for _, n := range vec.Notes {
						s.Notes[n.K] = n.V
					}
					ex.st.samples = append(ex.st.samples, s)
				}
				if wantValidate {
					ex.st.validate = append(ex.st.validate, vec)
				}
			}
		}
	}
}

// ---------------------------------------------------------------- exploring a set of harnesses

type exploreResult struct {
	stats               *Stats
	viols               *violSet
	unexplored          int
	sat, unsat, unknown int64
	solverTime          time.Duration
	xqueries            []xquery
	wall                time.Duration
	workers             int
}

func explore(w *World, harnessNames []string, cfg *runConfig, workers int, solverBin string) *exploreResult {
	t0 := time.Now()
	q := newQueue()
	for h := range harnessNames {
		q.items = append(q.items, workItem{h: h})
	}
	// reverse so that harness 0 is explored first (stack)
	for i, j := 0, len(q.items)-1; i < j; i, j = i+1, j-1 {
		q.items[i], q.items[j] = q.items[j], q.items[i]
	}
	vs := &violSet{bySig: map[string][]*Violation{}, count: map[string]int{}}
	res := &exploreResult{stats: newStats(), viols: vs, workers: workers}
	var wg sync.WaitGroup
	var mu sync.Mutex
	var fatal interface{}
	for i := 0; i < workers; i++ {
		wg.Add(1)
		go func() {
			defer wg.Done()
			ex := &Exec{w: w, sol: newSolver(solverBin, 20000), st: newStats(), q: q, viols: vs}
			ex.sol.xcap = cfg.crossCap
			defer ex.sol.close()
			defer func() {
				if r := recover(); r != nil {
					mu.Lock()
					if fatal == nil {
						fatal = fmt.Sprintf("%v (harness %s, prefix %v)", r, ex.harness, ex.prefix)
						if os.Getenv("SYMGO_TRACE") != "" {
							fatal = fmt.Sprintf("%v\n%s", fatal, debug.Stack())
						}
					}
					mu.Unlock()
					q.stop()
				}
				mu.Lock()
				res.stats.merge(ex.st)
				res.sat += ex.sol.nSat
				res.unsat += ex.sol.nUnsat
				res.unknown += ex.sol.nUnk
				res.solverTime += ex.sol.dur
				res.xqueries = append(res.xqueries, ex.sol.xlog...)
				mu.Unlock()
			}()
			for {
				it, ok := q.pop()
				if !ok {
					return
				}
				if !cfg.deadline.IsZero() && time.Now().After(cfg.deadline) {
					q.mu.Lock()
					q.items = append(q.items, it)
					q.mu.Unlock()
					q.done()
					q.stop()
					return
				}
				ex.runPath(it, harnessNames, cfg)
				q.done()
			}
		}()
	}
	wg.Wait()
	if fatal != nil {
		fmt.Fprintln(os.Stderr, "ENGINE-ERROR:", fatal)
		os.Exit(3)
	}
	q.mu.Lock()
	res.unexplored = len(q.items)
	q.mu.Unlock()
	res.wall = time.Since(t0)
	return res
}

func sortedKeys(m map[string]int64) []string {
	var ks []string
	for k := range m {
		ks = append(ks, k)
	}
	sort.Strings(ks)
	return ks
}

func shaOf(s string) string {
	h := sha1.Sum([]byte(s))
	return hex.EncodeToString(h[:])[:12]
}

var _ = strings.TrimSpace
