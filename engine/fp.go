package main

// Symbolic floats. A Float with T != nil carries an SMT term of sort
// (_ FloatingPoint 11 53) (W=64) or (_ FloatingPoint 8 24) (W=32); U is set as
// well, so that every piece of the executor that is not aware of T treats the
// value as unknown (inconclusive) instead of reading the meaningless V.
// Supported: int<->float and float<->float conversion, + - * / (round to
// nearest even, as Go), negation, the six comparisons. Formatting a symbolic
// float is not supported (inconclusive).

import (
	"fmt"
	"math"
)

const fpW64, fpW32 = 164, 132 // Term.W of FP-sorted terms (never a bit-vector width)

func fpSort(w uint8) string {
	if w == 32 {
		return "(_ to_fp 8 24)"
	}
	return "(_ to_fp 11 53)"
}

func fpTermW(w uint8) int {
	if w == 32 {
		return fpW32
	}
	return fpW64
}

// fpConst: the FP term of a concrete float.
func fpConst(v float64, w uint8) *Term {
	var t *Term
	if w == 32 {
		t = build(fpSort(32), fpW32, mkConst(uint64(math.Float32bits(float32(v))), 32))
	} else {
		t = build(fpSort(64), fpW64, mkConst(math.Float64bits(v), 64))
	}
	t.fp = true
	return t
}

// fpFromBits: reinterpret a 64-bit vector as a float64.
func fpFromBits(bits *Term) *Term {
	t := build(fpSort(64), fpW64, bits)
	t.fp = true
	return t
}

func fpRM() *Term  { return &Term{Op: "rm", s: "RNE", vid: -1, size: 1} }
func fpRTZ() *Term { return &Term{Op: "rm", s: "RTZ", vid: -1, size: 1} }

// fpFromInt: Go's int -> float conversion (round to nearest even).
func fpFromInt(t *Term, signed bool, w uint8) *Term {
	op := fpSort(w)
	if !signed {
		op = "(_ to_fp_unsigned" + op[len("(_ to_fp"):]
	}
	r := build(op, fpTermW(w), fpRM(), t)
	r.fp = true
	return r
}

// fpToFp: float32 <-> float64.
func fpToFp(t *Term, w uint8) *Term {
	r := build(fpSort(w), fpTermW(w), fpRM(), t)
	r.fp = true
	return r
}

// fpToInt: Go's float -> int conversion (truncation; out of range is
// implementation-defined in Go and unspecified in SMT-LIB).
func fpToInt(t *Term, w int, signed bool) *Term {
	op := fmt.Sprintf("(_ fp.to_ubv %d)", w)
	if signed {
		op = fmt.Sprintf("(_ fp.to_sbv %d)", w)
	}
	r := build(op, w, fpRTZ(), t)
	r.fp = true
	return r
}

func fpArith(op string, a, b *Term) *Term {
	r := build(op, a.W, fpRM(), a, b)
	r.fp = true
	return r
}

func fpNeg(a *Term) *Term {
	r := build("fp.neg", a.W, a)
	r.fp = true
	return r
}

func fpCmp(op string, a, b *Term) *Term {
	r := build(op, 0, a, b)
	r.fp = true
	return r
}

func (f Float) term() *Term {
	if f.T != nil {
		return f.T
	}
	return fpConst(f.V, f.W)
}

func symFloat(t *Term, w uint8) Float { return Float{T: t, W: w, U: true} }
