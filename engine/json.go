package main

// Model of encoding/json's encoder (Marshal, Encoder.Encode, HTMLEscape) for the
// value shapes the harnesses hand to toJSON. It is type-directed like the real
// encoder: struct tags, omitempty, sorted map keys, null for nil slices, maps,
// pointers and interfaces. Strings are encoded byte by byte with the escaping
// rules of encodeState.string (escapeHTML on or off), symbolic bytes included;
// multi-byte runes go through the forking UTF-8 decoder. Anything outside the
// modelled shapes (Marshaler / TextMarshaler implementations, embedded structs,
// symbolic map keys, []byte, symbolic floats) ends the path as inconclusive.
// `symgo selftest` compares the model with the standard library.

import (
	"encoding/json"
	"go/types"
	"reflect"
	"sort"
	"strconv"
	"strings"
)

const jsonHex = "0123456789abcdef"

func (ex *Exec) jsonString(s Str, escapeHTML bool) Str {
	ex.needBytes(s, "JSON encoding")
	out := []Int{{C: '"', W: 8}}
	lit := func(t string) { out = append(out, cstr(t).B...) }
	for pos := 0; pos < len(s.B); {
		b := s.B[pos]
		if b.T == nil && b.C >= 0x80 || b.T != nil && ex.branch(mkBool(mkCmp("bvuge", b.T, mkConst(0x80, 8)))) {
			r, w := ex.decodeRune(s.B[pos:])
			switch {
			case r.T == nil && r.C == 0xFFFD && w == 1:
				lit("\\ufffd")
			case r.T == nil && (r.C == 0x2028 || r.C == 0x2029):
				lit(`\u202` + string(jsonHex[r.C&0xF]))
			case r.T != nil && ex.branch(mkBool(mkEq(r.T, mkConst(0x2028, int(r.W))))):
				lit("\\u2028")
			case r.T != nil && ex.branch(mkBool(mkEq(r.T, mkConst(0x2029, int(r.W))))):
				lit("\\u2029")
			default:
				out = append(out, s.B[pos:pos+w]...)
			}
			pos += w
			continue
		}
		pos++
		if b.T == nil {
			c := byte(b.C)
			switch {
			case c == '"' || c == '\\':
				lit("\\" + string(c))
			case c == '\b':
				lit(`\b`)
			case c == '\f':
				lit(`\f`)
			case c == '\n':
				lit(`\n`)
			case c == '\r':
				lit(`\r`)
			case c == '\t':
				lit(`\t`)
			case c < 0x20 || escapeHTML && (c == '<' || c == '>' || c == '&'):
				lit(`\u00` + string(jsonHex[c>>4]) + string(jsonHex[c&0xF]))
			default:
				out = append(out, b)
			}
			continue
		}
		done := false
		pairs := [][2]string{{"\"", `\"`}, {"\\", `\\`}, {"\b", `\b`}, {"\f", `\f`}, {"\n", `\n`}, {"\r", `\r`}, {"\t", `\t`}}
		if escapeHTML {
			pairs = append(pairs, [2]string{"<", "\\u003c"}, [2]string{">", "\\u003e"}, [2]string{"&", "\\u0026"})
		}
		for _, e := range pairs {
			if ex.branch(mkBool(mkEq(b.T, mkConst(uint64(e[0][0]), 8)))) {
				lit(e[1])
				done = true
				break
			}
		}
		if done {
			continue
		}
		if ex.branch(mkBool(mkCmp("bvult", b.T, mkConst(0x20, 8)))) {
			hi := ex.concretize(mkInt(mkBV("bvlshr", b.T, mkConst(4, 8)), 8, false), 0, 1)
			lo := ex.concretize(mkInt(mkBV("bvand", b.T, mkConst(15, 8)), 8, false), 0, 15)
			lit(`\u00` + string(jsonHex[hi]) + string(jsonHex[lo]))
			continue
		}
		out = append(out, b)
	}
	out = append(out, Int{C: '"', W: 8})
	return Str{B: out}
}

type jsonErr struct{ msg string }

func hasMethod(ex *Exec, t types.Type, name string) bool {
	if ex.w == nil || ex.w.prog == nil {
		return false
	}
	if ex.lookupMethod(t, name) != nil {
		return true
	}
	if _, isPtr := t.(*types.Pointer); !isPtr {
		if _, isIface := t.Underlying().(*types.Interface); !isIface {
			return ex.lookupMethod(types.NewPointer(t), name) != nil
		}
	}
	return false
}

// jsonEncode appends the encoding of v (static type t) or panics with jsonErr.
func (ex *Exec) jsonEncode(v Val, t types.Type, escapeHTML bool, quoted bool, depth int) Str {
	if depth > 12 {
		unsupported("JSON encoding deeper than 12 levels")
	}
	if t != nil && ex.w != nil && ex.w.prog != nil {
		if _, isIface := t.Underlying().(*types.Interface); !isIface {
			if p, isP := v.(Ptr); isP && p.P == nil {
				return cstr("null")
			}
			if fn := ex.lookupMethod(t, "MarshalJSON"); fn != nil {
				// json.Marshaler: its output is validated, compacted and (escapeHTML) escaped
				r := ex.call(fn, []Val{v}, nil).(Tuple)
				if r[1] != nil {
					panic(jsonErr{"json: error calling MarshalJSON for type " + typeString(t)})
				}
				raw, ok := sliceStr(r[0]).conc()
				if !ok {
					unsupported("JSON compaction of symbolic Marshaler output")
				}
				var sb strings.Builder
				enc := json.NewEncoder(&sb)
				enc.SetEscapeHTML(escapeHTML)
				if err := enc.Encode(json.RawMessage(raw)); err != nil {
					panic(jsonErr{"json: error calling MarshalJSON for type " + typeString(t) + ": " + err.Error()})
				}
				return cstr(strings.TrimSuffix(sb.String(), "\n"))
			}
			if fn := ex.lookupMethod(t, "MarshalText"); fn != nil {
				r := ex.call(fn, []Val{v}, nil).(Tuple)
				if r[1] != nil {
					panic(jsonErr{"json: error calling MarshalText for type " + typeString(t)})
				}
				return ex.jsonString(sliceStr(r[0]), escapeHTML)
			}
			if _, isPtr := t.(*types.Pointer); !isPtr && (hasMethod(ex, t, "MarshalJSON") || hasMethod(ex, t, "MarshalText")) {
				// pointer-receiver marshaler on a value: used only when addressable; not modelled
				unsupported("JSON encoding of a value whose pointer type is a Marshaler")
			}
		}
	}
	if ifc, ok := v.(Iface); ok {
		if _, isRT := ifc.V.(RT); isRT {
			unsupported("JSON encoding of a reflect value")
		}
		return ex.jsonEncode(ifc.V, ifc.T, escapeHTML, false, depth+1)
	}
	if v == nil {
		return cstr("null")
	}
	var u types.Type
	if t != nil {
		u = t.Underlying()
	}
	q := func(s Str) Str {
		if quoted {
			return concatStr(concatStr(cstr(`"`), s), cstr(`"`))
		}
		return s
	}
	switch x := v.(type) {
	case Int:
		return q(ex.decStr(x))
	case Bool:
		if ex.branch(x) {
			return q(cstr("true"))
		}
		return q(cstr("false"))
	case Float:
		if x.U {
			unsupported("JSON encoding of a symbolic float")
		}
		var b []byte
		var err error
		if x.W == 32 {
			b, err = json.Marshal(float32(x.V))
		} else {
			b, err = json.Marshal(x.V)
		}
		if err != nil {
			panic(jsonErr{err.Error()})
		}
		return q(cstr(string(b)))
	case Str:
		if quoted {
			return ex.jsonString(ex.jsonString(x, escapeHTML), escapeHTML)
		}
		return ex.jsonString(x, escapeHTML)
	case Slice:
		if st, ok := u.(*types.Slice); ok {
			if b, ok := st.Elem().Underlying().(*types.Basic); ok && b.Kind() == types.Uint8 {
				unsupported("JSON encoding of []byte")
			}
			if x.A == nil {
				return cstr("null")
			}
			out := cstr("[")
			for i, e := range x.elems() {
				if i > 0 {
					out = concatStr(out, cstr(","))
				}
				out = concatStr(out, ex.jsonEncode(e, st.Elem(), escapeHTML, false, depth+1))
			}
			return concatStr(out, cstr("]"))
		}
	case *MapObj:
		if x == nil {
			return cstr("null")
		}
		mt, ok := u.(*types.Map)
		if !ok {
			break
		}
		type kv struct {
			k string
			i int
		}
		var ks []kv
		for i, k := range x.K {
			switch y := k.(type) {
			case Str:
				s, ok := y.conc()
				if !ok {
					unsupported("JSON encoding of a map with symbolic keys")
				}
				ks = append(ks, kv{s, i})
			case Int:
				if y.T != nil {
					unsupported("JSON encoding of a map with symbolic keys")
				}
				if y.S {
					ks = append(ks, kv{strconv.FormatInt(y.signed(), 10), i})
				} else {
					ks = append(ks, kv{strconv.FormatUint(y.C, 10), i})
				}
			default:
				if _, isB := mt.Key().Underlying().(*types.Basic); !isB {
					panic(jsonErr{"json: unsupported type: " + typeString(t)})
				}
				unsupported("JSON encoding of this map key type")
			}
		}
		sort.Slice(ks, func(a, b int) bool { return ks[a].k < ks[b].k })
		out := cstr("{")
		for n, e := range ks {
			if n > 0 {
				out = concatStr(out, cstr(","))
			}
			out = concatStr(out, ex.jsonString(cstr(e.k), escapeHTML))
			out = concatStr(out, cstr(":"))
			out = concatStr(out, ex.jsonEncode(x.V[e.i], mt.Elem(), escapeHTML, false, depth+1))
		}
		return concatStr(out, cstr("}"))
	case Struct:
		switch st := u.(type) {
		case *types.Array:
			out := cstr("[")
			for i, e := range x {
				if i > 0 {
					out = concatStr(out, cstr(","))
				}
				out = concatStr(out, ex.jsonEncode(e, st.Elem(), escapeHTML, false, depth+1))
			}
			return concatStr(out, cstr("]"))
		case *types.Struct:
			out := cstr("{")
			first := true
			for i := 0; i < st.NumFields(); i++ {
				f := st.Field(i)
				if f.Embedded() {
					unsupported("JSON encoding of embedded fields")
				}
				if !f.Exported() {
					continue
				}
				name := f.Name()
				tag, has := reflect.StructTag(st.Tag(i)).Lookup("json")
				omit, str := false, false
				if has {
					if tag == "-" {
						continue
					}
					parts := strings.Split(tag, ",")
					if parts[0] != "" {
						name = parts[0]
					}
					for _, o := range parts[1:] {
						switch o {
						case "omitempty":
							omit = true
						case "string":
							str = true
						default:
							unsupported("JSON tag option " + o)
						}
					}
				}
				if omit && ex.jsonEmpty(x[i]) {
					continue
				}
				if !first {
					out = concatStr(out, cstr(","))
				}
				first = false
				out = concatStr(out, ex.jsonString(cstr(name), escapeHTML))
				out = concatStr(out, cstr(":"))
				out = concatStr(out, ex.jsonEncode(x[i], f.Type(), escapeHTML, str, depth+1))
			}
			return concatStr(out, cstr("}"))
		}
	case Ptr:
		if x.P == nil {
			return cstr("null")
		}
		if pt, ok := u.(*types.Pointer); ok {
			return ex.jsonEncode(*x.P, pt.Elem(), escapeHTML, quoted, depth+1)
		}
	case Closure:
		panic(jsonErr{"json: unsupported type: " + typeString(t)})
	}
	if t != nil {
		switch u.(type) {
		case *types.Signature, *types.Chan:
			panic(jsonErr{"json: unsupported type: " + typeString(t)})
		}
	}
	unsupported("JSON encoding of this value")
	return Str{}
}

func (ex *Exec) jsonEmpty(v Val) bool {
	switch x := v.(type) {
	case nil:
		return true
	case Int:
		return ex.branch(mkBool(mkEq(termOf(x), mkConst(0, int(x.W)))))
	case Bool:
		return !ex.branch(x)
	case Float:
		return !x.U && x.V == 0
	case Str:
		ex.needBytes(x, "omitempty")
		return len(x.B) == 0
	case Slice:
		return x.Len == 0
	case *MapObj:
		return x == nil || len(x.K) == 0
	case Ptr:
		return x.P == nil
	case Iface:
		return false
	}
	return false
}

func termOf(i Int) *Term {
	if i.T != nil {
		return i.T
	}
	return mkConst(i.C, int(i.W))
}

// jsonMarshal returns (text, nil) or (Str{}, error value).
func (ex *Exec) jsonMarshal(v Val, escapeHTML bool) (out Str, err Val) {
	defer func() {
		if r := recover(); r != nil {
			je, ok := r.(jsonErr)
			if !ok {
				panic(r)
			}
			out, err = Str{}, ex.newError(cstr(je.msg))
		}
	}()
	return ex.jsonEncode(v, nil, escapeHTML, false, 0), nil
}

func sliceStr(v Val) Str {
	if s, ok := v.(Str); ok {
		return s // a native method handed its []byte result back as text
	}
	sl, _ := v.(Slice)
	var out []Int
	for _, e := range sl.elems() {
		switch x := e.(type) {
		case Int:
			out = append(out, x)
		case Str:
			out = append(out, x.B...)
		default:
			unsupported("a []byte whose elements are not bytes")
		}
	}
	return Str{B: out}
}

func strBytes(s Str) Slice {
	vals := make([]Val, len(s.B))
	for i, b := range s.B {
		vals[i] = b
	}
	return newSlice(vals)
}

func mJSONMarshal(ex *Exec, args []Val) Val {
	s, err := ex.jsonMarshal(args[0], true)
	if err != nil {
		return Tuple{Slice{}, err}
	}
	// a result with formatted segments (symbolic integers) is handed on as it is: it can be
	// converted back to a string or written to a buffer; len and indexing end the path (builtins.go)
	return Tuple{strBytes(s), nil}
}

// *json.Encoder: the real struct; field 0 is the writer, escapeHTML is found by name.
func (ex *Exec) encoderFields() (st *types.Struct, esc int) {
	p := ex.w.prog.ImportedPackage("encoding/json")
	if p == nil {
		unsupported("encoding/json not loaded")
	}
	st = p.Type("Encoder").Type().Underlying().(*types.Struct)
	for i := 0; i < st.NumFields(); i++ {
		if st.Field(i).Name() == "escapeHTML" {
			return st, i
		}
	}
	unsupported("json.Encoder layout")
	return nil, 0
}

func mJSONNewEncoder(ex *Exec, args []Val) Val {
	st, esc := ex.encoderFields()
	s := make(Struct, st.NumFields())
	for i := range s {
		s[i] = ex.zero(st.Field(i).Type())
	}
	s[0] = args[0]
	s[esc] = Bool{C: true}
	var cell Val = s
	return Ptr{&cell}
}

func mJSONSetEscapeHTML(ex *Exec, args []Val) Val {
	_, esc := ex.encoderFields()
	p := args[0].(Ptr)
	if p.P == nil {
		ex.gopanic("nil-deref", "invalid memory address or nil pointer dereference ((*json.Encoder).SetEscapeHTML)")
	}
	s := (*p.P).(Struct)
	s[esc] = args[1]
	return nil
}

func mJSONEncode(ex *Exec, args []Val) Val {
	_, esc := ex.encoderFields()
	p := args[0].(Ptr)
	if p.P == nil {
		ex.gopanic("nil-deref", "invalid memory address or nil pointer dereference ((*json.Encoder).Encode)")
	}
	s := (*p.P).(Struct)
	out, err := ex.jsonMarshal(args[1], ex.branch(s[esc].(Bool)))
	if err != nil {
		return err
	}
	out = concatStr(out, cstr("\n"))
	w, ok := s[0].(Iface)
	if !ok {
		ex.gopanic("nil-deref", "invalid memory address or nil pointer dereference (json.Encoder with a nil writer)")
	}
	switch typeString(w.T) {
	case "*bytes.Buffer", "*strings.Builder":
		mBufWriteBytes(ex, []Val{w.V, strBytes(out)})
	default:
		if fn := ex.lookupMethod(w.T, "Write"); fn != nil {
			ex.call(fn, []Val{w.V, strBytes(out)}, nil)
		} else {
			unsupported("json.Encoder writer " + typeString(w.T))
		}
	}
	return nil
}

// json.HTMLEscape(dst *bytes.Buffer, src []byte)
func mJSONHTMLEscape(ex *Exec, args []Val) Val {
	src := args[1].(Slice).elems()
	var out []Int
	for i := 0; i < len(src); i++ {
		b := src[i].(Int)
		if b.T == nil {
			c := byte(b.C)
			if c == '<' || c == '>' || c == '&' {
				out = append(out, cstr(`\u00`+string(jsonHex[c>>4])+string(jsonHex[c&0xF])).B...)
				continue
			}
			if c == 0xE2 && i+2 < len(src) {
				b1, b2 := src[i+1].(Int), src[i+2].(Int)
				if b1.T != nil || b2.T != nil {
					unsupported("json.HTMLEscape on symbolic multi-byte text")
				}
				if b1.C == 0x80 && b2.C&^1 == 0xA8 {
					out = append(out, cstr(`\u202`+string(jsonHex[b2.C&0xF])).B...)
					i += 2
					continue
				}
			}
			out = append(out, b)
			continue
		}
		done := false
		for _, c := range []byte{'<', '>', '&'} {
			if ex.branch(mkBool(mkEq(b.T, mkConst(uint64(c), 8)))) {
				out = append(out, cstr(`\u00`+string(jsonHex[c>>4])+string(jsonHex[c&0xF])).B...)
				done = true
				break
			}
		}
		if done {
			continue
		}
		if ex.branch(mkBool(mkEq(b.T, mkConst(0xE2, 8)))) {
			unsupported("json.HTMLEscape on symbolic multi-byte text")
		}
		out = append(out, b)
	}
	mBufWriteBytes(ex, []Val{args[0], strBytes(Str{B: out})})
	return nil
}
