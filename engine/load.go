package main

import (
	"fmt"
	"go/types"
	"os"
	"os/exec"
	"path/filepath"
	"sort"
	"strings"
	"text/template"
	"time"

	"golang.org/x/tools/go/packages"
	"golang.org/x/tools/go/ssa"
	"golang.org/x/tools/go/ssa/ssautil"
)

var verifDir = "/verif"

// repoDir is /repo for every registered command; VERIF_REPO redirects it (together with
// VERIF_DIR and a harness go.mod that replaces plush by the same directory) when a
// seeded change is tried in a scratch worktree without touching /repo.
var repoDir = "/repo"

func goEnv() []string {
	return append(os.Environ(), "GOFLAGS=-mod=mod", "GOPROXY=off", "GOSUMDB=off", "GOTOOLCHAIN=local", "CGO_ENABLED=0")
}

func harnessDir() string { return filepath.Join(verifDir, "harness") }

// prepareHarnessModule copies /repo/go.sum (the harness module replaces plush by /repo).
func prepareHarnessModule() {
	data, err := os.ReadFile(filepath.Join(repoDir, "go.sum"))
	if err == nil {
		os.WriteFile(filepath.Join(harnessDir(), "go.sum"), data, 0o644)
	}
}

// loadWorld loads the harness package(s) together with /repo's current working
// tree and builds SSA for everything (the encoding is regenerated on every run).
func loadWorld(patterns []string, tier int, property string) (*World, time.Duration) {
	t0 := time.Now()
	prepareHarnessModule()
	cfg := &packages.Config{
		Mode: packages.LoadAllSyntax,
		Dir:  harnessDir(),
		Env:  goEnv(),
	}
	pkgs, err := packages.Load(cfg, patterns...)
	if err != nil {
		fmt.Fprintln(os.Stderr, "ENGINE-ERROR: load:", err)
		os.Exit(3)
	}
	if packages.PrintErrors(pkgs) > 0 {
		fmt.Fprintln(os.Stderr, "ENGINE-ERROR: the harness or /repo does not type-check")
		os.Exit(3)
	}
	prog, spkgs := ssautil.AllPackages(pkgs, ssa.InstantiateGenerics)
	prog.Build()
	w := &World{prog: prog, infos: map[*ssa.Function]*fnInfo{}, tier: tier, property: property}
	for _, sp := range spkgs {
		if sp != nil {
			w.initPkgs = append(w.initPkgs, sp)
		}
	}
	all := prog.AllPackages()
	sort.Slice(all, func(i, j int) bool { return all[i].Pkg.Path() < all[j].Pkg.Path() })
	for _, p := range all {
		if !interpretablePkg(p.Pkg.Path()) {
			continue
		}
		var names []string
		for n := range p.Members {
			names = append(names, n)
		}
		sort.Strings(names)
		for _, n := range names {
			if g, ok := p.Members[n].(*ssa.Global); ok {
				w.globals = append(w.globals, g)
			}
		}
	}
	if rp := prog.ImportedPackage("reflect"); rp != nil {
		w.rtypeT = types.NewPointer(rp.Type("rtype").Type())
	} else {
		w.rtypeT = types.NewPointer(types.NewNamed(types.NewTypeName(0, nil, "rtype", nil), types.NewStruct(nil, nil), nil))
	}
	w.errorT = types.Universe.Lookup("error").Type()
	return w, time.Since(t0)
}

func repoHead() string {
	out, err := exec.Command("git", "-C", repoDir, "rev-parse", "--short", "HEAD").Output()
	if err != nil {
		return "?"
	}
	h := strings.TrimSpace(string(out))
	st, _ := exec.Command("git", "-C", repoDir, "status", "--porcelain").Output()
	if len(strings.TrimSpace(string(st))) > 0 {
		h += "+dirty"
	}
	return h
}

func jsEscapeNative(s string) string { return template.JSEscapeString(s) }
