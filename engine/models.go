package main

// Models of functions outside /repo and the harness module. Every model is
// part of the claim (DESIGN §2.5).

import (
	"fmt"
	"go/token"
	"go/types"
	"html"
	"math"
	"net/url"
	"path"
	"path/filepath"
	"reflect"
	"regexp"
	"sort"
	"strconv"
	"strings"
	"time"
	"unicode"
	"unicode/utf8"
	"unsafe"

	"golang.org/x/tools/go/ssa"
)

type modelFn func(ex *Exec, args []Val) Val

var models map[string]modelFn
var vrtModels map[string]modelFn

func init() {
	models = map[string]modelFn{
		"strings.Split":                  mStringsSplit,
		"strings.Replace":                mStringsReplace,
		"strings.ReplaceAll":             func(ex *Exec, a []Val) Val { return mStringsReplace(ex, []Val{a[0], a[1], a[2], cint(-1, 64, true)}) },
		"strings.Contains":               mStringsContains,
		"strings.Index":                  func(ex *Exec, a []Val) Val { return goInt(ex.indexOf(a[0].(Str), a[1].(Str), 0)) },
		"strings.IndexByte":              func(ex *Exec, a []Val) Val { return goInt(ex.indexOf(a[0].(Str), Str{B: []Int{a[1].(Int)}}, 0)) },
		"strings.HasPrefix":              mStringsHasPrefix,
		"strings.HasSuffix":              mStringsHasSuffix,
		"strings.TrimSuffix":             mStringsTrimSuffix,
		"strings.TrimPrefix":             mStringsTrimPrefix,
		"strings.TrimSpace":              mStringsTrimSpace,
		"strings.TrimRight":              mStringsTrimRight,
		"strings.Join":                   mStringsJoin,
		"(*strings.Builder).Write":       mBufWriteBytes,
		"(*strings.Builder).WriteString": mBufWriteString,
		"(*strings.Builder).WriteByte":   mBufWriteByte,
		"(*strings.Builder).WriteRune":   mBufWriteRune,
		"(*strings.Builder).String":      mBufString,
		"(*strings.Builder).Len":         mBufLen,
		"(*strings.Builder).Reset":       mBufReset,
		"(*strings.Builder).Grow":        func(ex *Exec, a []Val) Val { return nil },
		"(*bytes.Buffer).Write":          mBufWriteBytes,
		"(*bytes.Buffer).WriteString":    mBufWriteString,
		"(*bytes.Buffer).WriteByte":      mBufWriteByte,
		"(*bytes.Buffer).WriteRune":      mBufWriteRune,
		"(*bytes.Buffer).String":         mBufString,
		"(*bytes.Buffer).Len":            mBufLen,
		"(*bytes.Buffer).Cap":            mBufCap,
		"(*bytes.Buffer).Grow":           func(ex *Exec, args []Val) Val { return nil },
		"(*bytes.Buffer).Reset":          mBufReset,
		// the process environment as a fixed, empty stub: no variables set, no files present
		"os.Getwd":     func(ex *Exec, a []Val) Val { return Tuple{cstr("/"), nil} },
		"os.Getenv":    func(ex *Exec, a []Val) Val { return cstr("") },
		"os.LookupEnv": func(ex *Exec, a []Val) Val { return Tuple{cstr(""), Bool{C: false}} },
		"os.Stat": func(ex *Exec, a []Val) Val {
			return Tuple{nil, ex.newError(concatStr(cstr("stat "), concatStr(a[0].(Str), cstr(": no such file or directory"))))}
		},
		"path/filepath.Join": func(ex *Exec, a []Val) Val {
			var parts []string
			for _, e := range a[0].(Slice).elems() {
				s, ok := e.(Str).conc()
				if !ok {
					unsupported("filepath.Join on a symbolic string")
				}
				parts = append(parts, s)
			}
			return cstr(filepath.Join(parts...))
		},
		// reflect.DeepEqual on two interface values of basic / string / struct-of-basic dynamic types
		"reflect.DeepEqual": func(ex *Exec, a []Val) Val {
			x, xi := a[0].(Iface)
			y, yi := a[1].(Iface)
			if !xi || !yi {
				return Bool{C: a[0] == nil && a[1] == nil}
			}
			if !types.Identical(x.T, y.T) {
				return Bool{C: false}
			}
			var flat func(t types.Type, d int) bool
			flat = func(t types.Type, d int) bool {
				switch u := t.Underlying().(type) {
				case *types.Basic:
					return true
				case *types.Struct:
					for i := 0; i < u.NumFields() && d < 4; i++ {
						if !flat(u.Field(i).Type(), d+1) {
							return false
						}
					}
					return d < 4
				}
				return false
			}
			if !flat(x.T, 0) {
				unsupported("reflect.DeepEqual on %s", typeString(x.T))
			}
			if _, isNat := x.V.(Native); isNat {
				unsupported("reflect.DeepEqual on a native value")
			}
			return ex.valEq(x.V, y.V)
		},
		"path.Join": func(ex *Exec, a []Val) Val {
			var parts []string
			for _, e := range a[0].(Slice).elems() {
				s, ok := e.(Str).conc()
				if !ok {
					unsupported("path.Join on a symbolic string")
				}
				parts = append(parts, s)
			}
			return cstr(path.Join(parts...))
		},
		"net/url.ParseRequestURI": func(ex *Exec, a []Val) Val {
			s, ok := a[0].(Str).conc()
			if !ok {
				unsupported("url.ParseRequestURI on a symbolic string")
			}
			if _, err := url.ParseRequestURI(s); err != nil {
				return Tuple{Ptr{}, ex.newError(cstr(err.Error()))}
			}
			// only the error is looked at by the callers in reach; the URL itself is not modelled
			var cell Val = Struct{}
			return Tuple{Ptr{&cell}, nil}
		},
		"encoding/json.Marshal":                  mJSONMarshal,
		"encoding/json.NewEncoder":               mJSONNewEncoder,
		"(*encoding/json.Encoder).SetEscapeHTML": mJSONSetEscapeHTML,
		"(*encoding/json.Encoder).Encode":        mJSONEncode,
		"encoding/json.HTMLEscape":               mJSONHTMLEscape,
		"fmt.Sprintf":                            func(ex *Exec, a []Val) Val { s, _ := ex.sprintf(a[0].(Str), a[1]); return s },
		"fmt.Sprint":                             mSprint,
		"fmt.Sprintln":                           func(ex *Exec, a []Val) Val { return concatStr(ex.sprintArgs(a[0], true), cstr("\n")) },
		"fmt.Errorf":                             mErrorf,
		"fmt.Print":                              func(ex *Exec, a []Val) Val { return Tuple{goInt(0), nil} },
		"fmt.Println":                            func(ex *Exec, a []Val) Val { return Tuple{goInt(0), nil} },
		"fmt.Printf":                             func(ex *Exec, a []Val) Val { return Tuple{goInt(0), nil} },
		"errors.Is":                              func(ex *Exec, a []Val) Val { return Bool{C: ex.errorsIs(a[0], a[1], 0)} },
		"errors.As":                              func(ex *Exec, a []Val) Val { return Bool{C: ex.errorsAs(a[0], a[1], 0)} },
		"errors.Unwrap":                          mErrorsUnwrap,
		"errors.Join":                            mErrorsJoin,
		"(*errors.joinError).Error":              mJoinErrorError,
		"strconv.Atoi":                           mAtoi,
		"strconv.ParseFloat":                     mParseFloat,
		"strconv.Itoa":                           func(ex *Exec, a []Val) Val { return ex.decStr(a[0].(Int)) },
		"(*sync.Mutex).Lock":                     mLock,
		"(*sync.Mutex).Unlock":                   mUnlock,
		"(*sync.RWMutex).Lock":                   mLock,
		"(*sync.RWMutex).Unlock":                 mUnlock,
		"(*sync.RWMutex).RLock":                  func(ex *Exec, a []Val) Val { return nil },
		"(*sync.RWMutex).RUnlock":                func(ex *Exec, a []Val) Val { return nil },
		"(*sync.Map).Load":                       mSyncMapLoad,
		"(*sync.Map).Store":                      mSyncMapStore,
		"(*sync.Map).LoadOrStore":                mSyncMapLoadOrStore,
		"(*sync.Map).LoadAndDelete":              mSyncMapLoadAndDelete,
		"(*sync.Map).Delete":                     mSyncMapDelete,
		"(*sync.Map).Range":                      mSyncMapRange,
		"context.Background":                     mCtxBackground,
		"context.TODO":                           mCtxBackground,
		"(context.backgroundCtx).Value":          func(ex *Exec, a []Val) Val { return nil },
		"(context.emptyCtx).Value":               func(ex *Exec, a []Val) Val { return nil },
		"(context.todoCtx).Value":                func(ex *Exec, a []Val) Val { return nil },
		"html/template.HTMLEscaper":              mHTMLEscaper,
		"html/template.HTMLEscapeString":         func(ex *Exec, a []Val) Val { return ex.htmlEscape(a[0].(Str)) },
		"html.EscapeString":                      func(ex *Exec, a []Val) Val { return ex.htmlEscape(a[0].(Str)) },
		"html/template.JSEscapeString":           func(ex *Exec, a []Val) Val { return ex.jsEscape(a[0].(Str)) },
		"text/template.JSEscapeString":           func(ex *Exec, a []Val) Val { return ex.jsEscape(a[0].(Str)) },
		"regexp.Compile":                         mRegexpCompile,
		"regexp.MustCompile": func(ex *Exec, a []Val) Val {
			r := mRegexpCompile(ex, a).(Tuple)
			if r[1] != nil {
				ex.gopanic("explicit", "regexp: Compile: pattern does not compile")
			}
			return r[0]
		},
		"(*regexp.Regexp).ReplaceAllString": func(ex *Exec, a []Val) Val {
			re := regexpOf(ex, a[0])
			src, ok1 := a[1].(Str).conc()
			repl, ok2 := a[2].(Str).conc()
			if !ok1 || !ok2 {
				unsupported("regexp replace on a symbolic string")
			}
			return cstr(re.ReplaceAllString(src, repl))
		},
		"(*regexp.Regexp).FindString": func(ex *Exec, a []Val) Val {
			re := regexpOf(ex, a[0])
			src, ok := a[1].(Str).conc()
			if !ok {
				unsupported("regexp find on a symbolic string")
			}
			return cstr(re.FindString(src))
		},
		"(*regexp.Regexp).String":        func(ex *Exec, a []Val) Val { return cstr(regexpOf(ex, a[0]).String()) },
		"unicode.Is":                     mUnicodeIs,
		"unicode.In":                     mUnicodeIs,
		"sort.Slice":                     mSortSlice,
		"sort.SliceStable":               mSortSlice,
		"sort.Strings":                   mSortStrings,
		"sort.Ints":                      mSortInts,
		"sort.Search":                    mSortSearch,
		"sort.SearchInts":                mSortSearchInts,
		"strings.NewReplacer":            mNewReplacer,
		"(*strings.Replacer).Replace":    mReplacerReplace,
		"(*sync.Pool).Get":               mPoolGet,
		"(*sync.Pool).Put":               mPoolPut,
		"(*regexp.Regexp).MatchString":   mRegexpMatchString,
		"unicode/utf8.RuneCountInString": mRuneCount,
		"unicode/utf8.DecodeRuneInString": func(ex *Exec, a []Val) Val {
			s := a[0].(Str)
			ex.needBytes(s, "DecodeRuneInString")
			r, w := ex.decodeRune(s.B)
			return Tuple{r, goInt(w)}
		},
		"unicode/utf8.ValidString": func(ex *Exec, a []Val) Val {
			s := a[0].(Str)
			ex.needBytes(s, "ValidString")
			for pos := 0; pos < len(s.B); {
				r, w := ex.decodeRune(s.B[pos:])
				if w == 1 {
					if ex.branch(ex.intBinop(token.EQL, r, cint(0xFFFD, 32, true)).(Bool)) {
						return Bool{C: false}
					}
				}
				pos += w
			}
			return Bool{C: true}
		},
	}
	for k, v := range reflectModels() {
		models[k] = v
	}
	vrtModels = map[string]modelFn{
		"Register": func(ex *Exec, a []Val) Val {
			name, _ := a[0].(Str).conc()
			ex.registry[name] = a[1].(Closure)
			ex.regOrder = append(ex.regOrder, name)
			return nil
		},
		"Tier":    func(ex *Exec, a []Val) Val { return goInt(ex.w.tier) },
		"Byte":    func(ex *Exec, a []Val) Val { return Int{T: ex.freshVar("byte", 8), W: 8} },
		"Int":     func(ex *Exec, a []Val) Val { return Int{T: ex.freshVar("int", 64), W: 64, S: true} },
		"Int64":   func(ex *Exec, a []Val) Val { return Int{T: ex.freshVar("int64", 64), W: 64, S: true} },
		"Float64": func(ex *Exec, a []Val) Val { return symFloat(fpFromBits(ex.freshVar("float", 64)), 64) },
		"Bool": func(ex *Exec, a []Val) Val {
			t := ex.freshVar("bool", 8)
			ex.addPC(mkCmp("bvule", t, mkConst(1, 8)))
			return mkBool(mkEq(t, mkConst(1, 8)))
		},
		"Choice": func(ex *Exec, a []Val) Val {
			n := ex.concInt(a[0], "Choice bound")
			return goInt(ex.choose(n, "choice"))
		},
		"IntRange": func(ex *Exec, a []Val) Val {
			lo, hi := ex.concInt(a[0], "IntRange"), ex.concInt(a[1], "IntRange")
			return goInt(lo + ex.choose(hi-lo+1, "choice"))
		},
		"Bytes": func(ex *Exec, a []Val) Val {
			n := ex.concInt(a[0], "Bytes length")
			s := Str{B: make([]Int, n)}
			for i := range s.B {
				s.B[i] = Int{T: ex.freshVar("byte", 8), W: 8}
			}
			return s
		},
		"BytesIn": func(ex *Exec, a []Val) Val {
			n := ex.concInt(a[0], "Bytes length")
			alpha, _ := a[1].(Str).conc()
			s := Str{B: make([]Int, n)}
			for i := range s.B {
				t := ex.freshVar("byte", 8)
				var alts []*Term
				for j := 0; j < len(alpha); j++ {
					alts = append(alts, mkEq(t, mkConst(uint64(alpha[j]), 8)))
				}
				ex.assume(mkBool(mkOr(alts...)))
				s.B[i] = Int{T: t, W: 8}
			}
			return s
		},
		"Assume": func(ex *Exec, a []Val) Val { ex.assume(a[0].(Bool)); return nil },
		"Assert": func(ex *Exec, a []Val) Val {
			label, _ := a[1].(Str).conc()
			ex.assert(a[0].(Bool), label)
			return nil
		},
		"Cover": func(ex *Exec, a []Val) Val {
			l, _ := a[0].(Str).conc()
			ex.covers = append(ex.covers, l)
			return nil
		},
		"Note": func(ex *Exec, a []Val) Val {
			k, _ := a[0].(Str).conc()
			ex.notes = append(ex.notes, noteRec{k, a[1]})
			return nil
		},
		"MapOrderNondet": func(ex *Exec, a []Val) Val { ex.mapNondet = a[0].(Bool).C; return nil },
		"Unreachable": func(ex *Exec, a []Val) Val {
			l, _ := a[0].(Str).conc()
			ex.assert(Bool{C: false}, "unreachable: "+l)
			return nil
		},
		"Names": func(ex *Exec, a []Val) Val { return Slice{} },
		"Freeze": func(ex *Exec, a []Val) Val {
			if ex.frozenCells == nil {
				ex.frozenCells = map[*Val]bool{}
				ex.frozen = map[*MapObj]bool{}
			}
			ex.freeze(a[0], 0)
			return nil
		},
		"CheckFrozen": func(ex *Exec, a []Val) Val { return nil },
		"Par": func(ex *Exec, a []Val) Val {
			ex.runPar(a[0].(Closure), a[1].(Closure))
			return nil
		},
	}
}

// freeze marks every heap cell reachable from v read-only (vrt.Freeze).
func (ex *Exec) freeze(v Val, depth int) {
	if depth > 200 {
		return
	}
	switch x := v.(type) {
	case Iface:
		ex.freeze(x.V, depth+1)
	case Ptr:
		if x.P == nil || ex.frozenCells[x.P] {
			return
		}
		ex.frozenCells[x.P] = true
		ex.freezeCell(x.P, depth+1)
	case Struct:
		for i := range x {
			ex.frozenCells[&x[i]] = true
			ex.freezeCell(&x[i], depth+1)
		}
	case Slice:
		for i := 0; i < x.Len; i++ {
			c := x.at(i)
			if !ex.frozenCells[c] {
				ex.frozenCells[c] = true
				ex.freezeCell(c, depth+1)
			}
		}
	case *MapObj:
		if x == nil || ex.frozen[x] {
			return
		}
		ex.frozen[x] = true
		for i := range x.K {
			ex.freeze(x.K[i], depth+1)
			ex.freeze(x.V[i], depth+1)
		}
	}
}

func (ex *Exec) freezeCell(c *Val, depth int) {
	switch x := (*c).(type) {
	case Struct:
		for i := range x {
			if !ex.frozenCells[&x[i]] {
				ex.frozenCells[&x[i]] = true
				ex.freezeCell(&x[i], depth+1)
			}
		}
	default:
		ex.freeze(x, depth)
	}
}

// ---------------------------------------------------------------- strings

// indexOf: first index >= from at which pat occurs in s; forks per position.
func (ex *Exec) indexOf(s Str, pat Str, from int) int {
	ex.needBytes(s, "substring search")
	ex.needBytes(pat, "substring search")
	n := len(pat.B)
	for i := from; i+n <= len(s.B); i++ {
		if ex.branch(ex.strEq(Str{B: s.B[i : i+n]}, pat)) {
			return i
		}
	}
	return -1
}

// strings.Contains; on a formatted string a concrete pattern without digits or
// minus cannot overlap a decimal segment, so the byte runs are searched one by one.
func mStringsContains(ex *Exec, args []Val) Val {
	s, pat := args[0].(Str), args[1].(Str)
	if !s.hasRope() {
		return Bool{C: ex.indexOf(s, pat, 0) >= 0}
	}
	p, ok := pat.conc()
	if !ok || len(p) == 0 {
		unsupported("substring search on a formatted (rope) string")
	}
	for i := 0; i < len(p); i++ {
		if (p[i] >= '0' && p[i] <= '9') || p[i] == '-' {
			unsupported("numeric substring search on a formatted (rope) string")
		}
	}
	var run []Int
	found := false
	flush := func() {
		if !found && len(run) >= len(p) && ex.indexOf(Str{B: run}, pat, 0) >= 0 {
			found = true
		}
		run = nil
	}
	for _, b := range s.B {
		switch b.W {
		case wOpaque:
			unsupported("substring search on an opaque formatted string")
		case wDec:
			flush()
		default:
			run = append(run, b)
		}
	}
	flush()
	return Bool{C: found}
}

func mStringsSplit(ex *Exec, args []Val) Val {
	s, sep := args[0].(Str), args[1].(Str)
	if len(sep.B) == 0 {
		unsupported("strings.Split with empty separator")
	}
	var out []Val
	start := 0
	for {
		i := ex.indexOf(s, sep, start)
		if i < 0 {
			break
		}
		out = append(out, Str{B: s.B[start:i]})
		start = i + len(sep.B)
	}
	out = append(out, Str{B: s.B[start:]})
	return newSlice(out)
}

func mStringsReplace(ex *Exec, args []Val) Val {
	s, old, nw := args[0].(Str), args[1].(Str), args[2].(Str)
	n := ex.concInt(args[3], "strings.Replace n")
	if len(old.B) == 0 {
		unsupported("strings.Replace with empty old")
	}
	var out []Int
	start := 0
	for n != 0 {
		i := ex.indexOf(s, old, start)
		if i < 0 {
			break
		}
		out = append(out, s.B[start:i]...)
		out = append(out, nw.B...)
		start = i + len(old.B)
		n--
	}
	out = append(out, s.B[start:]...)
	return Str{B: out}
}

func mStringsHasPrefix(ex *Exec, args []Val) Val {
	s, p := args[0].(Str), args[1].(Str)
	ex.needBytes(s, "HasPrefix")
	if len(p.B) > len(s.B) {
		return Bool{C: false}
	}
	return ex.strEq(Str{B: s.B[:len(p.B)]}, p)
}

func mStringsHasSuffix(ex *Exec, args []Val) Val {
	s, p := args[0].(Str), args[1].(Str)
	ex.needBytes(s, "HasSuffix")
	if len(p.B) > len(s.B) {
		return Bool{C: false}
	}
	return ex.strEq(Str{B: s.B[len(s.B)-len(p.B):]}, p)
}

func plainBytes(bs []Int) bool {
	for _, b := range bs {
		if b.W != 8 {
			return false
		}
	}
	return true
}

// TrimSuffix / TrimPrefix: only the compared end of s has to be plain bytes
func mStringsTrimSuffix(ex *Exec, args []Val) Val {
	s, p := args[0].(Str), args[1].(Str)
	ex.needBytes(p, "TrimSuffix")
	if len(p.B) > len(s.B) || len(p.B) == 0 {
		if len(p.B) > 0 {
			ex.needBytes(s, "TrimSuffix")
		}
		return s
	}
	tail := s.B[len(s.B)-len(p.B):]
	if !plainBytes(tail) {
		ex.needBytes(s, "TrimSuffix")
	}
	if ex.branch(ex.strEq(Str{B: tail}, p)) {
		return Str{B: s.B[:len(s.B)-len(p.B)]}
	}
	return s
}

func mStringsTrimPrefix(ex *Exec, args []Val) Val {
	s, p := args[0].(Str), args[1].(Str)
	ex.needBytes(p, "TrimPrefix")
	if len(p.B) > len(s.B) || len(p.B) == 0 {
		if len(p.B) > 0 {
			ex.needBytes(s, "TrimPrefix")
		}
		return s
	}
	head := s.B[:len(p.B)]
	if !plainBytes(head) {
		ex.needBytes(s, "TrimPrefix")
	}
	if ex.branch(ex.strEq(Str{B: head}, p)) {
		return Str{B: s.B[len(p.B):]}
	}
	return s
}

func (ex *Exec) byteIn(b Int, set string) bool {
	if b.T == nil {
		return strings.IndexByte(set, byte(b.C)) >= 0
	}
	var alts []*Term
	for i := 0; i < len(set); i++ {
		alts = append(alts, mkEq(b.T, mkConst(uint64(set[i]), 8)))
	}
	return ex.branch(mkBool(mkOr(alts...)))
}

func mStringsTrimSpace(ex *Exec, args []Val) Val {
	s := args[0].(Str)
	ex.needBytes(s, "TrimSpace")
	// ASCII white space; bytes >= 0x80 may start U+0085 / U+00A0 etc.
	lo, hi := 0, len(s.B)
	chk := func(b Int) bool {
		if b.T == nil && b.C >= 0x80 || b.T != nil && ex.branch(mkBool(mkCmp("bvuge", b.T, mkConst(0x80, 8)))) {
			if s.allConcrete() {
				return false
			}
			unsupported("TrimSpace on symbolic non-ASCII bytes")
		}
		return ex.byteIn(b, " \t\n\r\v\f")
	}
	if str, ok := s.conc(); ok {
		return cstr(strings.TrimSpace(str))
	}
	for lo < hi && chk(s.B[lo]) {
		lo++
	}
	for hi > lo && chk(s.B[hi-1]) {
		hi--
	}
	return Str{B: s.B[lo:hi]}
}

func mStringsTrimRight(ex *Exec, args []Val) Val {
	s := args[0].(Str)
	cut, ok := args[1].(Str).conc()
	if !ok {
		unsupported("TrimRight symbolic cutset")
	}
	for i := 0; i < len(cut); i++ {
		if cut[i] >= 0x80 {
			unsupported("TrimRight non-ASCII cutset")
		}
	}
	ex.needBytes(s, "TrimRight")
	hi := len(s.B)
	for hi > 0 && ex.byteIn(s.B[hi-1], cut) {
		hi--
	}
	return Str{B: s.B[:hi]}
}

func mStringsJoin(ex *Exec, args []Val) Val {
	sl, _ := args[0].(Slice)
	sep := args[1].(Str)
	var out []Int
	for i, e := range sl.elems() {
		if i > 0 {
			out = append(out, sep.B...)
		}
		out = append(out, e.(Str).B...)
	}
	return Str{B: out}
}

func mRuneCount(ex *Exec, args []Val) Val {
	s := args[0].(Str)
	ex.needBytes(s, "RuneCount")
	n := 0
	for pos := 0; pos < len(s.B); {
		_, w := ex.decodeRune(s.B[pos:])
		pos += w
		n++
	}
	return goInt(n)
}

// ---------------------------------------------------------------- buffers (strings.Builder, bytes.Buffer)

func bufCell(ex *Exec, v Val) *Val {
	p, ok := v.(Ptr)
	if !ok || p.P == nil {
		ex.gopanic("nil-deref", "nil buffer")
	}
	st := (*p.P).(Struct)
	return &st[0]
}

func mBufWriteString(ex *Exec, args []Val) Val {
	c := bufCell(ex, args[0])
	cur, _ := (*c).(Str)
	add := args[1].(Str)
	*c = concatStr(cur, add)
	return Tuple{goInt(len(add.B)), nil}
}

func mBufWriteBytes(ex *Exec, args []Val) Val {
	c := bufCell(ex, args[0])
	cur, _ := (*c).(Str)
	bs, _ := args[1].(Slice)
	nb := append([]Int{}, cur.B...)
	for _, b := range bs.elems() {
		nb = append(nb, b.(Int))
	}
	*c = Str{B: nb}
	return Tuple{goInt(bs.Len), nil}
}

func mBufWriteByte(ex *Exec, args []Val) Val {
	c := bufCell(ex, args[0])
	cur, _ := (*c).(Str)
	*c = concatStr(cur, Str{B: []Int{args[1].(Int)}})
	return nil
}

func mBufWriteRune(ex *Exec, args []Val) Val {
	c := bufCell(ex, args[0])
	cur, _ := (*c).(Str)
	s := ex.runeToString(args[1].(Int))
	*c = concatStr(cur, s)
	return Tuple{goInt(len(s.B)), nil}
}

func mBufString(ex *Exec, args []Val) Val {
	p, ok := args[0].(Ptr)
	if !ok || p.P == nil {
		return cstr("<nil>")
	}
	cur, _ := (*bufCell(ex, args[0])).(Str)
	return cur
}

func mBufLen(ex *Exec, args []Val) Val {
	cur, _ := (*bufCell(ex, args[0])).(Str)
	ex.needBytes(cur, "buffer Len")
	return goInt(len(cur.B))
}

// mBufCap: the capacity is not modelled; what is returned is the number of pieces held
// (a lower bound of the length), which keeps "drop the buffer if it grew large"
// tests on the small side
func mBufCap(ex *Exec, args []Val) Val {
	cur, _ := (*bufCell(ex, args[0])).(Str)
	return goInt(len(cur.B))
}

func mBufReset(ex *Exec, args []Val) Val {
	*bufCell(ex, args[0]) = Str{}
	return nil
}

// ---------------------------------------------------------------- fmt

func (ex *Exec) opaque() Int {
	ex.opaqueN++
	return Int{W: wOpaque, C: ex.opaqueN}
}

// decStr: decimal form of an integer.
func (ex *Exec) decStr(i Int) Str {
	if i.T == nil {
		if i.S {
			return cstr(strconv.FormatInt(i.signed(), 10))
		}
		return cstr(strconv.FormatUint(i.C, 10))
	}
	t := i.T
	switch {
	case i.W == 64 && !i.S:
		return Str{B: []Int{ex.opaque()}}
	case i.W < 64 && i.S:
		t = mkSext(t, 64)
	case i.W < 64:
		t = mkZext(t, 64)
	}
	return Str{B: []Int{{W: wDec, T: t}}}
}

func (ex *Exec) lookupMethod(t types.Type, name string) *ssa.Function {
	ms := ex.w.prog.MethodSets.MethodSet(t)
	for i := 0; i < ms.Len(); i++ {
		sel := ms.At(i)
		if sel.Obj().Name() == name {
			return ex.w.prog.MethodValue(sel)
		}
	}
	return nil
}

func isErrorOrStringerSig(fn *ssa.Function) bool {
	sig := fn.Signature
	if sig.Params().Len() != 0 || sig.Results().Len() != 1 {
		return false
	}
	b, ok := sig.Results().At(0).Type().Underlying().(*types.Basic)
	return ok && b.Kind() == types.String
}

// formatVal renders v for verb ('v','s','d','q','T','w','+' for %+v).
func (ex *Exec) formatVal(v Val, verb byte, plus bool, depth int) Str {
	if verb == 'T' {
		if ifc, ok := v.(Iface); ok {
			if _, isRT := ifc.V.(RT); isRT {
				return cstr("*reflect.rtype")
			}
			return cstr(typeString(ifc.T))
		}
		if v == nil {
			return cstr("<nil>")
		}
		return cstr(fmt.Sprintf("%T?", v))
	}
	var dyn types.Type
	if ifc, ok := v.(Iface); ok {
		dyn = ifc.T
		v = ifc.V
		if verb != 'd' && depth < 8 {
			if rt, ok := v.(RT); ok {
				if rt.T == nil {
					return cstr("<nil>")
				}
				return cstr(typeString(rt.T))
			}
			// error / Stringer
			if p, isP := v.(Ptr); !(isP && p.P == nil) {
				for _, m := range []string{"Error", "String"} {
					if fn := ex.lookupMethod(dyn, m); fn != nil && isErrorOrStringerSig(fn) {
						r := ex.call(fn, []Val{v}, nil)
						return ex.formatVal(r, verb, false, depth+1)
					}
				}
			} else {
				for _, m := range []string{"Error", "String"} {
					if fn := ex.lookupMethod(dyn, m); fn != nil && isErrorOrStringerSig(fn) {
						return cstr("<nil>")
					}
				}
			}
		}
	}
	switch x := v.(type) {
	case nil:
		switch verb {
		case 'v', 'w':
			return cstr("<nil>")
		}
		return cstr("%!" + string(verb) + "(<nil>)")
	case Int:
		switch verb {
		case 'v', 'd', 'w':
			return ex.decStr(x)
		case 's', 'q':
			if x.T == nil {
				return cstr(fmt.Sprintf("%%!%c(%s=%d)", verb, typeStringOr(dyn, "int"), x.signed()))
			}
		}
		return Str{B: []Int{ex.opaque()}}
	case Str:
		switch verb {
		case 'v', 's', 'w':
			return x
		case 'q':
			if s, ok := x.conc(); ok {
				return cstr(strconv.Quote(s))
			}
			return ex.quoteSym(x)
		case 'd':
			if s, ok := x.conc(); ok {
				return cstr(fmt.Sprintf("%d", s))
			}
		}
		return Str{B: []Int{ex.opaque()}}
	case Bool:
		if verb == 'v' || verb == 't' || verb == 'w' {
			if ex.branch(x) {
				return cstr("true")
			}
			return cstr("false")
		}
		if ex.branch(x) {
			return cstr("%!" + string(verb) + "(bool=true)")
		}
		return cstr("%!" + string(verb) + "(bool=false)")
	case Float:
		if verb == 'v' || verb == 'w' {
			bits := 64
			if x.W == 32 {
				bits = 32
			}
			return cstr(strconv.FormatFloat(x.V, 'g', -1, bits))
		}
		return cstr(fmt.Sprintf("%"+string(verb), x.V))
	case Slice:
		if dyn != nil {
			if st, ok := dyn.Underlying().(*types.Slice); ok {
				if b, ok := st.Elem().Underlying().(*types.Basic); ok && b.Kind() == types.Uint8 && (verb == 's' || verb == 'q') {
					var bs []Int
					for _, e := range x.elems() {
						bs = append(bs, e.(Int))
					}
					return ex.formatVal(Str{B: bs}, verb, plus, depth+1)
				}
			}
		}
		if x.A == nil && (verb == 'v' || verb == 'w' || verb == 's' || verb == 'd') {
			return cstr("[]")
		}
		out := cstr("[")
		for i, e := range x.elems() {
			if i > 0 {
				out = concatStr(out, cstr(" "))
			}
			out = concatStr(out, ex.formatVal(e, verb, plus, depth+1))
		}
		return concatStr(out, cstr("]"))
	case *MapObj:
		if x == nil {
			return cstr("map[]")
		}
		// fmt sorts keys; only handle concrete string / int keys
		type kv struct {
			k string
			i int
		}
		var ks []kv
		for i, k := range x.K {
			kk := k
			if ifc, ok := kk.(Iface); ok {
				kk = ifc.V
			}
			switch y := kk.(type) {
			case Str:
				s, ok := y.conc()
				if !ok {
					return Str{B: []Int{ex.opaque()}}
				}
				ks = append(ks, kv{s, i})
			default:
				if len(x.K) > 1 {
					return Str{B: []Int{ex.opaque()}}
				}
				ks = append(ks, kv{"", i})
			}
		}
		sort.Slice(ks, func(a, b int) bool { return ks[a].k < ks[b].k })
		out := cstr("map[")
		for n, e := range ks {
			if n > 0 {
				out = concatStr(out, cstr(" "))
			}
			out = concatStr(out, ex.formatVal(x.K[e.i], verb, plus, depth+1))
			out = concatStr(out, cstr(":"))
			out = concatStr(out, ex.formatVal(x.V[e.i], verb, plus, depth+1))
		}
		return concatStr(out, cstr("]"))
	case Struct:
		var st *types.Struct
		isArr := false
		if dyn != nil {
			switch u := dyn.Underlying().(type) {
			case *types.Struct:
				st = u
			case *types.Array:
				isArr = true
			}
		}
		open, cl := "{", "}"
		if isArr {
			open, cl = "[", "]"
		}
		out := cstr(open)
		for i, e := range x {
			if i > 0 {
				out = concatStr(out, cstr(" "))
			}
			if plus && st != nil {
				out = concatStr(out, cstr(st.Field(i).Name()+":"))
			}
			var ft types.Type
			if st != nil {
				ft = st.Field(i).Type()
			}
			out = concatStr(out, ex.formatVal(wrapIf(e, ft), verb, plus, depth+1))
		}
		return concatStr(out, cstr(cl))
	case Ptr:
		if x.P == nil {
			return cstr("<nil>")
		}
		if depth == 0 {
			if s, ok := (*x.P).(Struct); ok {
				var et types.Type
				if dyn != nil {
					if pt, ok := dyn.Underlying().(*types.Pointer); ok {
						et = pt.Elem()
					}
				}
				return concatStr(cstr("&"), ex.formatVal(wrapIf(s, et), verb, plus, depth+1))
			}
		}
		return Str{B: []Int{ex.opaque()}}
	case RV:
		if x.T == nil {
			return cstr("<invalid reflect.Value>")
		}
		return ex.formatVal(Iface{T: x.T, V: x.V}, verb, plus, depth+1)
	}
	return Str{B: []Int{ex.opaque()}}
}

func typeStringOr(t types.Type, def string) string {
	if t == nil {
		return def
	}
	return typeString(t)
}

// wrapIf gives a value its static type back (for nested formatting).
func wrapIf(v Val, t types.Type) Val {
	if t == nil {
		return v
	}
	if _, ok := t.Underlying().(*types.Interface); ok {
		return v
	}
	if _, ok := v.(Iface); ok {
		return v
	}
	return Iface{T: t, V: v}
}

// quoteSym: %q of a string with symbolic bytes: fork each byte on "plain
// printable ASCII other than quote and backslash"; anything else is opaque.
func (ex *Exec) quoteSym(s Str) Str {
	ex.needBytes(s, "%q")
	out := []Int{cbyte('"')}
	for _, b := range s.B {
		if b.T == nil {
			q := strconv.Quote(string([]byte{byte(b.C)}))
			if b.C >= 0x80 {
				return Str{B: []Int{ex.opaque()}}
			}
			out = append(out, cstr(q[1:len(q)-1]).B...)
			continue
		}
		plain := mkAnd(mkCmp("bvuge", b.T, mkConst(0x20, 8)), mkCmp("bvule", b.T, mkConst(0x7e, 8)),
			mkNot(mkEq(b.T, mkConst('"', 8))), mkNot(mkEq(b.T, mkConst('\\', 8))))
		if ex.branch(mkBool(plain)) {
			out = append(out, b)
		} else {
			return Str{B: []Int{ex.opaque()}}
		}
	}
	out = append(out, cbyte('"'))
	return Str{B: out}
}

// sprintf returns the formatted string and the index of the %w operand (-1).
func (ex *Exec) sprintf(format Str, va Val) (Str, int) {
	f, ok := format.conc()
	if !ok {
		unsupported("symbolic format string")
	}
	var argv []Val
	if sl, ok := va.(Slice); ok {
		argv = sl.elems()
	}
	// flags, widths and verbs the model does not implement: format natively when every operand is concrete
	if fancyFormat(f) {
		if nat, ok := nativeOperands(argv); ok {
			return cstr(fmt.Sprintf(f, nat...)), -1
		}
	}
	var out []Int
	ai, wIdx := 0, -1
	for i := 0; i < len(f); i++ {
		if f[i] != '%' {
			out = append(out, cbyte(f[i]))
			continue
		}
		i++
		if i >= len(f) {
			out = append(out, cstr("%!(NOVERB)").B...)
			break
		}
		plus := false
		for i < len(f) && (f[i] == '+' || f[i] == '#' || f[i] == '-' || f[i] == ' ' || f[i] == '0') {
			if f[i] == '+' {
				plus = true
			} else {
				unsupported("fmt flag %c", f[i])
			}
			i++
		}
		if i < len(f) && f[i] >= '1' && f[i] <= '9' {
			unsupported("fmt width")
		}
		verb := f[i]
		if verb == '%' {
			out = append(out, cbyte('%'))
			continue
		}
		if ai >= len(argv) {
			out = append(out, cstr("%!"+string(verb)+"(MISSING)").B...)
			continue
		}
		a := argv[ai]
		if verb == 'w' {
			wIdx = ai
		}
		ai++
		switch verb {
		case 'v', 's', 'd', 'q', 'T', 'w', 't':
			out = append(out, ex.formatVal(a, verb, plus, 0).B...)
		default:
			out = append(out, ex.opaque())
		}
	}
	if ai < len(argv) {
		out = append(out, ex.opaque()) // %!(EXTRA ...)
	}
	return Str{B: out}, wIdx
}

func fancyFormat(f string) bool {
	for i := 0; i+1 < len(f); i++ {
		if f[i] != '%' {
			continue
		}
		i++
		switch f[i] {
		case 'v', 's', 'd', 'q', 'T', 'w', 't', '%':
		case '+':
			if i+1 < len(f) && f[i+1] == 'v' {
				i++
				continue
			}
			return true
		default:
			return true
		}
	}
	return false
}

func nativeOperands(argv []Val) ([]interface{}, bool) {
	out := make([]interface{}, len(argv))
	for i, a := range argv {
		if ifc, ok := a.(Iface); ok {
			if _, isB := ifc.T.Underlying().(*types.Basic); !isB {
				return nil, false
			}
			a = ifc.V
		}
		switch x := a.(type) {
		case Int:
			if x.T != nil || x.W >= wDec {
				return nil, false
			}
			if x.S {
				out[i] = int(x.signed())
			} else {
				out[i] = uint(x.C)
			}
		case Str:
			s, ok := x.conc()
			if !ok {
				return nil, false
			}
			out[i] = s
		case Bool:
			if x.T != nil {
				return nil, false
			}
			out[i] = x.C
		case Float:
			if x.U {
				return nil, false
			}
			out[i] = x.V
		default:
			return nil, false
		}
	}
	return out, true
}

func (ex *Exec) sprintArgs(va Val, spaces bool) Str {
	sl, _ := va.(Slice)
	var out Str
	prevStr := false
	for i, a := range sl.elems() {
		isStr := false
		if ifc, ok := a.(Iface); ok {
			_, isStr = ifc.V.(Str)
			if isStr {
				if fn := ex.lookupMethod(ifc.T, "String"); fn != nil {
					isStr = false
				}
			}
		}
		if i > 0 && (spaces || (!isStr && !prevStr)) {
			out = concatStr(out, cstr(" "))
		}
		out = concatStr(out, ex.formatVal(a, 'v', false, 0))
		prevStr = isStr
	}
	return out
}

func mSprint(ex *Exec, args []Val) Val { return ex.sprintArgs(args[0], false) }

func (ex *Exec) namedPtr(pkg, name string) types.Type {
	if ex.w.prog == nil { // selftest: no program loaded
		return types.Universe.Lookup("error").Type()
	}
	p := ex.w.prog.ImportedPackage(pkg)
	if p == nil {
		unsupported("package %s not loaded", pkg)
	}
	return types.NewPointer(p.Type(name).Type())
}

func (ex *Exec) newError(msg Str) Val {
	var cell Val = Struct{msg}
	return Iface{T: ex.namedPtr("errors", "errorString"), V: Ptr{&cell}}
}

func mErrorf(ex *Exec, args []Val) Val {
	s, wi := ex.sprintf(args[0].(Str), args[1])
	if wi < 0 {
		return ex.newError(s)
	}
	w := args[1].(Slice).elems()[wi]
	var inner Val
	if ifc, ok := w.(Iface); ok && types.Implements(ifc.T, ex.w.errorT.Underlying().(*types.Interface)) {
		inner = ifc
	}
	var cell Val = Struct{s, inner}
	return Iface{T: ex.namedPtr("fmt", "wrapError"), V: Ptr{&cell}}
}

func (ex *Exec) unwrapOnce(err Val) (Val, []Val, bool) {
	ifc, ok := err.(Iface)
	if !ok {
		return nil, nil, false
	}
	fn := ex.lookupMethod(ifc.T, "Unwrap")
	if fn == nil || fn.Signature.Params().Len() != 0 || fn.Signature.Results().Len() != 1 {
		return nil, nil, false
	}
	r := ex.call(fn, []Val{ifc.V}, nil)
	if sl, ok := r.(Slice); ok {
		return nil, sl.elems(), true
	}
	return r, nil, true
}

func (ex *Exec) errorsIs(err, target Val, depth int) bool {
	if depth > 32 {
		unsupported("errors.Is chain too deep")
	}
	if err == nil || target == nil {
		return err == nil && target == nil
	}
	comparable := false
	if t, ok := target.(Iface); ok {
		comparable = types.Comparable(t.T)
	}
	for err != nil {
		if comparable {
			if ex.branch(ex.valEq(err, target)) {
				return true
			}
		}
		if ifc, ok := err.(Iface); ok {
			if fn := ex.lookupMethod(ifc.T, "Is"); fn != nil && fn.Signature.Params().Len() == 1 {
				if r, ok := ex.call(fn, []Val{ifc.V, target}, nil).(Bool); ok && ex.branch(r) {
					return true
				}
			}
		}
		one, many, ok := ex.unwrapOnce(err)
		if !ok {
			return false
		}
		if many != nil {
			for _, e := range many {
				if ex.errorsIs(e, target, depth+1) {
					return true
				}
			}
			return false
		}
		err = one
	}
	return false
}

func (ex *Exec) errorsAs(err, target Val, depth int) bool {
	tifc, ok := target.(Iface)
	if !ok {
		ex.gopanic("explicit", "errors: target cannot be nil")
	}
	pt, ok := tifc.T.Underlying().(*types.Pointer)
	tp, _ := tifc.V.(Ptr)
	if !ok || tp.P == nil {
		ex.gopanic("explicit", "errors: target must be a non-nil pointer")
	}
	tt := pt.Elem()
	for err != nil && depth < 32 {
		ifc, ok := err.(Iface)
		if !ok {
			return false
		}
		if it, isI := tt.Underlying().(*types.Interface); isI {
			if types.Implements(ifc.T, it) {
				storeInto(tp.P, ifc)
				return true
			}
		} else if types.Identical(ifc.T, tt) {
			storeInto(tp.P, ifc.V)
			return true
		}
		if fn := ex.lookupMethod(ifc.T, "As"); fn != nil && fn.Signature.Params().Len() == 1 {
			if r, ok := ex.call(fn, []Val{ifc.V, target}, nil).(Bool); ok && ex.branch(r) {
				return true
			}
		}
		one, many, ok := ex.unwrapOnce(err)
		if !ok {
			return false
		}
		if many != nil {
			for _, e := range many {
				if ex.errorsAs(e, target, depth+1) {
					return true
				}
			}
			return false
		}
		err = one
		depth++
	}
	return false
}

func mErrorsJoin(ex *Exec, args []Val) Val {
	sl, _ := args[0].(Slice)
	var errs []Val
	for _, e := range sl.elems() {
		if e != nil {
			errs = append(errs, e)
		}
	}
	if len(errs) == 0 {
		return nil
	}
	var cell Val = Struct{newSlice(errs)}
	return Iface{T: ex.namedPtr("errors", "joinError"), V: Ptr{&cell}}
}

func mJoinErrorError(ex *Exec, args []Val) Val {
	p := args[0].(Ptr)
	st := (*p.P).(Struct)
	out := Str{}
	for i, e := range st[0].(Slice).elems() {
		if i > 0 {
			out = concatStr(out, cstr("\n"))
		}
		out = concatStr(out, ex.formatVal(e, 'v', false, 1))
	}
	return out
}

func mErrorsUnwrap(ex *Exec, args []Val) Val {
	one, many, ok := ex.unwrapOnce(args[0])
	if !ok || many != nil {
		return nil
	}
	return one
}

// ---------------------------------------------------------------- strconv

func (ex *Exec) strconvErr(fn, s, msg string) Val {
	return ex.newError(cstr("strconv." + fn + ": parsing " + strconv.Quote(s) + ": " + msg))
}

func mAtoi(ex *Exec, args []Val) Val {
	s := args[0].(Str)
	ex.needBytes(s, "Atoi")
	if str, ok := s.conc(); ok {
		v, err := strconv.Atoi(str)
		if err != nil {
			return Tuple{goInt(0), ex.newError(cstr(err.Error()))}
		}
		return Tuple{goInt(v), nil}
	}
	// symbolic digits: sign, then digits; fork on digit class per byte
	fail := func() Val { return Tuple{goInt(0), ex.newError(Str{B: []Int{ex.opaque()}})} }
	b := s.B
	if len(b) == 0 {
		return fail()
	}
	neg := false
	isB := func(x Int, c byte) bool { return ex.branch(ex.intBinop(token.EQL, x, cbyte(c)).(Bool)) }
	if isB(b[0], '-') {
		neg = true
		b = b[1:]
	} else if isB(b[0], '+') {
		b = b[1:]
	}
	if len(b) == 0 {
		return fail()
	}
	if len(b) > 18 {
		unsupported("Atoi on more than 18 symbolic digits")
	}
	acc := mkConst(0, 64)
	for _, d := range b {
		isDigit := mkAnd(mkCmp("bvuge", d.term(), mkConst('0', 8)), mkCmp("bvule", d.term(), mkConst('9', 8)))
		if !ex.branch(mkBool(isDigit)) {
			// Atoi also accepts '_' only with base prefix: plain syntax error
			return fail()
		}
		dv := mkZext(mkBV("bvsub", d.term(), mkConst('0', 8)), 64)
		acc = mkBV("bvadd", mkBV("bvmul", acc, mkConst(10, 64)), dv)
	}
	if neg {
		acc = mkNeg(acc)
	}
	return Tuple{mkInt(acc, 64, true), nil}
}

func mParseFloat(ex *Exec, args []Val) Val {
	s, ok := args[0].(Str).conc()
	if !ok {
		// symbolic digits: strings over [0-9.] only (what plush's lexer produces);
		// valid iff at most one dot and at least one digit; the value is unknown
		str := args[0].(Str)
		ex.needBytes(str, "ParseFloat")
		dots, digits := 0, 0
		for _, b := range str.B {
			if ex.byteIn(b, ".") {
				dots++
			} else if ex.byteIn(b, "0123456789") {
				digits++
			} else {
				unsupported("ParseFloat on symbolic non-numeric bytes")
			}
		}
		if dots > 1 || digits == 0 {
			return Tuple{Float{W: 64}, ex.newError(Str{B: []Int{ex.opaque()}})}
		}
		return Tuple{Float{W: 64, U: true}, nil}
	}
	bits := ex.concInt(args[1], "ParseFloat bits")
	v, err := strconv.ParseFloat(s, bits)
	if err != nil {
		return Tuple{Float{V: v, W: 64}, ex.newError(cstr(err.Error()))}
	}
	return Tuple{Float{V: v, W: 64}, nil}
}

// ---------------------------------------------------------------- sync, context

func mLock(ex *Exec, args []Val) Val {
	p := args[0].(Ptr)
	if p.P == nil {
		ex.gopanic("nil-deref", "Lock on nil mutex")
	}
	if ex.locks == nil {
		ex.locks = map[*Val]bool{}
	}
	if ex.locks[p.P] {
		ex.gopanic("deadlock", "Lock on a mutex already held by this goroutine")
	}
	ex.locks[p.P] = true
	ex.logLock(p.P, true)
	return nil
}

func mUnlock(ex *Exec, args []Val) Val {
	p := args[0].(Ptr)
	if p.P == nil {
		ex.gopanic("nil-deref", "Unlock on nil mutex")
	}
	if !ex.locks[p.P] {
		ex.gopanic("explicit", "sync: unlock of unlocked mutex")
	}
	delete(ex.locks, p.P)
	ex.logLock(p.P, false)
	return nil
}

// sync.Map: an ordered entry list per map value (keyed by the address of the
// sync.Map), every operation atomic: its accesses are not logged as accesses of
// a thread (C14), exactly as accesses under a held mutex would not conflict.
func (ex *Exec) syncMap(a Val) *MapObj {
	p := a.(Ptr)
	if p.P == nil {
		ex.gopanic("nil-deref", "method call on a nil *sync.Map")
	}
	if ex.syncMaps == nil {
		ex.syncMaps = map[*Val]*MapObj{}
	}
	m := ex.syncMaps[p.P]
	if m == nil {
		m = &MapObj{}
		ex.syncMaps[p.P] = m
	}
	return m
}

func (ex *Exec) quietly(f func()) {
	if ex.par != nil {
		t := ex.par.thread
		ex.par.thread = 0
		defer func() { ex.par.thread = t }()
	}
	f()
}

func mSyncMapLoad(ex *Exec, args []Val) (ret Val) {
	m := ex.syncMap(args[0])
	ex.quietly(func() {
		if i := ex.mapFind(m, args[1]); i >= 0 {
			ret = Tuple{copyVal(m.V[i]), Bool{C: true}}
		} else {
			ret = Tuple{nil, Bool{C: false}}
		}
	})
	return
}

func mSyncMapStore(ex *Exec, args []Val) Val {
	m := ex.syncMap(args[0])
	ex.quietly(func() { ex.mapSet(m, args[1], args[2]) })
	return nil
}

func mSyncMapLoadOrStore(ex *Exec, args []Val) (ret Val) {
	m := ex.syncMap(args[0])
	ex.quietly(func() {
		if i := ex.mapFind(m, args[1]); i >= 0 {
			ret = Tuple{copyVal(m.V[i]), Bool{C: true}}
		} else {
			ex.mapSet(m, args[1], args[2])
			ret = Tuple{copyVal(args[2]), Bool{C: false}}
		}
	})
	return
}

func mSyncMapLoadAndDelete(ex *Exec, args []Val) (ret Val) {
	m := ex.syncMap(args[0])
	ex.quietly(func() {
		if i := ex.mapFind(m, args[1]); i >= 0 {
			ret = Tuple{copyVal(m.V[i]), Bool{C: true}}
			ex.mapDelete(m, args[1])
		} else {
			ret = Tuple{nil, Bool{C: false}}
		}
	})
	return
}

func mSyncMapDelete(ex *Exec, args []Val) Val {
	m := ex.syncMap(args[0])
	ex.quietly(func() { ex.mapDelete(m, args[1]) })
	return nil
}

func mSyncMapRange(ex *Exec, args []Val) Val {
	m := ex.syncMap(args[0])
	f := args[1].(Closure)
	ks, vs := append([]Val{}, m.K...), append([]Val{}, m.V...)
	for i := range ks {
		r := ex.callClosure(f, []Val{copyVal(ks[i]), copyVal(vs[i])})
		if b, ok := r.(Bool); ok && !ex.branch(b) {
			break
		}
	}
	return nil
}

func mCtxBackground(ex *Exec, args []Val) Val {
	p := ex.w.prog.ImportedPackage("context")
	t := p.Type("backgroundCtx").Type()
	return Iface{T: t, V: ex.zero(t)}
}

// ---------------------------------------------------------------- escapers

// htmlEscape: html/template.HTMLEscapeString (validated against the stdlib by selftest).
func (ex *Exec) htmlEscape(s Str) Str {
	if s.hasRope() {
		// decimal segments contain no special characters
		for _, b := range s.B {
			if b.W == wOpaque {
				unsupported("HTML escaping of an opaque formatted string")
			}
		}
	}
	var out []Int
	for _, b := range s.B {
		if b.W != 8 {
			out = append(out, b)
			continue
		}
		if b.T == nil {
			switch byte(b.C) {
			case 0:
				out = append(out, cstr("�").B...)
			case '"':
				out = append(out, cstr("&#34;").B...)
			case '\'':
				out = append(out, cstr("&#39;").B...)
			case '&':
				out = append(out, cstr("&amp;").B...)
			case '<':
				out = append(out, cstr("&lt;").B...)
			case '>':
				out = append(out, cstr("&gt;").B...)
			default:
				out = append(out, b)
			}
			continue
		}
		done := false
		for _, e := range [][2]string{{"<", "&lt;"}, {">", "&gt;"}, {"&", "&amp;"}, {"'", "&#39;"}, {"\"", "&#34;"}, {"\x00", "�"}} {
			if ex.branch(mkBool(mkEq(b.T, mkConst(uint64(e[0][0]), 8)))) {
				out = append(out, cstr(e[1]).B...)
				done = true
				break
			}
		}
		if !done {
			out = append(out, b)
		}
	}
	return Str{B: out}
}

func mHTMLEscaper(ex *Exec, args []Val) Val {
	va, _ := args[0].(Slice)
	el := va.elems()
	if len(el) == 1 {
		if ifc, ok := el[0].(Iface); ok {
			if s, ok := ifc.V.(Str); ok && kindOf(ifc.T) == kString {
				if b, isB := ifc.T.(*types.Basic); isB && b.Kind() == types.String {
					return ex.htmlEscape(s)
				}
				// named string types: fmt.Sprint gives the same bytes unless they
				// have String/Error methods (handled by sprintArgs)
			}
		}
	}
	// evalArgs: indirectToStringerOrError + fmt.Sprint
	for i, a := range el {
		if ifc, ok := a.(Iface); ok {
			if p, isP := ifc.V.(Ptr); isP && p.P != nil {
				if ex.lookupMethod(ifc.T, "String") == nil && ex.lookupMethod(ifc.T, "Error") == nil {
					if pt, ok := ifc.T.Underlying().(*types.Pointer); ok {
						el[i] = Iface{T: pt.Elem(), V: copyVal(*p.P)}
					}
				}
			}
		}
	}
	return ex.htmlEscape(ex.sprintArgs(newSlice(el), false))
}

// jsEscape: text/template.JSEscapeString.
func (ex *Exec) jsEscape(s Str) Str {
	ex.needBytes(s, "JS escaping")
	if str, ok := s.conc(); ok {
		return cstr(jsEscapeNative(str))
	}
	var out []Int
	hex := "0123456789ABCDEF"
	for pos := 0; pos < len(s.B); {
		b := s.B[pos]
		if b.T == nil && b.C >= 0x80 || b.T != nil && ex.branch(mkBool(mkCmp("bvuge", b.T, mkConst(0x80, 8)))) {
			// multi-byte rune: concrete tail only
			r, w := ex.decodeRune(s.B[pos:])
			if r.T != nil {
				unsupported("JS escaping of symbolic non-ASCII runes")
			}
			rr := rune(r.signed())
			if rr == 0xFFFD && w == 1 {
				out = append(out, cstr("\\uFFFD").B...)
			} else if unicode.IsPrint(rr) {
				out = append(out, s.B[pos:pos+w]...)
			} else {
				out = append(out, cstr(fmt.Sprintf("\\u%04X", rr)).B...)
			}
			pos += w
			continue
		}
		pos++
		if b.T == nil {
			out = append(out, cstr(jsEscapeNative(string([]byte{byte(b.C)}))).B...)
			continue
		}
		done := false
		for _, e := range [][2]string{{"\\", "\\\\"}, {"'", "\\'"}, {"\"", "\\\""}, {"<", "\\u003C"}, {">", "\\u003E"}, {"&", "\\u0026"}, {"=", "\\u003D"}} {
			if ex.branch(mkBool(mkEq(b.T, mkConst(uint64(e[0][0]), 8)))) {
				out = append(out, cstr(e[1]).B...)
				done = true
				break
			}
		}
		if done {
			continue
		}
		if ex.branch(mkBool(mkCmp("bvult", b.T, mkConst(0x20, 8)))) {
			// \u00XX with symbolic hex digits
			hi := ex.concretize(mkInt(mkBV("bvlshr", b.T, mkConst(4, 8)), 8, false), 0, 1)
			lo := ex.concretize(mkInt(mkBV("bvand", b.T, mkConst(15, 8)), 8, false), 0, 15)
			out = append(out, cstr("\\u00"+string(hex[hi])+string(hex[lo])).B...)
			continue
		}
		out = append(out, b)
	}
	return Str{B: out}
}

// unicode.Is(table, r) / unicode.In(r, tables...) on concrete runes; tables are StdRef values
func mUnicodeIs(ex *Exec, args []Val) Val {
	var tabs []Val
	var r Int
	if i, ok := args[0].(Int); ok { // unicode.In(r, tables...)
		r = i
		sl, _ := args[1].(Slice)
		tabs = sl.elems()
	} else {
		tabs = []Val{args[0]}
		r = args[1].(Int)
	}
	if r.T != nil {
		unsupported("unicode.Is on a symbolic rune")
	}
	for _, t := range tabs {
		ref, ok := t.(StdRef)
		if !ok {
			unsupported("unicode.Is with a table the engine does not know")
		}
		name := strings.TrimPrefix(ref.Name, "unicode.")
		tab := unicode.Categories[name]
		if tab == nil {
			tab = unicode.Scripts[name]
		}
		if tab == nil {
			tab = unicode.Properties[name]
		}
		if tab == nil {
			switch name {
			case "Letter":
				tab = unicode.L
			case "Mark":
				tab = unicode.M
			case "Number":
				tab = unicode.N
			case "Punct":
				tab = unicode.P
			case "Symbol":
				tab = unicode.S
			case "Space":
				tab = unicode.Z
			case "Digit":
				tab = unicode.Nd
			case "Upper":
				tab = unicode.Lu
			case "Lower":
				tab = unicode.Ll
			default:
				unsupported("unicode table %s", ref.Name)
			}
		}
		if unicode.Is(tab, rune(r.signed())) {
			return Bool{C: true}
		}
	}
	return Bool{C: false}
}

// ---------------------------------------------------------------- sort (stable insertion sort, in place)

func (ex *Exec) sortInPlace(sl Slice, less func(i, j int) bool) {
	for i := 1; i < sl.Len; i++ {
		for j := i; j > 0; j-- {
			if !less(j, j-1) {
				break
			}
			a, b := sl.at(j), sl.at(j-1)
			ex.checkFrozenPtr(a)
			ex.checkFrozenPtr(b)
			*a, *b = *b, *a
		}
	}
}

func mSortSlice(ex *Exec, args []Val) Val {
	ifc, ok := args[0].(Iface)
	if !ok {
		ex.gopanic("reflect", "reflect: call of Swapper on zero Value")
	}
	sl, ok := ifc.V.(Slice)
	if !ok {
		ex.gopanic("reflect", "reflect: call of Swapper on non-slice Value")
	}
	cl := args[1].(Closure)
	ex.sortInPlace(sl, func(i, j int) bool {
		return ex.branch(ex.callClosure(cl, []Val{goInt(i), goInt(j)}).(Bool))
	})
	return nil
}

// sort.Search: binary search exactly as the library does it (the predicate is
// called on the same indexes), so a predicate that is not monotone gets the
// library's answer too.
func (ex *Exec) binSearch(n int, pred func(i int) bool) int {
	i, j := 0, n
	for i < j {
		h := int(uint(i+j) >> 1)
		if !pred(h) {
			i = h + 1
		} else {
			j = h
		}
	}
	return i
}

func mSortSearch(ex *Exec, args []Val) Val {
	n := ex.concInt(args[0], "sort.Search n")
	cl := args[1].(Closure)
	return goInt(ex.binSearch(n, func(i int) bool {
		return ex.branch(ex.callClosure(cl, []Val{goInt(i)}).(Bool))
	}))
}

func mSortSearchInts(ex *Exec, args []Val) Val {
	sl, _ := args[0].(Slice)
	x := args[1].(Int)
	return goInt(ex.binSearch(sl.Len, func(i int) bool {
		return ex.branch(ex.intBinop(token.GEQ, (*sl.at(i)).(Int), x).(Bool))
	}))
}

// strings.Replacer: the pairs are kept; Replace scans left to right and at each
// position takes the first pair (in argument order) whose old string matches.
type replacerModel struct{ pairs [][2]Str }

func mNewReplacer(ex *Exec, args []Val) Val {
	sl, _ := args[0].(Slice)
	el := sl.elems()
	if len(el)%2 == 1 {
		ex.gopanic("explicit", "strings.NewReplacer: odd argument count")
	}
	m := &replacerModel{}
	for i := 0; i+1 < len(el); i += 2 {
		o, n := el[i].(Str), el[i+1].(Str)
		ex.needBytes(o, "NewReplacer")
		if len(o.B) == 0 {
			unsupported("strings.NewReplacer with an empty old string")
		}
		m.pairs = append(m.pairs, [2]Str{o, n})
	}
	var cell Val = Native{V: m}
	return Ptr{P: &cell}
}

func mReplacerReplace(ex *Exec, args []Val) Val {
	p := args[0].(Ptr)
	if p.P == nil {
		ex.gopanic("nil-deref", "Replace on a nil *strings.Replacer")
	}
	nv, ok := (*p.P).(Native)
	if !ok {
		unsupported("strings.Replacer that was not made by NewReplacer")
	}
	m := nv.V.(*replacerModel)
	s := args[1].(Str)
	ex.needBytes(s, "Replacer.Replace")
	var out []Int
	for i := 0; i < len(s.B); {
		matched := false
		for _, pr := range m.pairs {
			old := pr[0]
			if i+len(old.B) <= len(s.B) && ex.branch(ex.strEq(Str{B: s.B[i : i+len(old.B)]}, old)) {
				out = append(out, pr[1].B...)
				i += len(old.B)
				matched = true
				break
			}
		}
		if !matched {
			out = append(out, s.B[i])
			i++
		}
	}
	return Str{B: out}
}

// sync.Pool: keeps what it is given and hands the most recently returned
// object out again (what the real pool does on one goroutine between
// collections; also legal: dropping everything) - the behaviour under which
// state left in a pooled object, or an object still referenced by its last
// user, shows. Without a kept object Get calls New, or returns nil.
func mPoolPut(ex *Exec, args []Val) Val {
	p := args[0].(Ptr)
	if p.P == nil {
		ex.gopanic("nil-deref", "Put on a nil *sync.Pool")
	}
	if args[1] == nil {
		return nil
	}
	if ex.pools == nil {
		ex.pools = map[*Val][]Val{}
	}
	ex.pools[p.P] = append(ex.pools[p.P], args[1])
	return nil
}

func mPoolGet(ex *Exec, args []Val) Val {
	p := args[0].(Ptr)
	if p.P == nil {
		ex.gopanic("nil-deref", "Get on a nil *sync.Pool")
	}
	if kept := ex.pools[p.P]; len(kept) > 0 {
		v := kept[len(kept)-1]
		ex.pools[p.P] = kept[:len(kept)-1]
		return v
	}
	st, ok := (*p.P).(Struct)
	if !ok {
		unsupported("sync.Pool layout")
	}
	for _, f := range st {
		if cl, ok := f.(Closure); ok && !isNilVal(cl) {
			return ex.callClosure(cl, nil)
		}
	}
	return nil
}

func mSortStrings(ex *Exec, args []Val) Val {
	sl, _ := args[0].(Slice)
	ex.sortInPlace(sl, func(i, j int) bool {
		return ex.branch(ex.strCmp(token.LSS, (*sl.at(i)).(Str), (*sl.at(j)).(Str)).(Bool))
	})
	return nil
}

func mSortInts(ex *Exec, args []Val) Val {
	sl, _ := args[0].(Slice)
	ex.sortInPlace(sl, func(i, j int) bool {
		return ex.branch(ex.intBinop(token.LSS, (*sl.at(i)).(Int), (*sl.at(j)).(Int)).(Bool))
	})
	return nil
}

// ---------------------------------------------------------------- regexp (concrete only)

type RegexpObj struct{ re *regexp.Regexp }

func mRegexpCompile(ex *Exec, args []Val) Val {
	s, ok := args[0].(Str).conc()
	if !ok {
		unsupported("regexp.Compile on a symbolic pattern")
	}
	re, err := regexp.Compile(s)
	if err != nil {
		return Tuple{Ptr{}, ex.newError(cstr(err.Error()))}
	}
	var cell Val = &RegexpObj{re}
	return Tuple{Ptr{&cell}, nil}
}

func regexpOf(ex *Exec, v Val) *regexp.Regexp {
	p := v.(Ptr)
	if p.P == nil {
		ex.gopanic("nil-deref", "nil *regexp.Regexp")
	}
	return (*p.P).(*RegexpObj).re
}

func mRegexpMatchString(ex *Exec, args []Val) Val {
	p := args[0].(Ptr)
	if p.P == nil {
		ex.gopanic("nil-deref", "nil *regexp.Regexp")
	}
	ro := (*p.P).(*RegexpObj)
	s, ok := args[1].(Str).conc()
	if !ok {
		unsupported("regexp match on a symbolic string")
	}
	return Bool{C: ro.re.MatchString(s)}
}

// ---------------------------------------------------------------- native fallbacks (all arguments concrete)

var nativeFns = map[string]interface{}{
	"time.Date":              time.Date,
	"time.Unix":              time.Unix,
	"time.UnixMilli":         time.UnixMilli,
	"time.Parse":             time.Parse,
	"time.ParseDuration":     time.ParseDuration,
	"strings.ToUpper":        strings.ToUpper,
	"strings.ToLower":        strings.ToLower,
	"strings.Title":          strings.Title,
	"strings.Repeat":         strings.Repeat,
	"strings.Fields":         strings.Fields,
	"strings.TrimLeft":       strings.TrimLeft,
	"strings.Trim":           strings.Trim,
	"strings.TrimPrefix":     strings.TrimPrefix,
	"strings.TrimSuffix":     strings.TrimSuffix,
	"strings.LastIndex":      strings.LastIndex,
	"strings.Count":          strings.Count,
	"strings.EqualFold":      strings.EqualFold,
	"strings.SplitN":         strings.SplitN,
	"strings.ContainsAny":    strings.ContainsAny,
	"strings.ContainsRune":   strings.ContainsRune,
	"strings.IndexRune":      strings.IndexRune,
	"strings.IndexAny":       strings.IndexAny,
	"strconv.Quote":          strconv.Quote,
	"strconv.FormatInt":      strconv.FormatInt,
	"strconv.FormatBool":     strconv.FormatBool,
	"strconv.FormatFloat":    strconv.FormatFloat,
	"strconv.QuoteToASCII":   strconv.QuoteToASCII,
	"strconv.Unquote":        strconv.Unquote,
	"strconv.ParseInt":       strconv.ParseInt,
	"strconv.ParseBool":      strconv.ParseBool,
	"strings.TrimFunc":       nil,
	"strings.ToTitle":        strings.ToTitle,
	"strings.HasPrefix":      strings.HasPrefix,
	"strings.Compare":        strings.Compare,
	"strings.LastIndexByte":  strings.LastIndexByte,
	"strings.SplitAfter":     strings.SplitAfter,
	"strings.Cut":            strings.Cut,
	"strings.CutPrefix":      strings.CutPrefix,
	"strings.CutSuffix":      strings.CutSuffix,
	"strings.ToValidUTF8":    strings.ToValidUTF8,
	"strings.Clone":          strings.Clone,
	"html.UnescapeString":    html.UnescapeString,
	"net/url.QueryEscape":    url.QueryEscape,
	"net/url.PathEscape":     url.PathEscape,
	"path.Base":              path.Base,
	"path.Ext":               path.Ext,
	"path.Clean":             path.Clean,
	"path/filepath.Clean":    filepath.Clean,
	"path/filepath.Dir":      filepath.Dir,
	"unicode.IsControl":      unicode.IsControl,
	"unicode.IsPunct":        unicode.IsPunct,
	"unicode.IsLower":        unicode.IsLower,
	"unicode.IsNumber":       unicode.IsNumber,
	"unicode.IsMark":         unicode.IsMark,
	"unicode.IsGraphic":      unicode.IsGraphic,
	"unicode.IsSymbol":       unicode.IsSymbol,
	"unicode.ToTitle":        unicode.ToTitle,
	"unicode/utf8.RuneLen":   utf8.RuneLen,
	"unicode/utf8.ValidRune": utf8.ValidRune,
	"math.Ceil":              math.Ceil,
	"math.Trunc":             math.Trunc,
	"math.Round":             math.Round,
	"math.Max":               math.Max,
	"math.Min":               math.Min,
	"math.IsNaN":             math.IsNaN,
	"math.Pow":               math.Pow,
	"math.Sqrt":              math.Sqrt,
	"strconv.FormatUint":     strconv.FormatUint,
	"math.Abs":               math.Abs,
	"math.Floor":             math.Floor,
	"path/filepath.Ext":      filepath.Ext,
	"path/filepath.Base":     filepath.Base,
	"unicode.IsPrint":        unicode.IsPrint,
	"unicode.IsSpace":        unicode.IsSpace,
	"unicode.IsUpper":        unicode.IsUpper,
	"unicode.IsLetter":       unicode.IsLetter,
	"unicode.IsDigit":        unicode.IsDigit,
	"unicode.ToUpper":        unicode.ToUpper,
	"unicode.ToLower":        unicode.ToLower,
}

// nativeRecv: receiver types whose methods run natively on concrete values
var nativeRecv = map[string]bool{"time.Time": true, "time.Duration": true, "time.Month": true, "time.Weekday": true}

var timeT = reflect.TypeOf(time.Time{})

// nativeTime: a time.Time held as Native, or as the zero-initialised struct the executor makes
// for `var t time.Time` (wall, ext, loc) with concrete fields and no location.
func nativeTime(v Val) (time.Time, bool) {
	switch x := v.(type) {
	case Native:
		t, ok := x.V.(time.Time)
		return t, ok
	case Struct:
		if len(x) == 3 {
			w, ok1 := x[0].(Int)
			e, ok2 := x[1].(Int)
			l, ok3 := x[2].(Ptr)
			if ok1 && ok2 && ok3 && w.T == nil && e.T == nil && l.P == nil {
				raw := struct {
					wall uint64
					ext  int64
					loc  *time.Location
				}{w.C, e.signed(), nil}
				return *(*time.Time)(unsafe.Pointer(&raw)), true
			}
		}
	}
	return time.Time{}, false
}

func (ex *Exec) tryNativeCall(name string, fn *ssa.Function, args []Val) (Val, bool) {
	nf, ok := nativeFns[name]
	var rf reflect.Value
	if (!ok || nf == nil) && strings.HasPrefix(name, "(") && len(args) > 0 {
		// a method of an allow-listed receiver type: looked up on the real value
		end := strings.Index(name, ").")
		if end < 0 || !nativeRecv[strings.TrimPrefix(name[1:end], "*")] || strings.HasPrefix(name, "(*") {
			return nil, false
		}
		var recv reflect.Value
		switch name[1:end] {
		case "time.Time":
			t, ok := nativeTime(args[0])
			if !ok {
				unsupported("%s on a time value that is not concrete", name)
			}
			recv = reflect.ValueOf(t)
		default:
			i, ok := args[0].(Int)
			if !ok || i.T != nil {
				unsupported("%s on a symbolic value", name)
			}
			switch name[1:end] {
			case "time.Duration":
				recv = reflect.ValueOf(time.Duration(i.signed()))
			case "time.Month":
				recv = reflect.ValueOf(time.Month(i.signed()))
			default:
				recv = reflect.ValueOf(time.Weekday(i.signed()))
			}
		}
		rf = recv.MethodByName(name[end+2:])
		if !rf.IsValid() {
			return nil, false
		}
		args = args[1:]
	} else if !ok || nf == nil {
		return nil, false
	} else {
		rf = reflect.ValueOf(nf)
	}
	rt := rf.Type()
	if rt.NumIn() != len(args) || rt.IsVariadic() {
		return nil, false
	}
	in := make([]reflect.Value, len(args))
	for i, a := range args {
		pt := rt.In(i)
		switch x := a.(type) {
		case Str:
			s, ok := x.conc()
			if !ok {
				unsupported("%s on a symbolic string", name)
			}
			in[i] = reflect.ValueOf(s).Convert(pt)
		case Int:
			if x.T != nil {
				unsupported("%s on a symbolic integer", name)
			}
			v := reflect.New(pt).Elem()
			switch pt.Kind() {
			case reflect.Int, reflect.Int8, reflect.Int16, reflect.Int32, reflect.Int64:
				v.SetInt(x.signed())
			default:
				v.SetUint(x.C)
			}
			in[i] = v
		case Bool:
			if x.T != nil {
				unsupported("%s on a symbolic bool", name)
			}
			in[i] = reflect.ValueOf(x.C)
		case Float:
			if x.U {
				unsupported("%s on an unknown float", name)
			}
			in[i] = reflect.ValueOf(x.V).Convert(pt)
		case Native:
			in[i] = reflect.ValueOf(x.V)
		case Struct:
			if pt != timeT {
				return nil, false
			}
			t, ok := nativeTime(x)
			if !ok {
				unsupported("%s on a time value that is not concrete", name)
			}
			in[i] = reflect.ValueOf(t)
		case Ptr:
			// *time.Location: only the nil location, which Go itself reads as UTC (the executor does
			// not run package time's initialisation, so time.UTC is nil here)
			if pt != reflect.TypeOf((*time.Location)(nil)) || x.P != nil {
				return nil, false
			}
			in[i] = reflect.ValueOf(time.UTC)
		default:
			return nil, false
		}
		if !in[i].Type().AssignableTo(pt) {
			if !in[i].Type().ConvertibleTo(pt) {
				return nil, false
			}
			in[i] = in[i].Convert(pt)
		}
	}
	outs := rf.Call(in)
	conv := func(v reflect.Value) Val {
		switch v.Kind() {
		case reflect.String:
			return cstr(v.String())
		case reflect.Bool:
			return Bool{C: v.Bool()}
		case reflect.Int:
			return goInt(int(v.Int()))
		case reflect.Int32:
			return cint(v.Int(), 32, true)
		case reflect.Float64:
			return Float{V: v.Float(), W: 64}
		case reflect.Int64:
			return cint(v.Int(), 64, true)
		case reflect.Struct:
			if v.Type() == timeT {
				return Native{V: v.Interface()}
			}
		case reflect.Uint, reflect.Uint8, reflect.Uint16, reflect.Uint32, reflect.Uint64:
			return cint(int64(v.Uint()), uint8(v.Type().Bits()), false)
		case reflect.Int8, reflect.Int16:
			return cint(v.Int(), uint8(v.Type().Bits()), true)
		case reflect.Interface:
			if v.IsNil() {
				return nil
			}
			if e, ok := v.Interface().(error); ok {
				return ex.newError(cstr(e.Error()))
			}
		case reflect.Slice:
			var vs []Val
			for i := 0; i < v.Len(); i++ {
				vs = append(vs, cstr(v.Index(i).String()))
			}
			return newSlice(vs)
		}
		unsupported("native result kind %s", v.Kind())
		return nil
	}
	switch len(outs) {
	case 0:
		return nil, true
	case 1:
		return conv(outs[0]), true
	}
	t := make(Tuple, len(outs))
	for i, o := range outs {
		t[i] = conv(o)
	}
	return t, true
}

// callNative: function values implemented by the engine (none besides builtins).
func (ex *Exec) callNative(cl Closure, args []Val) Val {
	if strings.HasPrefix(cl.Nat, "builtin:") {
		return ex.callBuiltin(strings.TrimPrefix(cl.Nat, "builtin:"), args, nil)
	}
	unsupported("native function value %s", cl.Nat)
	return nil
}
