package main

// Two logical threads (vrt.Par): the executor runs f and g one after the other
// (both orders are explored), logs every access to a heap location together
// with the mutexes held, and then asks the solver, for every pair of conflicting
// accesses of the two threads, whether a schedule exists in which they are
// adjacent: integer timestamps per event, program order inside each thread,
// mutual exclusion of the critical sections of one mutex. sat = data race.

import (
	"fmt"
	"sort"
	"strings"
)

type accessEvent struct {
	thread int
	seq    int
	addr   interface{} // *Val cell or *MapObj
	write  bool
	site   string
	kind   string // access | lock | unlock
	mutex  *Val
}

type parState struct {
	thread int
	seq    int
	events []accessEvent
}

func (ex *Exec) curSite() string {
	for i := len(ex.stack) - 1; i >= 0; i-- {
		if ex.stack[i].inRepo {
			return shortFn(ex.stack[i].name)
		}
	}
	if n := len(ex.stack); n > 0 {
		return shortFn(ex.stack[n-1].name)
	}
	return "?"
}

func (ex *Exec) logAccess(addr interface{}, write bool) {
	p := ex.par
	if p == nil || p.thread == 0 {
		return
	}
	p.seq++
	p.events = append(p.events, accessEvent{thread: p.thread, seq: p.seq, addr: addr, write: write, site: ex.curSite(), kind: "access"})
}

// logCell: an access to the cell c; aggregates are accessed leaf by leaf.
func (ex *Exec) logCell(c *Val, write bool) {
	if ex.par == nil || ex.par.thread == 0 || c == nil {
		return
	}
	if st, ok := (*c).(Struct); ok {
		for i := range st {
			ex.logCell(&st[i], write)
		}
		return
	}
	ex.logAccess(c, write)
}

func (ex *Exec) logLock(m *Val, lock bool) {
	p := ex.par
	if p == nil || p.thread == 0 {
		return
	}
	p.seq++
	k := "unlock"
	if lock {
		k = "lock"
	}
	p.events = append(p.events, accessEvent{thread: p.thread, seq: p.seq, kind: k, mutex: m, site: ex.curSite()})
}

// runPar implements vrt.Par(f, g).
func (ex *Exec) runPar(f, g Closure) {
	if ex.par != nil {
		unsupported("nested vrt.Par")
	}
	first, second := f, g
	if ex.choose(2, "sched") == 1 {
		first, second = g, f
	}
	ex.par = &parState{}
	defer func() { ex.par = nil }()
	ex.par.thread = 1
	ex.callClosure(first, nil)
	if len(ex.locks) != 0 {
		ex.gopanic("deadlock", "a mutex is still held when the operation returns")
	}
	ex.par.thread = 2
	ex.par.seq = 0
	ex.callClosure(second, nil)
	ex.par.thread = 0
	ex.findRaces()
}

func (ex *Exec) findRaces() {
	evs := ex.par.events
	byAddr := map[interface{}][]int{}
	for i, e := range evs {
		if e.kind == "access" {
			byAddr[e.addr] = append(byAddr[e.addr], i)
		}
	}
	// lock/unlock events per thread, in order
	var syncEv [3][]int
	for i, e := range evs {
		if e.kind != "access" {
			syncEv[e.thread] = append(syncEv[e.thread], i)
		}
	}
	seen := map[string]bool{}
	var keys []string
	pairs := map[string][2]int{}
	for _, idxs := range byAddr {
		for _, i := range idxs {
			if evs[i].thread != 1 {
				continue
			}
			for _, j := range idxs {
				if evs[j].thread != 2 || (!evs[i].write && !evs[j].write) {
					continue
				}
				k := fmt.Sprintf("%s/%v|%s/%v|%s|%s", evs[i].site, evs[i].write, evs[j].site, evs[j].write, ex.heldAt(i), ex.heldAt(j))
				if !seen[k] {
					seen[k] = true
					keys = append(keys, k)
					pairs[k] = [2]int{i, j}
				}
			}
		}
	}
	sort.Strings(keys)
	for _, k := range keys {
		i, j := pairs[k][0], pairs[k][1]
		ex.st.obligations++
		if ex.raceFeasible(i, j, syncEv) {
			a, b := evs[i], evs[j]
			desc := fmt.Sprintf("%s (%s) / %s (%s)", a.site, rw(a.write), b.site, rw(b.write))
			model, r := ex.sol.model(ex.pc, nil, ex.symVarTerms())
			if r == resSat {
				ex.recordViolation(model, &Predicted{Outcome: "race", Label: desc})
			}
		} else {
			ex.st.discharged++
		}
	}
}

func rw(w bool) string {
	if w {
		return "write"
	}
	return "read"
}

// heldAt: printable set of the mutexes held by the event's thread at the event
func (ex *Exec) heldAt(i int) string {
	evs := ex.par.events
	held := map[*Val]bool{}
	for k := 0; k < i; k++ {
		e := evs[k]
		if e.thread != evs[i].thread {
			continue
		}
		switch e.kind {
		case "lock":
			held[e.mutex] = true
		case "unlock":
			delete(held, e.mutex)
		}
	}
	var s []string
	for m := range held {
		s = append(s, fmt.Sprintf("%p", m))
	}
	sort.Strings(s)
	return strings.Join(s, ",")
}

// raceFeasible: is there a schedule (timestamps) in which accesses i and j are adjacent?
func (ex *Exec) raceFeasible(i, j int, syncEv [3][]int) bool {
	evs := ex.par.events
	const W = 16
	tv := map[int]*Term{}
	nid := 0
	ts := func(k int) *Term {
		if t, ok := tv[k]; ok {
			return t
		}
		t := mkVar(fmt.Sprintf("ts%d_%d_w16", ex.nsym, nid), W, -3-nid)
		nid++
		tv[k] = t
		return t
	}
	var cs []*Term
	// program order within each thread over the involved events
	for th := 1; th <= 2; th++ {
		inv := append([]int{}, syncEv[th]...)
		if th == 1 {
			inv = append(inv, i)
		} else {
			inv = append(inv, j)
		}
		sort.Slice(inv, func(a, b int) bool { return evs[inv[a]].seq < evs[inv[b]].seq })
		for k := 0; k+1 < len(inv); k++ {
			cs = append(cs, mkCmp("bvult", ts(inv[k]), ts(inv[k+1])))
		}
		for _, k := range inv {
			cs = append(cs, mkCmp("bvult", ts(k), mkConst(60000, W)))
			cs = append(cs, mkCmp("bvugt", ts(k), mkConst(0, W)))
		}
	}
	// critical sections: pair lock/unlock per thread and mutex
	type section struct {
		m          *Val
		start, end int
	}
	var secs [3][]section
	for th := 1; th <= 2; th++ {
		open := map[*Val]int{}
		for _, k := range syncEv[th] {
			e := evs[k]
			if e.kind == "lock" {
				open[e.mutex] = k
			} else if s, ok := open[e.mutex]; ok {
				secs[th] = append(secs[th], section{e.mutex, s, k})
				delete(open, e.mutex)
			}
		}
	}
	// accesses inside a critical section
	inSec := func(sec section, th int) map[interface{}]bool { // addr -> written?
		m := map[interface{}]bool{}
		lo, hi := evs[sec.start].seq, evs[sec.end].seq
		for _, e := range evs {
			if e.thread == th && e.kind == "access" && e.seq > lo && e.seq < hi {
				m[e.addr] = m[e.addr] || e.write
			}
		}
		return m
	}
	for _, a := range secs[1] {
		var accA map[interface{}]bool
		for _, b := range secs[2] {
			if a.m != b.m {
				continue
			}
			if accA == nil {
				accA = inSec(a, 1)
			}
			// thread 1 ran first: if its section communicated with b through a
			// location they both touch (one of them writing), the observed
			// execution of thread 2 is only valid in the observed order
			dep := false
			for addr, wb := range inSec(b, 2) {
				if wa, ok := accA[addr]; ok && (wa || wb) {
					dep = true
					break
				}
			}
			if dep {
				cs = append(cs, mkCmp("bvult", ts(a.end), ts(b.start)))
			} else {
				cs = append(cs, mkOr(mkCmp("bvult", ts(a.end), ts(b.start)), mkCmp("bvult", ts(b.end), ts(a.start))))
			}
		}
	}
	// all timestamps of different threads distinct
	for a, ta := range tv {
		for b, tb := range tv {
			if a < b && evs[a].thread != evs[b].thread {
				cs = append(cs, mkNot(mkEq(ta, tb)))
			}
		}
	}
	// the two accesses are adjacent
	one := mkConst(1, W)
	cs = append(cs, mkOr(mkEq(ts(j), mkBV("bvadd", ts(i), one)), mkEq(ts(i), mkBV("bvadd", ts(j), one))))
	r := ex.sol.check(nil, mkAnd(cs...))
	if r == resUnknown {
		unsupported("schedule query unknown")
	}
	return r == resSat
}
