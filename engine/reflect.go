package main

// Typed model of package reflect over go/types (DESIGN §2.6, Appendix A).
// Every documented panic precondition of a modelled method is an explicit check.

import (
	"fmt"
	"go/token"
	"go/types"

	"golang.org/x/tools/go/ssa"
)

func (ex *Exec) rpanic(format string, a ...interface{}) {
	ex.gopanic("reflect", fmt.Sprintf(format, a...))
}

func (rv RV) val() Val {
	if rv.Addr != nil {
		return copyVal(*rv.Addr)
	}
	return rv.V
}

// rval: like val, and logs the read of an addressable location (vrt.Par)
func (ex *Exec) rval(rv RV) Val {
	if rv.Addr != nil {
		ex.logCell(rv.Addr, false)
	}
	return rv.val()
}

func (rv RV) kind() int { return kindOf(rv.T) }

func (ex *Exec) rtypeVal(t types.Type) Val {
	if t == nil {
		return nil
	}
	return Iface{T: ex.w.rtypeT, V: RT{T: t}}
}

func (ex *Exec) argRT(v Val, what string) types.Type {
	ifc, ok := v.(Iface)
	if !ok {
		ex.gopanic("nil-deref", "invalid memory address or nil pointer dereference ("+what+" with nil reflect.Type)")
	}
	return ifc.V.(RT).T
}

func kindVal(k int) Val { return Int{C: uint64(k), W: 64} }

// asIface: the value of rv as an interface{} (what Interface() returns).
func (rv RV) asIface() Val {
	v := rv.val()
	if kindOf(rv.T) == kInterface {
		return v // already an Iface or nil
	}
	return Iface{T: rv.T, V: v}
}

// toParam converts rv for storing into a location of type t.
func (rv RV) toType(t types.Type) Val {
	if _, ok := t.Underlying().(*types.Interface); ok {
		return rv.asIface()
	}
	v := rv.val()
	if ifc, ok := v.(Iface); ok && kindOf(rv.T) == kInterface {
		return ifc.V
	}
	return v
}

func (ex *Exec) assignable(from, to types.Type) bool {
	if types.Identical(from, to) {
		return true
	}
	return types.AssignableTo(from, to)
}

func exported(name string) bool { return token.IsExported(name) }

func findField(st *types.Struct, name string) (idx []int, f *types.Var) {
	// breadth-first over embedded structs, like reflect.FieldByName
	type item struct {
		st  *types.Struct
		idx []int
	}
	cur := []item{{st, nil}}
	seen := map[*types.Struct]bool{}
	for len(cur) > 0 {
		var next []item
		var foundIdx []int
		var found *types.Var
		count := 0
		for _, it := range cur {
			if seen[it.st] {
				continue
			}
			seen[it.st] = true
			for i := 0; i < it.st.NumFields(); i++ {
				fl := it.st.Field(i)
				fname := fl.Name()
				if fname == name {
					count++
					foundIdx = append(append([]int{}, it.idx...), i)
					found = fl
					continue
				}
				if fl.Embedded() {
					t := fl.Type()
					if p, ok := t.Underlying().(*types.Pointer); ok {
						t = p.Elem()
					}
					if s2, ok := t.Underlying().(*types.Struct); ok {
						next = append(next, item{s2, append(append([]int{}, it.idx...), i)})
					}
				}
			}
		}
		if count == 1 {
			return foundIdx, found
		}
		if count > 1 {
			return nil, nil
		}
		cur = next
	}
	return nil, nil
}

func reflectModels() map[string]modelFn {
	m := map[string]modelFn{}
	m["reflect.ValueOf"] = func(ex *Exec, a []Val) Val {
		ifc, ok := a[0].(Iface)
		if !ok {
			return RV{}
		}
		if _, isRT := ifc.V.(RT); isRT {
			unsupported("reflect.ValueOf(reflect.Type)")
		}
		return RV{T: ifc.T, V: ifc.V}
	}
	m["reflect.TypeOf"] = func(ex *Exec, a []Val) Val {
		ifc, ok := a[0].(Iface)
		if !ok {
			return nil
		}
		return ex.rtypeVal(ifc.T)
	}
	m["reflect.Indirect"] = func(ex *Exec, a []Val) Val {
		rv := a[0].(RV)
		if rv.kind() != kPointer {
			return rv
		}
		return ex.rvElem(rv)
	}
	m["reflect.New"] = func(ex *Exec, a []Val) Val {
		t := ex.argRT(a[0], "reflect.New")
		if t == nil {
			ex.rpanic("reflect: New(nil)")
		}
		z := ex.zero(t)
		return RV{T: types.NewPointer(t), V: Ptr{&z}}
	}
	m["reflect.Zero"] = func(ex *Exec, a []Val) Val {
		t := ex.argRT(a[0], "reflect.Zero")
		if t == nil {
			ex.rpanic("reflect: Zero(nil)")
		}
		return RV{T: t, V: ex.zero(t)}
	}
	m["reflect.MakeMap"] = func(ex *Exec, a []Val) Val {
		t := ex.argRT(a[0], "reflect.MakeMap")
		mt, ok := t.Underlying().(*types.Map)
		if t == nil || !ok {
			ex.rpanic("reflect.MakeMapWithSize of non-map type")
		}
		return RV{T: t, V: &MapObj{KT: mt.Key(), VT: mt.Elem()}}
	}
	m["reflect.MakeMapWithSize"] = m["reflect.MakeMap"]
	m["reflect.MakeSlice"] = func(ex *Exec, a []Val) Val {
		t := ex.argRT(a[0], "reflect.MakeSlice")
		st, ok := t.Underlying().(*types.Slice)
		if t == nil || !ok {
			ex.rpanic("reflect.MakeSlice of non-slice type")
		}
		n, c := ex.concInt(a[1], "reflect.MakeSlice len"), ex.concInt(a[2], "reflect.MakeSlice cap")
		if n < 0 {
			ex.rpanic("reflect.MakeSlice: negative len")
		}
		if c < 0 {
			ex.rpanic("reflect.MakeSlice: negative cap")
		}
		if n > c {
			ex.rpanic("reflect.MakeSlice: len > cap")
		}
		if c > 1<<16 {
			unsupported("reflect.MakeSlice of more than 65536 elements")
		}
		arr := make([]Val, c)
		for i := range arr {
			arr[i] = ex.zero(st.Elem())
		}
		return RV{T: t, V: Slice{A: &arr, Len: n, Cap: c}}
	}
	for _, name := range []string{"reflect.PointerTo", "reflect.PtrTo"} {
		name := name
		m[name] = func(ex *Exec, a []Val) Val {
			t := ex.argRT(a[0], name)
			if t == nil {
				ex.gopanic("nil-deref", "invalid memory address or nil pointer dereference ("+name+" of nil Type)")
			}
			return ex.rtypeVal(types.NewPointer(t))
		}
	}
	m["reflect.SliceOf"] = func(ex *Exec, a []Val) Val {
		t := ex.argRT(a[0], "reflect.SliceOf")
		if t == nil {
			ex.gopanic("nil-deref", "invalid memory address or nil pointer dereference (reflect.SliceOf of nil Type)")
		}
		return ex.rtypeVal(types.NewSlice(t))
	}
	m["reflect.MapOf"] = func(ex *Exec, a []Val) Val {
		k, e := ex.argRT(a[0], "reflect.MapOf"), ex.argRT(a[1], "reflect.MapOf")
		if k == nil || e == nil {
			ex.gopanic("nil-deref", "invalid memory address or nil pointer dereference (reflect.MapOf of nil Type)")
		}
		if !types.Comparable(k) {
			ex.rpanic("reflect.MapOf: invalid key type " + typeString(k))
		}
		return ex.rtypeVal(types.NewMap(k, e))
	}
	m["reflect.Append"] = func(ex *Exec, a []Val) Val {
		s := a[0].(RV)
		if s.kind() != kSlice {
			ex.rpanic("reflect: call of reflect.Append on %s Value", kindNames[s.kind()])
		}
		et := s.T.Underlying().(*types.Slice).Elem()
		xs, _ := a[1].(Slice)
		cur, _ := s.val().(Slice)
		var add []Val
		for _, x := range xs.elems() {
			xv := x.(RV)
			if xv.T == nil {
				ex.rpanic("reflect: call of reflect.Value.Set on zero Value")
			}
			if !ex.assignable(xv.T, et) {
				ex.rpanic("reflect.Set: value of type %s is not assignable to type %s", typeString(xv.T), typeString(et))
			}
			add = append(add, copyVal(xv.toType(et)))
		}
		// as the built-in append: spare capacity of the operand's backing array is
		// written in place (the result aliases the operand), otherwise a new array
		return RV{T: s.T, V: ex.appendVals(cur, add, et)}
	}
	m["reflect.AppendSlice"] = func(ex *Exec, a []Val) Val {
		s, t := a[0].(RV), a[1].(RV)
		if s.kind() != kSlice {
			ex.rpanic("reflect: call of reflect.AppendSlice on %s Value", kindNames[s.kind()])
		}
		if t.kind() != kSlice {
			ex.rpanic("reflect: call of reflect.AppendSlice on %s Value", kindNames[t.kind()])
		}
		et := s.T.Underlying().(*types.Slice).Elem()
		if !types.Identical(et, t.T.Underlying().(*types.Slice).Elem()) {
			ex.rpanic("reflect.AppendSlice: %s != %s", typeString(et), typeString(t.T.Underlying().(*types.Slice).Elem()))
		}
		cur, _ := s.val().(Slice)
		src, _ := t.val().(Slice)
		var add []Val
		for i := 0; i < src.Len; i++ {
			ex.logCell(src.at(i), false)
			add = append(add, copyVal(*src.at(i)))
		}
		return RV{T: s.T, V: ex.appendVals(cur, add, et)}
	}
	m["(reflect.Kind).String"] = func(ex *Exec, a []Val) Val {
		k := ex.concInt(Int{C: a[0].(Int).C, T: a[0].(Int).T, W: 64, S: true}, "Kind")
		if k >= 0 && k < len(kindNames) {
			return cstr(kindNames[k])
		}
		return cstr(fmt.Sprintf("kind%d", k))
	}
	v := func(name string, f func(ex *Exec, rv RV, a []Val) Val) {
		m["(reflect.Value)."+name] = func(ex *Exec, a []Val) Val { return f(ex, a[0].(RV), a[1:]) }
	}
	v("Kind", func(ex *Exec, rv RV, a []Val) Val { return kindVal(rv.kind()) })
	v("IsValid", func(ex *Exec, rv RV, a []Val) Val { return Bool{C: rv.T != nil} })
	v("IsNil", func(ex *Exec, rv RV, a []Val) Val {
		switch rv.kind() {
		case kChan, kFunc, kMap, kPointer, kSlice, kUnsafePointer:
			return Bool{C: isNilVal(rv.val())}
		case kInterface:
			return Bool{C: rv.val() == nil}
		}
		ex.rpanic("reflect: call of reflect.Value.IsNil on %s Value", valueKindName(rv))
		return nil
	})
	v("IsZero", func(ex *Exec, rv RV, a []Val) Val {
		if rv.T == nil {
			ex.rpanic("reflect: call of reflect.Value.IsZero on zero Value")
		}
		e := ex.valEq(rv.val(), ex.zero(rv.T))
		if e.T != nil {
			return e
		}
		switch rv.kind() {
		case kSlice, kMap, kFunc:
			return Bool{C: isNilVal(rv.val())}
		}
		return e
	})
	v("Elem", func(ex *Exec, rv RV, a []Val) Val { return ex.rvElem(rv) })
	v("Type", func(ex *Exec, rv RV, a []Val) Val {
		if rv.T == nil {
			ex.rpanic("reflect: call of reflect.Value.Type on zero Value")
		}
		return ex.rtypeVal(rv.T)
	})
	v("Interface", func(ex *Exec, rv RV, a []Val) Val {
		if rv.T == nil {
			ex.rpanic("reflect: call of reflect.Value.Interface on zero Value")
		}
		if rv.RO {
			ex.rpanic("reflect.Value.Interface: cannot return value obtained from unexported field or method")
		}
		ex.rval(rv)
		return rv.asIface()
	})
	v("CanInterface", func(ex *Exec, rv RV, a []Val) Val {
		if rv.T == nil {
			ex.rpanic("reflect: call of reflect.Value.CanInterface on zero Value")
		}
		return Bool{C: !rv.RO}
	})
	v("Convert", func(ex *Exec, rv RV, a []Val) Val {
		if rv.T == nil {
			ex.rpanic("reflect: call of reflect.Value.Convert on zero Value")
		}
		t := ex.argRT(a[0], "Convert")
		if t == nil || !types.ConvertibleTo(rv.T, t) {
			ex.rpanic("reflect.Value.Convert: value of type %s cannot be converted to type %s", typeString(rv.T), typeStringOr(t, "nil"))
		}
		if _, isI := t.Underlying().(*types.Interface); isI {
			return RV{T: t, V: rv.asIface(), RO: rv.RO}
		}
		if rv.kind() == kSlice {
			// slice -> array / pointer to array: convertible as types, panics when the slice is too short
			var at *types.Array
			switch u := t.Underlying().(type) {
			case *types.Array:
				at = u
			case *types.Pointer:
				at, _ = u.Elem().Underlying().(*types.Array)
			}
			if at != nil {
				if n := ex.rvLen(rv); n < int(at.Len()) {
					ex.rpanic("reflect: cannot convert slice with length %d to array with length %d", n, at.Len())
				}
			}
		}
		val := rv.val()
		if ifc, ok := val.(Iface); ok && rv.kind() == kInterface {
			val = ifc.V
		}
		return RV{T: t, V: ex.convert(val, rv.T, t), RO: rv.RO}
	})
	v("CanConvert", func(ex *Exec, rv RV, a []Val) Val {
		t := ex.argRT(a[0], "CanConvert")
		return Bool{C: rv.T != nil && t != nil && types.ConvertibleTo(rv.T, t)}
	})
	v("Comparable", func(ex *Exec, rv RV, a []Val) Val {
		if rv.T == nil {
			return Bool{C: true}
		}
		return Bool{C: ex.valComparable(rv.T, rv.val())}
	})
	v("CanSet", func(ex *Exec, rv RV, a []Val) Val { return Bool{C: rv.Addr != nil && !rv.RO} })
	v("CanAddr", func(ex *Exec, rv RV, a []Val) Val { return Bool{C: rv.Addr != nil} })
	v("Len", func(ex *Exec, rv RV, a []Val) Val { return goInt(ex.rvLen(rv)) })
	v("Index", func(ex *Exec, rv RV, a []Val) Val { return ex.rvIndex(rv, a[0].(Int)) })
	v("MapIndex", func(ex *Exec, rv RV, a []Val) Val {
		if rv.kind() != kMap {
			ex.rpanic("reflect: call of reflect.Value.MapIndex on %s Value", valueKindName(rv))
		}
		mt := rv.T.Underlying().(*types.Map)
		key := ex.rvAssignTo(a[0].(RV), mt.Key(), "reflect.Value.MapIndex")
		mo, _ := rv.val().(*MapObj)
		if i := ex.mapFind(mo, key); i >= 0 {
			return RV{T: mt.Elem(), V: copyVal(mo.V[i]), RO: rv.RO}
		}
		return RV{}
	})
	v("MapKeys", func(ex *Exec, rv RV, a []Val) Val {
		if rv.kind() != kMap {
			ex.rpanic("reflect: call of reflect.Value.MapKeys on %s Value", valueKindName(rv))
		}
		mt := rv.T.Underlying().(*types.Map)
		mo, _ := rv.val().(*MapObj)
		var out []Val
		for _, i := range ex.mapOrder(mo) {
			out = append(out, RV{T: mt.Key(), V: copyVal(mo.K[i]), RO: rv.RO})
		}
		if out == nil {
			out = []Val{}
		}
		return newSlice(out)
	})
	v("SetMapIndex", func(ex *Exec, rv RV, a []Val) Val {
		if rv.kind() != kMap {
			ex.rpanic("reflect: call of reflect.Value.SetMapIndex on %s Value", valueKindName(rv))
		}
		if rv.RO {
			ex.rpanic("reflect: reflect.Value.SetMapIndex using value obtained using unexported field")
		}
		mt := rv.T.Underlying().(*types.Map)
		k, e := a[0].(RV), a[1].(RV)
		if k.RO {
			ex.rpanic("reflect: reflect.Value.SetMapIndex using value obtained using unexported field")
		}
		key := ex.rvAssignTo(k, mt.Key(), "reflect.Value.SetMapIndex")
		mo, _ := rv.val().(*MapObj)
		if e.T == nil {
			if mo != nil {
				ex.mapDelete(mo, key)
			}
			return nil
		}
		if e.RO {
			ex.rpanic("reflect: reflect.Value.SetMapIndex using value obtained using unexported field")
		}
		ev := ex.rvAssignTo(e, mt.Elem(), "reflect.Value.SetMapIndex")
		if mo == nil {
			ex.gopanic("nil-map", "assignment to entry in nil map")
		}
		ex.mapSet(mo, key, ev)
		return nil
	})
	v("Set", func(ex *Exec, rv RV, a []Val) Val {
		x := a[0].(RV)
		if rv.T == nil {
			ex.rpanic("reflect: call of reflect.Value.Set on zero Value")
		}
		if rv.RO {
			ex.rpanic("reflect: reflect.Value.Set using value obtained using unexported field")
		}
		if rv.Addr == nil {
			ex.rpanic("reflect: reflect.Value.Set using unaddressable value")
		}
		if x.T == nil {
			ex.rpanic("reflect: call of reflect.Value.Set on zero Value")
		}
		if x.RO {
			ex.rpanic("reflect: reflect.Value.Set using value obtained using unexported field")
		}
		nv := ex.rvAssignTo(x, rv.T, "reflect.Set")
		ex.checkFrozenPtr(rv.Addr)
		ex.logCell(rv.Addr, true)
		storeInto(rv.Addr, nv)
		return nil
	})
	v("FieldByName", func(ex *Exec, rv RV, a []Val) Val {
		if rv.kind() != kStruct {
			ex.rpanic("reflect: call of reflect.Value.FieldByName on %s Value", valueKindName(rv))
		}
		name, ok := a[0].(Str).conc()
		if !ok {
			unsupported("FieldByName with a symbolic name")
		}
		idx, f := findField(rv.T.Underlying().(*types.Struct), name)
		if f == nil {
			return RV{}
		}
		cur := rv
		for _, i := range idx {
			// step through embedded pointers
			if cur.kind() == kPointer {
				p := cur.val().(Ptr)
				if p.P == nil {
					ex.rpanic("reflect: indirection through nil pointer to embedded struct")
				}
				cur = RV{T: cur.T.Underlying().(*types.Pointer).Elem(), Addr: p.P, RO: cur.RO}
			}
			st := cur.T.Underlying().(*types.Struct)
			fl := st.Field(i)
			ro := cur.RO || (!fl.Exported() && !fl.Embedded()) || (fl.Embedded() && !fl.Exported())
			if cur.Addr != nil {
				s := (*cur.Addr).(Struct)
				cur = RV{T: fl.Type(), Addr: &s[i], RO: ro}
			} else {
				s := cur.V.(Struct)
				cur = RV{T: fl.Type(), V: copyVal(s[i]), RO: ro}
			}
		}
		return cur
	})
	v("Field", func(ex *Exec, rv RV, a []Val) Val {
		if rv.kind() != kStruct {
			ex.rpanic("reflect: call of reflect.Value.Field on %s Value", valueKindName(rv))
		}
		st := rv.T.Underlying().(*types.Struct)
		i := ex.concInt(a[0], "Field index")
		if i < 0 || i >= st.NumFields() {
			ex.rpanic("reflect: Field index out of range")
		}
		fl := st.Field(i)
		ro := rv.RO || !fl.Exported()
		if rv.Addr != nil {
			s := (*rv.Addr).(Struct)
			return RV{T: fl.Type(), Addr: &s[i], RO: ro}
		}
		return RV{T: fl.Type(), V: copyVal(rv.V.(Struct)[i]), RO: ro}
	})
	v("FieldByIndex", func(ex *Exec, rv RV, a []Val) Val {
		sl, _ := a[0].(Slice)
		cur := rv
		for _, e := range sl.elems() {
			if cur.kind() == kPointer {
				cur = ex.rvElem(cur)
				if cur.T == nil {
					ex.rpanic("reflect: indirection through nil pointer to embedded struct")
				}
			}
			if cur.kind() != kStruct {
				ex.rpanic("reflect: call of reflect.Value.FieldByIndex on %s Value", valueKindName(cur))
			}
			cur = models["(reflect.Value).Field"](ex, []Val{cur, e}).(RV)
		}
		return cur
	})
	v("NumField", func(ex *Exec, rv RV, a []Val) Val {
		if rv.kind() != kStruct {
			ex.rpanic("reflect: call of reflect.Value.NumField on %s Value", valueKindName(rv))
		}
		return goInt(rv.T.Underlying().(*types.Struct).NumFields())
	})
	v("MethodByName", func(ex *Exec, rv RV, a []Val) Val {
		if rv.T == nil {
			ex.rpanic("reflect: call of reflect.Value.MethodByName on zero Value")
		}
		name, ok := a[0].(Str).conc()
		if !ok {
			unsupported("MethodByName with a symbolic name")
		}
		if !exported(name) {
			return RV{}
		}
		recvT := rv.T
		recvV := rv.val()
		if rv.kind() == kInterface {
			ifc, ok := recvV.(Iface)
			if !ok {
				// nil interface value: methods of the interface type exist, calling panics
				it := rv.T.Underlying().(*types.Interface)
				for i := 0; i < it.NumMethods(); i++ {
					if it.Method(i).Name() == name {
						unsupported("method value of a nil interface")
					}
				}
				return RV{}
			}
			// only methods of the static interface type are visible
			it := rv.T.Underlying().(*types.Interface)
			vis := false
			for i := 0; i < it.NumMethods(); i++ {
				if it.Method(i).Name() == name {
					vis = true
				}
			}
			if !vis {
				return RV{}
			}
			recvT, recvV = ifc.T, ifc.V
		}
		ms := ex.w.prog.MethodSets.MethodSet(recvT)
		for i := 0; i < ms.Len(); i++ {
			sel := ms.At(i)
			if sel.Obj().Name() != name {
				continue
			}
			fn := ex.w.prog.MethodValue(sel)
			if fn == nil {
				unsupported("abstract method %s", name)
			}
			sig := sel.Type().(*types.Signature)
			return RV{T: sig, V: Closure{Fn: fn, Recv: recvV, HasR: true}, RO: rv.RO}
		}
		return RV{}
	})
	v("Method", func(ex *Exec, rv RV, a []Val) Val {
		if rv.T == nil {
			ex.rpanic("reflect: call of reflect.Value.Method on zero Value")
		}
		if rv.kind() == kInterface {
			unsupported("Value.Method on an interface-kinded Value")
		}
		i := ex.concInt(a[0], "Value.Method index")
		sels := ex.exportedMethods(rv.T)
		if i < 0 || i >= len(sels) {
			ex.rpanic("reflect: Method index out of range")
		}
		sel := sels[i]
		fn := ex.w.prog.MethodValue(sel)
		if fn == nil {
			unsupported("abstract method %s", sel.Obj().Name())
		}
		return RV{T: sel.Type().(*types.Signature), V: Closure{Fn: fn, Recv: rv.val(), HasR: true}, RO: rv.RO}
	})
	v("NumMethod", func(ex *Exec, rv RV, a []Val) Val {
		if rv.T == nil {
			ex.rpanic("reflect: call of reflect.Value.NumMethod on zero Value")
		}
		ms := ex.w.prog.MethodSets.MethodSet(rv.T)
		n := 0
		for i := 0; i < ms.Len(); i++ {
			if ms.At(i).Obj().Exported() {
				n++
			}
		}
		return goInt(n)
	})
	v("Call", func(ex *Exec, rv RV, a []Val) Val { return ex.rvCall(rv, a[0], false) })
	v("CallSlice", func(ex *Exec, rv RV, a []Val) Val { return ex.rvCall(rv, a[0], true) })
	v("Slice", func(ex *Exec, rv RV, a []Val) Val {
		i, j := a[0].(Int), a[1].(Int)
		var capv int
		switch rv.kind() {
		case kSlice:
			s, _ := rv.val().(Slice)
			capv = s.Cap
		case kString:
			s := rv.val().(Str)
			ex.needBytes(s, "reflect Slice")
			capv = len(s.B)
		case kArray:
			if rv.Addr == nil {
				ex.rpanic("reflect.Value.Slice: slice of unaddressable array")
			}
			capv = len((*rv.Addr).(Struct))
		default:
			ex.rpanic("reflect: call of reflect.Value.Slice on %s Value", valueKindName(rv))
		}
		// i < 0 || j < i || j > cap
		si := Int{C: i.C, T: i.T, W: 64, S: true}
		sj := Int{C: j.C, T: j.T, W: 64, S: true}
		bad := false
		if ex.branch(ex.intBinop(token.LSS, si, goInt(0)).(Bool)) {
			bad = true
		} else if ex.branch(ex.intBinop(token.LSS, sj, si).(Bool)) {
			bad = true
		} else if ex.branch(ex.intBinop(token.GTR, sj, goInt(capv)).(Bool)) {
			bad = true
		}
		if bad {
			ex.rpanic("reflect.Value.Slice: slice index out of bounds")
		}
		lo := ex.concretize(si, 0, capv)
		hi := ex.concretize(sj, lo, capv)
		switch rv.kind() {
		case kSlice:
			s, _ := rv.val().(Slice)
			if s.A == nil {
				return RV{T: rv.T, V: Slice{}}
			}
			return RV{T: rv.T, V: Slice{A: s.A, Off: s.Off + lo, Len: hi - lo, Cap: s.Cap - lo}}
		case kString:
			s := rv.val().(Str)
			return RV{T: rv.T, V: Str{B: s.B[lo:hi]}}
		}
		arr := []Val((*rv.Addr).(Struct))
		return RV{T: types.NewSlice(rv.T.Underlying().(*types.Array).Elem()), V: Slice{A: &arr, Off: lo, Len: hi - lo, Cap: capv - lo}}
	})
	v("String", func(ex *Exec, rv RV, a []Val) Val {
		if rv.T == nil {
			return cstr("<invalid Value>")
		}
		if rv.kind() == kString {
			return rv.val()
		}
		return cstr("<" + typeString(rv.T) + " Value>")
	})
	v("Int", func(ex *Exec, rv RV, a []Val) Val {
		switch rv.kind() {
		case kInt, kInt8, kInt16, kInt32, kInt64:
			i := rv.val().(Int)
			if i.T != nil {
				return mkInt(mkSext(i.T, 64), 64, true)
			}
			return cint(i.signed(), 64, true)
		}
		ex.rpanic("reflect: call of reflect.Value.Int on %s Value", valueKindName(rv))
		return nil
	})
	v("Cap", func(ex *Exec, rv RV, a []Val) Val {
		switch rv.kind() {
		case kSlice:
			s, _ := rv.val().(Slice)
			return goInt(s.Cap)
		case kArray:
			return goInt(int(rv.T.Underlying().(*types.Array).Len()))
		case kPointer:
			if at, ok := rv.T.Underlying().(*types.Pointer).Elem().Underlying().(*types.Array); ok {
				return goInt(int(at.Len()))
			}
			ex.rpanic("reflect: call of reflect.Value.Cap on ptr to non-array Value")
		case kChan:
			unsupported("reflect.Value.Cap of a channel")
		}
		ex.rpanic("reflect: call of reflect.Value.Cap on %s Value", valueKindName(rv))
		return nil
	})
	v("Uint", func(ex *Exec, rv RV, a []Val) Val {
		switch rv.kind() {
		case kUint, kUint8, kUint16, kUint32, kUint64, kUintptr:
			i := rv.val().(Int)
			if i.T != nil {
				return mkInt(mkZext(i.T, 64), 64, false)
			}
			return cint(int64(i.C), 64, false)
		}
		ex.rpanic("reflect: call of reflect.Value.Uint on %s Value", valueKindName(rv))
		return nil
	})
	v("Float", func(ex *Exec, rv RV, a []Val) Val {
		switch rv.kind() {
		case kFloat32, kFloat64:
			f := rv.val().(Float)
			f.W = 64
			return f
		}
		ex.rpanic("reflect: call of reflect.Value.Float on %s Value", valueKindName(rv))
		return nil
	})
	v("CanInt", func(ex *Exec, rv RV, a []Val) Val {
		switch rv.kind() {
		case kInt, kInt8, kInt16, kInt32, kInt64:
			return Bool{C: true}
		}
		return Bool{C: false}
	})
	v("CanUint", func(ex *Exec, rv RV, a []Val) Val {
		switch rv.kind() {
		case kUint, kUint8, kUint16, kUint32, kUint64, kUintptr:
			return Bool{C: true}
		}
		return Bool{C: false}
	})
	v("CanFloat", func(ex *Exec, rv RV, a []Val) Val {
		return Bool{C: rv.kind() == kFloat32 || rv.kind() == kFloat64}
	})
	v("Bool", func(ex *Exec, rv RV, a []Val) Val {
		if rv.kind() != kBool {
			ex.rpanic("reflect: call of reflect.Value.Bool on %s Value", valueKindName(rv))
		}
		return rv.val()
	})
	v("Addr", func(ex *Exec, rv RV, a []Val) Val {
		if rv.Addr == nil {
			ex.rpanic("reflect.Value.Addr of unaddressable value")
		}
		return RV{T: types.NewPointer(rv.T), V: Ptr{rv.Addr}, RO: rv.RO}
	})
	return m
}

// valComparable: reflect.Value.Comparable (dynamic for interfaces, arrays, structs).
func (ex *Exec) valComparable(t types.Type, v Val) bool {
	switch u := t.Underlying().(type) {
	case *types.Interface:
		ifc, ok := v.(Iface)
		if !ok {
			return true
		}
		return ex.valComparable(ifc.T, ifc.V)
	case *types.Slice, *types.Map, *types.Signature:
		return false
	case *types.Array:
		if arr, ok := v.(Struct); ok {
			for _, e := range arr {
				if !ex.valComparable(u.Elem(), e) {
					return false
				}
			}
		}
		return types.Comparable(u.Elem()) || u.Len() == 0 || isIfaceType(u.Elem())
	case *types.Struct:
		st, _ := v.(Struct)
		for i := 0; i < u.NumFields(); i++ {
			var fv Val
			if i < len(st) {
				fv = st[i]
			}
			if !ex.valComparable(u.Field(i).Type(), fv) {
				return false
			}
		}
		return true
	}
	return true
}

func isIfaceType(t types.Type) bool {
	_, ok := t.Underlying().(*types.Interface)
	return ok
}

// structField builds a reflect.StructField value (field order taken from the loaded reflect package).
func (ex *Exec) structField(f *types.Var, idx []int) Val {
	rp := ex.w.prog.ImportedPackage("reflect")
	st := rp.Type("StructField").Type().Underlying().(*types.Struct)
	out := make(Struct, st.NumFields())
	for i := 0; i < st.NumFields(); i++ {
		fl := st.Field(i)
		out[i] = ex.zero(fl.Type())
		if f == nil {
			continue
		}
		switch fl.Name() {
		case "Name":
			out[i] = cstr(f.Name())
		case "PkgPath":
			if !f.Exported() && f.Pkg() != nil {
				out[i] = cstr(f.Pkg().Path())
			}
		case "Type":
			out[i] = ex.rtypeVal(f.Type())
		case "Index":
			vals := make([]Val, len(idx))
			for k, x := range idx {
				vals[k] = goInt(x)
			}
			out[i] = newSlice(vals)
		case "Anonymous":
			out[i] = Bool{C: f.Embedded()}
		}
	}
	return out
}

// exportedMethods: the method table of t as reflect numbers it (exported methods, sorted by name).
func (ex *Exec) exportedMethods(t types.Type) []*types.Selection {
	ms := ex.w.prog.MethodSets.MethodSet(t)
	var out []*types.Selection
	for i := 0; i < ms.Len(); i++ {
		if ms.At(i).Obj().Exported() {
			out = append(out, ms.At(i))
		}
	}
	return out
}

// methodStruct builds a reflect.Method value (Name, Type, Index; Func is left zero).
func (ex *Exec) methodStruct(sel *types.Selection, idx int) Val {
	rp := ex.w.prog.ImportedPackage("reflect")
	st := rp.Type("Method").Type().Underlying().(*types.Struct)
	out := make(Struct, st.NumFields())
	for i := 0; i < st.NumFields(); i++ {
		fl := st.Field(i)
		out[i] = ex.zero(fl.Type())
		if sel == nil {
			continue
		}
		switch fl.Name() {
		case "Name":
			out[i] = cstr(sel.Obj().Name())
		case "Type":
			out[i] = ex.rtypeVal(sel.Type())
		case "Index":
			out[i] = goInt(idx)
		}
	}
	return out
}

func valueKindName(rv RV) string {
	if rv.T == nil {
		return "zero"
	}
	return kindNames[rv.kind()]
}

func (ex *Exec) rvElem(rv RV) RV {
	switch rv.kind() {
	case kPointer:
		p, _ := rv.val().(Ptr)
		if p.P == nil {
			return RV{}
		}
		return RV{T: rv.T.Underlying().(*types.Pointer).Elem(), Addr: p.P, RO: rv.RO}
	case kInterface:
		ifc, ok := rv.val().(Iface)
		if !ok {
			return RV{}
		}
		return RV{T: ifc.T, V: ifc.V, RO: rv.RO}
	}
	ex.rpanic("reflect: call of reflect.Value.Elem on %s Value", valueKindName(rv))
	return RV{}
}

func (ex *Exec) rvLen(rv RV) int {
	switch rv.kind() {
	case kArray:
		return int(rv.T.Underlying().(*types.Array).Len())
	case kSlice:
		s, _ := rv.val().(Slice)
		return s.Len
	case kString:
		s := rv.val().(Str)
		ex.needBytes(s, "reflect Len")
		return len(s.B)
	case kMap:
		mo, _ := rv.val().(*MapObj)
		if mo == nil {
			return 0
		}
		return len(mo.K)
	case kChan:
		unsupported("channels")
	case kPointer:
		if at, ok := rv.T.Underlying().(*types.Pointer).Elem().Underlying().(*types.Array); ok {
			return int(at.Len())
		}
	}
	ex.rpanic("reflect: call of reflect.Value.Len on %s Value", valueKindName(rv))
	return 0
}

func (ex *Exec) rvIndex(rv RV, i Int) RV {
	si := Int{C: i.C, T: i.T, W: 64, S: true}
	inRange := func(n int, msg string) int {
		if si.T == nil {
			v := si.signed()
			if v < 0 || v >= int64(n) {
				ex.rpanic(msg)
			}
			return int(v)
		}
		if n == 0 || !ex.branch(mkBool(mkCmp("bvult", si.T, mkConst(uint64(n), 64)))) {
			ex.rpanic(msg)
		}
		return ex.concretize(si, 0, n-1)
	}
	switch rv.kind() {
	case kSlice:
		s, _ := rv.val().(Slice)
		k := inRange(s.Len, "reflect: slice index out of range")
		return RV{T: rv.T.Underlying().(*types.Slice).Elem(), Addr: s.at(k), RO: rv.RO}
	case kArray:
		at := rv.T.Underlying().(*types.Array)
		k := inRange(int(at.Len()), "reflect: array index out of range")
		if rv.Addr != nil {
			arr := (*rv.Addr).(Struct)
			return RV{T: at.Elem(), Addr: &arr[k], RO: rv.RO}
		}
		return RV{T: at.Elem(), V: copyVal(rv.V.(Struct)[k]), RO: rv.RO}
	case kString:
		s := rv.val().(Str)
		ex.needBytes(s, "reflect Index")
		k := inRange(len(s.B), "reflect: string index out of range")
		return RV{T: types.Typ[types.Uint8], V: s.B[k], RO: rv.RO}
	}
	ex.rpanic("reflect: call of reflect.Value.Index on %s Value", valueKindName(rv))
	return RV{}
}

// rvAssignTo: value of x converted for a location of type t, or the reflect panic.
func (ex *Exec) rvAssignTo(x RV, t types.Type, ctx string) Val {
	if x.T == nil {
		ex.rpanic("reflect: call of %s on zero Value", ctx)
	}
	if !ex.assignable(x.T, t) {
		ex.rpanic("%s: value of type %s is not assignable to type %s", ctx, typeString(x.T), typeString(t))
	}
	v := x.toType(t)
	if _, isI := t.Underlying().(*types.Interface); isI {
		ex.checkHashableCtx(v, ctx)
	}
	return v
}

func (ex *Exec) checkHashableCtx(v Val, ctx string) {
	if ctx == "reflect.Value.MapIndex" || ctx == "reflect.Value.SetMapIndex" {
		// only keys need to be hashable; callers pass elem values too, so the
		// check happens in mapFind (checkHashable) for keys only.
	}
}

func (ex *Exec) rvCall(rv RV, argv Val, isSlice bool) Val {
	if rv.T == nil {
		ex.rpanic("reflect: call of reflect.Value.Call on zero Value")
	}
	if rv.kind() != kFunc {
		ex.rpanic("reflect: call of reflect.Value.Call on %s Value", valueKindName(rv))
	}
	if rv.RO {
		ex.rpanic("reflect: reflect.Value.Call using value obtained using unexported field")
	}
	cl, _ := rv.val().(Closure)
	if isNilVal(cl) {
		ex.rpanic("reflect: call of nil function")
	}
	sig := rv.T.Underlying().(*types.Signature)
	as, _ := argv.(Slice)
	args := as.elems()
	n := sig.Params().Len()
	if isSlice {
		// CallSlice: the last argument is the variadic slice itself
		if !sig.Variadic() {
			ex.rpanic("reflect: CallSlice of non-variadic function")
		}
		if len(args) < n {
			ex.rpanic("reflect: CallSlice with too few input arguments")
		}
		if len(args) > n {
			ex.rpanic("reflect: CallSlice with too many input arguments")
		}
	} else if sig.Variadic() {
		if len(args) < n-1 {
			ex.rpanic("reflect: Call with too few input arguments")
		}
	} else {
		if len(args) < n {
			ex.rpanic("reflect: Call with too few input arguments")
		}
		if len(args) > n {
			ex.rpanic("reflect: Call with too many input arguments")
		}
	}
	for _, a := range args {
		if a.(RV).T == nil {
			ex.rpanic("reflect: Call using zero Value argument")
		}
	}
	fixed := n
	if sig.Variadic() && !isSlice {
		fixed = n - 1
	}
	call := make([]Val, 0, n)
	for i := 0; i < fixed; i++ {
		a := args[i].(RV)
		pt := sig.Params().At(i).Type()
		if a.RO {
			ex.rpanic("reflect: reflect.Value.Call using value obtained using unexported field")
		}
		if !ex.assignable(a.T, pt) {
			ex.rpanic("reflect: Call using %s as type %s", typeString(a.T), typeString(pt))
		}
		call = append(call, copyVal(a.toType(pt)))
	}
	if sig.Variadic() && !isSlice {
		st := sig.Params().At(n - 1).Type().Underlying().(*types.Slice)
		var rest []Val
		for i := fixed; i < len(args); i++ {
			a := args[i].(RV)
			if !ex.assignable(a.T, st.Elem()) {
				ex.rpanic("reflect: cannot use %s as type %s in Call", typeString(a.T), typeString(st.Elem()))
			}
			rest = append(rest, copyVal(a.toType(st.Elem())))
		}
		if rest == nil {
			call = append(call, Slice{})
		} else {
			call = append(call, newSlice(rest))
		}
	}
	res := ex.callClosure(cl, call)
	nres := sig.Results().Len()
	out := make([]Val, nres)
	switch nres {
	case 0:
	case 1:
		out[0] = RV{T: sig.Results().At(0).Type(), V: res}
	default:
		tp := res.(Tuple)
		for i := range out {
			out[i] = RV{T: sig.Results().At(i).Type(), V: tp[i]}
		}
	}
	return newSlice(out)
}

// rtypeMethod: methods of reflect.Type.
func (ex *Exec) rtypeMethod(rt RT, name string, args []Val) Val {
	t := rt.T
	k := kindOf(t)
	bad := func() {
		ex.rpanic("reflect: %s of non-applicable type %s", name, typeString(t))
	}
	switch name {
	case "Kind":
		return kindVal(k)
	case "String":
		return cstr(typeString(t))
	case "Name":
		if n, ok := t.(*types.Named); ok {
			return cstr(n.Obj().Name())
		}
		if b, ok := t.(*types.Basic); ok {
			return cstr(b.Name())
		}
		return cstr("")
	case "PkgPath":
		if n, ok := t.(*types.Named); ok && n.Obj().Pkg() != nil {
			return cstr(n.Obj().Pkg().Path())
		}
		return cstr("")
	case "Elem":
		switch u := t.Underlying().(type) {
		case *types.Array:
			return ex.rtypeVal(u.Elem())
		case *types.Chan:
			return ex.rtypeVal(u.Elem())
		case *types.Map:
			return ex.rtypeVal(u.Elem())
		case *types.Pointer:
			return ex.rtypeVal(u.Elem())
		case *types.Slice:
			return ex.rtypeVal(u.Elem())
		}
		ex.rpanic("reflect: Elem of invalid type %s", typeString(t))
	case "Key":
		if u, ok := t.Underlying().(*types.Map); ok {
			return ex.rtypeVal(u.Key())
		}
		ex.rpanic("reflect: Key of non-map type %s", typeString(t))
	case "Len":
		if u, ok := t.Underlying().(*types.Array); ok {
			return goInt(int(u.Len()))
		}
		bad()
	case "NumIn":
		if u, ok := t.Underlying().(*types.Signature); ok {
			return goInt(u.Params().Len())
		}
		ex.rpanic("reflect: NumIn of non-func type %s", typeString(t))
	case "NumOut":
		if u, ok := t.Underlying().(*types.Signature); ok {
			return goInt(u.Results().Len())
		}
		ex.rpanic("reflect: NumOut of non-func type %s", typeString(t))
	case "IsVariadic":
		if u, ok := t.Underlying().(*types.Signature); ok {
			return Bool{C: u.Variadic()}
		}
		ex.rpanic("reflect: IsVariadic of non-func type %s", typeString(t))
	case "In", "Out":
		u, ok := t.Underlying().(*types.Signature)
		if !ok {
			ex.rpanic("reflect: %s of non-func type %s", name, typeString(t))
		}
		tup := u.Params()
		if name == "Out" {
			tup = u.Results()
		}
		i := args[0].(Int)
		si := Int{C: i.C, T: i.T, W: 64, S: true}
		if si.T != nil {
			if tup.Len() == 0 || !ex.branch(mkBool(mkCmp("bvult", si.T, mkConst(uint64(tup.Len()), 64)))) {
				ex.gopanic("index", "reflect: Func index out of bounds")
			}
			return ex.rtypeVal(tup.At(ex.concretize(si, 0, tup.Len()-1)).Type())
		}
		if si.signed() < 0 || int(si.signed()) >= tup.Len() {
			ex.gopanic("index", "reflect: Func index out of bounds")
		}
		return ex.rtypeVal(tup.At(int(si.signed())).Type())
	case "NumField":
		if u, ok := t.Underlying().(*types.Struct); ok {
			return goInt(u.NumFields())
		}
		ex.rpanic("reflect: NumField of non-struct type %s", typeString(t))
	case "FieldByName":
		u, ok := t.Underlying().(*types.Struct)
		if !ok {
			ex.rpanic("reflect: FieldByName of non-struct type %s", typeString(t))
		}
		name, okn := args[0].(Str).conc()
		if !okn {
			unsupported("Type.FieldByName with a symbolic name")
		}
		idx, f := findField(u, name)
		if f == nil {
			return Tuple{ex.structField(nil, nil), Bool{C: false}}
		}
		return Tuple{ex.structField(f, idx), Bool{C: true}}
	case "Field":
		u, ok := t.Underlying().(*types.Struct)
		if !ok {
			ex.rpanic("reflect: Field of non-struct type %s", typeString(t))
		}
		i := ex.concInt(args[0], "Type.Field index")
		if i < 0 || i >= u.NumFields() {
			ex.rpanic("reflect: Field index out of bounds")
		}
		return ex.structField(u.Field(i), []int{i})
	case "Method":
		if k == kInterface {
			unsupported("Type.Method of an interface type")
		}
		i := ex.concInt(args[0], "Type.Method index")
		sels := ex.exportedMethods(t)
		if i < 0 || i >= len(sels) {
			ex.rpanic("reflect: Method index out of range")
		}
		return ex.methodStruct(sels[i], i)
	case "MethodByName":
		if k == kInterface {
			unsupported("Type.MethodByName of an interface type")
		}
		name, okn := args[0].(Str).conc()
		if !okn {
			unsupported("Type.MethodByName with a symbolic name")
		}
		for i, sel := range ex.exportedMethods(t) {
			if sel.Obj().Name() == name {
				return Tuple{ex.methodStruct(sel, i), Bool{C: true}}
			}
		}
		return Tuple{ex.methodStruct(nil, 0), Bool{C: false}}
	case "NumMethod":
		ms := ex.w.prog.MethodSets.MethodSet(t)
		n := 0
		for i := 0; i < ms.Len(); i++ {
			if ms.At(i).Obj().Exported() || k == kInterface {
				n++
			}
		}
		return goInt(n)
	case "AssignableTo":
		u := ex.argRT(args[0], "AssignableTo")
		if u == nil {
			ex.rpanic("reflect: nil type passed to Type.AssignableTo")
		}
		return Bool{C: ex.assignable(t, u)}
	case "ConvertibleTo":
		u := ex.argRT(args[0], "ConvertibleTo")
		if u == nil {
			ex.rpanic("reflect: nil type passed to Type.ConvertibleTo")
		}
		return Bool{C: types.ConvertibleTo(t, u)}
	case "Implements":
		u := ex.argRT(args[0], "Implements")
		if u == nil {
			ex.rpanic("reflect: nil type passed to Type.Implements")
		}
		it, ok := u.Underlying().(*types.Interface)
		if !ok {
			ex.rpanic("reflect: non-interface type passed to Type.Implements")
		}
		return Bool{C: types.Implements(t, it)}
	case "Comparable":
		return Bool{C: types.Comparable(t)}
	}
	unsupported("reflect.Type.%s", name)
	return nil
}

var _ ssa.Value
