package main

import (
	"encoding/json"
	"fmt"
	"os"
	"strings"
	"time"
)

// runReplay re-runs one replay vector against the natively compiled /repo.
func runReplay(path string) int {
	b, err := os.ReadFile(path)
	if err != nil {
		fmt.Fprintln(os.Stderr, err)
		return 2
	}
	var v Vector
	if err := json.Unmarshal(b, &v); err != nil {
		fmt.Fprintln(os.Stderr, err)
		return 2
	}
	prepareHarnessModule()
	pkg := strings.ToLower(v.Property)
	bin, err := buildReplayBinary(pkg)
	if err != nil {
		fmt.Fprintln(os.Stderr, err)
		return 2
	}
	defer os.Remove(bin)
	v.ID = 1
	res := runBatch(bin, []*Vector{&v}, 10*time.Second)
	r := res[1]
	if r == nil {
		fmt.Println("no result")
		return 2
	}
	out, _ := json.Marshal(r)
	fmt.Printf("replay %s harness=%s inputs=%v\nnative: %s\n", path, v.Harness, v.Inputs, out)
	if r.Outcome == "ok" {
		fmt.Println("NOT REPRODUCED on the current /repo")
		return 0
	}
	fmt.Printf("REPRODUCED signature=%q\n", r.signature(v.Harness))
	return 1
}

func runSelftest() int {
	return selftest()
}
