package main

import "fmt"

// selftest: differential validation of the models against the standard library
// (filled in by selftest_models.go).
func selftest() int {
	bad := selftestModels()
	if bad > 0 {
		fmt.Println("ENGINE-ERROR: selftest mismatches:", bad)
		return 3
	}
	fmt.Println("selftest ok")
	return 0
}
