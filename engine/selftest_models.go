package main

// Differential self-test of the models against the standard library. The
// symbolic branch logic of a model is exercised by handing it symbolic bytes
// that an assumption pins to one concrete value each, and evaluating the
// result under that assignment.

import (
	"encoding/json"
	"fmt"
	"go/token"
	"go/types"
	"html/template"
	"strconv"
	"strings"
	"unicode"
	"unicode/utf8"
)

type pinned struct {
	ex   *Exec
	vals map[string]uint64
}

// one solver process serves every pinned execution of the self-test (resetPath empties its stack)
var selftestSolver *Solver

func newPinned() *pinned {
	if selftestSolver == nil {
		selftestSolver = newSolver("z3", 20000)
	}
	ex := &Exec{w: &World{}, sol: selftestSolver, st: newStats(), q: newQueue(), viols: &violSet{bySig: map[string][]*Violation{}, count: map[string]int{}}}
	ex.resetPath(nil)
	ex.fuel = 1 << 40
	return &pinned{ex: ex, vals: map[string]uint64{}}
}

// sym returns symbolic bytes pinned to the bytes of s.
func (p *pinned) sym(s string) Str {
	out := Str{B: make([]Int, len(s))}
	for i := 0; i < len(s); i++ {
		t := p.ex.freshVar("byte", 8)
		p.ex.assume(mkBool(mkEq(t, mkConst(uint64(s[i]), 8))))
		p.vals[t.Name] = uint64(s[i])
		out.B[i] = Int{T: t, W: 8}
	}
	return out
}

func (p *pinned) eval(s Str) (string, bool) {
	env := func(name string, id int) uint64 { return p.vals[name] }
	var b []byte
	for _, e := range s.B {
		switch {
		case e.W != 8:
			return "", false
		case e.T != nil:
			b = append(b, byte(e.T.eval(env)))
		default:
			b = append(b, byte(e.C))
		}
	}
	return string(b), true
}

// run executes f on a fresh path; a pathEnd (unsupported) counts as "no answer".
func run(f func(p *pinned) (string, bool)) (out string, ok bool) {
	p := newPinned()
	defer func() {
		if r := recover(); r != nil {
			out, ok = fmt.Sprint(r), false
		}
	}()
	return f(p)
}

func selftestModels() int {
	bad := 0
	report := func(what, in, got, want string) {
		bad++
		if bad < 20 {
			fmt.Printf("selftest mismatch: %s(%q): model %q, stdlib %q\n", what, in, got, want)
		}
	}
	var inputs []string
	for c := 0; c < 256; c++ {
		inputs = append(inputs, string([]byte{byte(c)}))
	}
	inputs = append(inputs, "", "a<b>&'\"c", "<<", "&amp;", "é", "日本", "\xff\xfe", "\xe2\x80\xa8", "a\x00b", "</script>", "\\'\"", "x=y", "\r\n\t")
	defer func() {
		if selftestSolver != nil {
			selftestSolver.close()
			selftestSolver = nil
		}
	}()
	checked := 0
	for _, in := range inputs {
		in := in
		// html escaper
		got, ok := run(func(p *pinned) (string, bool) { return p.eval(p.ex.htmlEscape(p.sym(in))) })
		if want := template.HTMLEscapeString(in); !ok || got != want {
			report("HTMLEscapeString", in, got, want)
		}
		// concrete path of the same model
		got, ok = run(func(p *pinned) (string, bool) { return p.eval(p.ex.htmlEscape(cstr(in))) })
		if want := template.HTMLEscapeString(in); !ok || got != want {
			report("HTMLEscapeString(concrete)", in, got, want)
		}
		// js escaper: symbolic model for ASCII input
		ascii := true
		for i := 0; i < len(in); i++ {
			if in[i] >= 0x80 {
				ascii = false
			}
		}
		if ascii {
			got, ok = run(func(p *pinned) (string, bool) { return p.eval(p.ex.jsEscape(p.sym(in))) })
			if want := template.JSEscapeString(in); !ok || got != want {
				report("JSEscapeString", in, got, want)
			}
		}
		// UTF-8 decoder
		gotN, ok2 := run(func(p *pinned) (string, bool) {
			s := p.sym(in)
			n := 0
			var rs []string
			for pos := 0; pos < len(s.B); {
				r, w := p.ex.decodeRune(s.B[pos:])
				v := r.C
				if r.T != nil {
					v = r.T.eval(func(name string, id int) uint64 { return p.vals[name] })
				}
				rs = append(rs, strconv.Itoa(int(int32(v)))+"/"+strconv.Itoa(w))
				pos += w
				n++
			}
			return strings.Join(rs, ","), true
		})
		var wantRs []string
		for pos := 0; pos < len(in); {
			r, w := utf8.DecodeRuneInString(in[pos:])
			wantRs = append(wantRs, strconv.Itoa(int(r))+"/"+strconv.Itoa(w))
			pos += w
		}
		if want := strings.Join(wantRs, ","); !ok2 || gotN != want {
			report("DecodeRune", in, gotN, want)
		}
		// strings models
		for _, sep := range []string{"a", "<%", "\\<%", "."} {
			got, ok = run(func(p *pinned) (string, bool) {
				parts := mStringsSplit(p.ex, []Val{p.sym(in + sep + in), cstr(sep)}).(Slice)
				var ss []string
				for _, e := range parts.elems() {
					s, _ := p.eval(e.(Str))
					ss = append(ss, s)
				}
				return strings.Join(ss, "|"), true
			})
			if want := strings.Join(strings.Split(in+sep+in, sep), "|"); !ok || got != want {
				report("strings.Split", in+sep+in, got, want)
			}
			got, ok = run(func(p *pinned) (string, bool) {
				return p.eval(mStringsReplace(p.ex, []Val{p.sym(in + sep + in), cstr(sep), cstr("R"), cint(-1, 64, true)}).(Str))
			})
			if want := strings.Replace(in+sep+in, sep, "R", -1); !ok || got != want {
				report("strings.Replace", in+sep+in, got, want)
			}
		}
		if ascii {
			got, ok = run(func(p *pinned) (string, bool) {
				return p.eval(mStringsTrimSpace(p.ex, []Val{p.sym(" " + in + "\n")}).(Str))
			})
			if want := strings.TrimSpace(" " + in + "\n"); !ok || got != want {
				report("strings.TrimSpace", in, got, want)
			}
		}
		// further strings models (strings_sym.go)
		evalInt := func(p *pinned, v Val) string {
			i := v.(Int)
			if i.T != nil {
				return strconv.FormatInt(int64(i.T.eval(func(name string, id int) uint64 { return p.vals[name] })), 10)
			}
			return strconv.FormatInt(i.signed(), 10)
		}
		evalBool := func(p *pinned, v Val) string {
			b := v.(Bool)
			if b.T != nil {
				return strconv.FormatBool(b.T.eval(func(name string, id int) uint64 { return p.vals[name] }) != 0)
			}
			return strconv.FormatBool(b.C)
		}
		padded := " " + in + "\n "
		type sc struct {
			name string
			got  func(p *pinned) (string, bool)
			want string
		}
		scs := []sc{
			{"strings.Replacer", func(p *pinned) (string, bool) {
				oldnew := []Val{cstr("&"), cstr("&amp;"), cstr("<"), cstr("&lt;"), cstr("<%"), cstr("T"), cstr("ab"), cstr("X"), cstr("a"), cstr("Y")}
				r := mNewReplacer(p.ex, []Val{newSlice(oldnew)})
				return p.eval(mReplacerReplace(p.ex, []Val{r, p.sym("a" + in + "<%ab" + in)}).(Str))
			}, strings.NewReplacer("&", "&amp;", "<", "&lt;", "<%", "T", "ab", "X", "a", "Y").Replace("a" + in + "<%ab" + in)},
			{"strings.ContainsAny", func(p *pinned) (string, bool) {
				return evalBool(p, models["strings.ContainsAny"](p.ex, []Val{p.sym(in), cstr("&<>\"\x00")})), true
			}, strconv.FormatBool(strings.ContainsAny(in, "&<>\"\x00"))},
			{"strings.IndexAny", func(p *pinned) (string, bool) {
				return evalInt(p, models["strings.IndexAny"](p.ex, []Val{p.sym("ab" + in), cstr("'<\\")})), true
			}, strconv.Itoa(strings.IndexAny("ab"+in, "'<\\"))},
			{"strings.LastIndex", func(p *pinned) (string, bool) {
				return evalInt(p, models["strings.LastIndex"](p.ex, []Val{p.sym(in + "<%" + in), cstr("<%")})), true
			}, strconv.Itoa(strings.LastIndex(in+"<%"+in, "<%"))},
			{"strings.Count", func(p *pinned) (string, bool) {
				return evalInt(p, models["strings.Count"](p.ex, []Val{p.sym(in + "aa" + in + "a"), cstr("a")})), true
			}, strconv.Itoa(strings.Count(in+"aa"+in+"a", "a"))},
			{"strings.TrimLeft", func(p *pinned) (string, bool) {
				return p.eval(models["strings.TrimLeft"](p.ex, []Val{p.sym(padded), cstr(" \n")}).(Str))
			}, strings.TrimLeft(padded, " \n")},
			{"strings.Trim", func(p *pinned) (string, bool) {
				return p.eval(models["strings.Trim"](p.ex, []Val{p.sym(padded), cstr(" \n")}).(Str))
			}, strings.Trim(padded, " \n")},
			{"strings.TrimSuffix", func(p *pinned) (string, bool) {
				return p.eval(models["strings.TrimSuffix"](p.ex, []Val{p.sym(in + "\n"), cstr("\n")}).(Str))
			}, strings.TrimSuffix(in+"\n", "\n")},
			{"strings.TrimPrefix", func(p *pinned) (string, bool) {
				return p.eval(models["strings.TrimPrefix"](p.ex, []Val{p.sym(in + "x"), cstr("<")}).(Str))
			}, strings.TrimPrefix(in+"x", "<")},
		}
		if ascii {
			scs = append(scs,
				sc{"strings.ToUpper", func(p *pinned) (string, bool) {
					return p.eval(models["strings.ToUpper"](p.ex, []Val{p.sym("q" + in)}).(Str))
				}, strings.ToUpper("q" + in)},
				sc{"strings.ToLower", func(p *pinned) (string, bool) {
					return p.eval(models["strings.ToLower"](p.ex, []Val{p.sym("Q" + in)}).(Str))
				}, strings.ToLower("Q" + in)},
				sc{"strings.EqualFold", func(p *pinned) (string, bool) {
					return evalBool(p, models["strings.EqualFold"](p.ex, []Val{p.sym("a" + in), cstr("A" + strings.ToUpper(in))})), true
				}, strconv.FormatBool(strings.EqualFold("a"+in, "A"+strings.ToUpper(in)))},
				sc{"strings.Fields", func(p *pinned) (string, bool) {
					var ss []string
					for _, e := range models["strings.Fields"](p.ex, []Val{p.sym("a " + in + " b")}).(Slice).elems() {
						x, _ := p.eval(e.(Str))
						ss = append(ss, x)
					}
					return strings.Join(ss, "|"), true
				}, strings.Join(strings.Fields("a "+in+" b"), "|")},
			)
			if len(in) == 1 {
				r := rune(in[0])
				for name, f := range map[string]func(rune) bool{"unicode.IsSpace": unicode.IsSpace, "unicode.IsDigit": unicode.IsDigit, "unicode.IsLetter": unicode.IsLetter, "unicode.IsUpper": unicode.IsUpper, "unicode.IsLower": unicode.IsLower, "unicode.IsPunct": unicode.IsPunct, "unicode.IsControl": unicode.IsControl, "unicode.IsPrint": unicode.IsPrint} {
					name, f := name, f
					scs = append(scs, sc{name, func(p *pinned) (string, bool) {
						t := p.ex.freshVar("int", 32)
						p.ex.assume(mkBool(mkEq(t, mkConst(uint64(r), 32))))
						p.vals[t.Name] = uint64(r)
						return evalBool(p, models[name](p.ex, []Val{Int{T: t, W: 32, S: true}})), true
					}, strconv.FormatBool(f(r))})
				}
				scs = append(scs, sc{"unicode.ToUpper", func(p *pinned) (string, bool) {
					t := p.ex.freshVar("int", 32)
					p.ex.assume(mkBool(mkEq(t, mkConst(uint64(r), 32))))
					p.vals[t.Name] = uint64(r)
					return evalInt(p, models["unicode.ToUpper"](p.ex, []Val{Int{T: t, W: 32, S: true}})), true
				}, strconv.Itoa(int(unicode.ToUpper(r)))})
			}
		}
		for _, c := range scs {
			got, ok := run(c.got)
			if !ok || got != c.want {
				report(c.name, in, got, c.want)
			}
		}
		// JSON string encoder, both escaping modes
		for _, esc := range []bool{true, false} {
			esc := esc
			var sb strings.Builder
			enc := json.NewEncoder(&sb)
			enc.SetEscapeHTML(esc)
			enc.Encode(in)
			want := strings.TrimSuffix(sb.String(), "\n")
			got, ok = run(func(p *pinned) (string, bool) { return p.eval(p.ex.jsonString(p.sym(in), esc)) })
			if !ok || got != want {
				report(fmt.Sprintf("json string (escapeHTML=%v)", esc), in, got, want)
			}
			got, ok = run(func(p *pinned) (string, bool) { return p.eval(p.ex.jsonString(cstr(in), esc)) })
			if !ok || got != want {
				report(fmt.Sprintf("json string concrete (escapeHTML=%v)", esc), in, got, want)
			}
		}
		checked++
	}
	bad += selftestJSONShapes(report)
	// rune encoder
	for _, r := range []rune{0, 'a', 0x7f, 0x80, 0x7ff, 0x800, 0xd7ff, 0xd800, 0xdfff, 0xe000, 0xfffd, 0xffff, 0x10000, 0x10ffff, 0x110000, -1} {
		r := r
		got, ok := run(func(p *pinned) (string, bool) {
			t := p.ex.freshVar("int", 32)
			p.ex.assume(mkBool(mkEq(t, mkConst(uint64(uint32(r)), 32))))
			p.vals[t.Name] = uint64(uint32(r))
			return p.eval(p.ex.runeToString(Int{T: t, W: 32, S: true}))
		})
		if want := string(r); !ok || got != want {
			report("string(rune)", fmt.Sprint(r), got, want)
		}
	}
	// formatting of concrete values
	type fc struct {
		f    string
		v    Val
		want string
	}
	for _, c := range []fc{
		{"%v", goInt(-42), fmt.Sprintf("%v", -42)},
		{"%d", goInt(7), fmt.Sprintf("%d", 7)},
		{"%s", cstr("x y"), fmt.Sprintf("%s", "x y")},
		{"%q", cstr("a\"b\n"), fmt.Sprintf("%q", "a\"b\n")},
		{"%v", Bool{C: true}, "true"},
		{"%v", Float{V: 1.5, W: 64}, fmt.Sprintf("%v", 1.5)},
		{"%v", Float{V: 1e21, W: 64}, fmt.Sprintf("%v", 1e21)},
		{"line %d: %s", goInt(3), ""},
	} {
		if c.want == "" {
			continue
		}
		c := c
		got, ok := run(func(p *pinned) (string, bool) {
			s, _ := p.ex.sprintf(cstr(c.f), newSlice([]Val{wrapBasic(c.v)}))
			return p.eval(s)
		})
		if !ok || got != c.want {
			report("fmt.Sprintf "+c.f, fmt.Sprint(c.v), got, c.want)
		}
	}
	// Atoi on pinned symbolic digits
	for _, in := range []string{"0", "7", "-12", "+5", "123456789", "12a", "", "-", "00012"} {
		in := in
		got, ok := run(func(p *pinned) (string, bool) {
			r := mAtoi(p.ex, []Val{p.sym(in)}).(Tuple)
			if r[1] != nil {
				return "error", true
			}
			i := r[0].(Int)
			v := i.C
			if i.T != nil {
				v = i.T.eval(func(name string, id int) uint64 { return p.vals[name] })
			}
			return strconv.FormatInt(int64(v), 10), true
		})
		want := "error"
		if n, err := strconv.Atoi(in); err == nil {
			want = strconv.Itoa(n)
		}
		if !ok || got != want {
			report("strconv.Atoi", in, got, want)
		}
	}
	fmt.Printf("selftest: %d inputs x {html, js, json string (both escaping modes), utf8, split, replace, trimspace, Replacer, ContainsAny, IndexAny, LastIndex, Count, Trim*, ToUpper/ToLower, EqualFold, Fields, unicode predicates} + 14 JSON container shapes + rune encoder + formatting + Atoi compared with the standard library, %d mismatches\n", checked, bad)
	return bad
}

func wrapBasic(v Val) Val { return v }

// container shapes of the JSON model against json.Marshal
func selftestJSONShapes(report func(what, in, got, want string)) int {
	tString, tInt, tBool := types.Typ[types.String], types.Typ[types.Int], types.Typ[types.Bool]
	tAny := types.NewInterfaceType(nil, nil)
	fld := func(name string, t types.Type) *types.Var { return types.NewField(token.NoPos, nil, name, t, false) }
	type rec struct {
		Name  string `json:"name"`
		N     int    `json:"n,omitempty"`
		Skip  string `json:"-"`
		Plain bool
		Q     int `json:",string"`
		P     *int
		hid   int
	}
	tRec := types.NewStruct([]*types.Var{fld("Name", tString), fld("N", tInt), fld("Skip", tString), fld("Plain", tBool), fld("Q", tInt), fld("P", types.NewPointer(tInt)), fld("hid", tInt)},
		[]string{`json:"name"`, `json:"n,omitempty"`, `json:"-"`, "", `json:",string"`, "", ""})
	seven := 7
	var sevenV Val = goInt(7)
	type cs struct {
		name string
		v    Val
		t    types.Type
		want interface{}
	}
	mk := func(keys []string, vals []Val, kt, vt types.Type) *MapObj {
		m := &MapObj{KT: kt, VT: vt}
		for i, k := range keys {
			m.K = append(m.K, cstr(k))
			m.V = append(m.V, vals[i])
		}
		return m
	}
	cases := []cs{
		{"nil", nil, nil, nil},
		{"int", goInt(-5), tInt, -5},
		{"bool", Bool{C: true}, tBool, true},
		{"float", Float{V: 1.5, W: 64}, types.Typ[types.Float64], 1.5},
		{"bigfloat", Float{V: 1e21, W: 64}, types.Typ[types.Float64], 1e21},
		{"[]string", newSlice([]Val{cstr("a<"), cstr("b")}), types.NewSlice(tString), []string{"a<", "b"}},
		{"nil []string", Slice{}, types.NewSlice(tString), []string(nil)},
		{"[]int{}", newSlice([]Val{}), types.NewSlice(tInt), []int{}},
		{"[2]int", Struct{goInt(1), goInt(2)}, types.NewArray(tInt, 2), [2]int{1, 2}},
		{"map[string]int", mk([]string{"b", "a", "&"}, []Val{goInt(1), goInt(2), goInt(3)}, tString, tInt), types.NewMap(tString, tInt), map[string]int{"b": 1, "a": 2, "&": 3}},
		{"nil map", (*MapObj)(nil), types.NewMap(tString, tInt), map[string]int(nil)},
		{"map[string]interface{}", mk([]string{"k"}, []Val{Iface{T: tString, V: cstr("v")}}, tString, tAny), types.NewMap(tString, tAny), map[string]interface{}{"k": "v"}},
		{"struct", Struct{cstr("x\"y"), goInt(0), cstr("s"), Bool{C: false}, goInt(3), Ptr{}, goInt(9)}, tRec, rec{Name: "x\"y", Skip: "s", Q: 3, hid: 9}},
		{"struct2", Struct{cstr(""), goInt(4), cstr(""), Bool{C: true}, goInt(-1), Ptr{&sevenV}, goInt(0)}, tRec, rec{N: 4, Plain: true, Q: -1, P: &seven}},
		{"*struct", Ptr{new(Val)}, types.NewPointer(tRec), nil},
	}
	for _, c := range cases {
		c := c
		if c.name == "*struct" {
			continue
		}
		wantB, _ := json.Marshal(c.want)
		got, ok := run(func(p *pinned) (string, bool) {
			v := c.v
			if c.t != nil {
				v = Iface{T: c.t, V: c.v}
			}
			s, err := p.ex.jsonMarshal(v, true)
			if err != nil {
				return "error", true
			}
			return p.eval(s)
		})
		if !ok || got != string(wantB) {
			report("json.Marshal "+c.name, "", got, string(wantB))
		}
	}
	return 0
}
