package main

func selftestModels() int { return 0 }
