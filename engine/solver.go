package main

// One z3 process per worker ("z3 -in"). The assertion stack of the process
// mirrors a prefix of the current path condition: a query pops to the common
// prefix and pushes the rest, so following one path costs one push per conjunct.

import (
	"bufio"
	"fmt"
	"io"
	"os"
	"os/exec"
	"sort"
	"strconv"
	"strings"
	"time"
)

type Solver struct {
	cmd    *exec.Cmd
	in     *bufio.Writer
	inRaw  io.WriteCloser
	out    *bufio.Reader
	decl   map[string]bool
	stack  []*Term // asserted, one push level each
	nSat   int64
	nUnsat int64
	nUnk   int64
	dur    time.Duration
	bin    string
	log    *os.File // optional SMT-LIB transcript of leaf obligations
	tmo    int      // per-query timeout ms
	fpMode bool     // the short floating-point timeout is in force
	alt    *Solver  // cvc5, started on demand for queries with floating-point terms (z3 needs minutes for them)
	isAlt  bool
	xcap   int // cross-solver sample: at most this many queries are kept
	xlog   []xquery
	xseen  int
}

// xquery: a self-contained copy of a query and z3's verdict, for the cross-solver comparison
type xquery struct {
	text string
	res  satResult
}

func collectVars(t *Term, seen map[string]int) {
	if t.vid == -1 {
		return
	}
	if t.Op == "var" {
		seen[t.Name] = t.W
		return
	}
	for _, a := range t.Args {
		collectVars(a, seen)
	}
}

func (s *Solver) record(pc []*Term, extra *Term, r satResult) {
	if s.xcap == 0 || r == resUnknown {
		return
	}
	// floating-point queries are decided by cvc5 and not cross-checked: both z3
	// versions need minutes for them
	for _, t := range pc {
		if t.fp {
			return
		}
	}
	if extra != nil && extra.fp {
		return
	}
	s.xseen++
	// keep the first xcap/2 queries and then every 50th one
	if len(s.xlog) >= s.xcap || (len(s.xlog) >= s.xcap/2 && s.xseen%50 != 0) {
		return
	}
	vars := map[string]int{}
	for _, t := range pc {
		collectVars(t, vars)
	}
	if extra != nil {
		collectVars(extra, vars)
	}
	names := make([]string, 0, len(vars))
	for n := range vars {
		names = append(names, n)
	}
	sort.Strings(names)
	var sb strings.Builder
	sb.WriteString("(push 1)\n")
	for _, n := range names {
		fmt.Fprintf(&sb, "(declare-const %s (_ BitVec %d))\n", n, vars[n])
	}
	for _, t := range pc {
		sb.WriteString("(assert " + t.s + ")\n")
	}
	if extra != nil {
		sb.WriteString("(assert " + extra.s + ")\n")
	}
	sb.WriteString("(check-sat)\n(pop 1)\n")
	s.xlog = append(s.xlog, xquery{sb.String(), r})
}

func newSolver(bin string, timeoutMs int) *Solver {
	s := &Solver{bin: bin, tmo: timeoutMs}
	s.start()
	return s
}

func (s *Solver) start() {
	var c *exec.Cmd
	switch {
	case strings.Contains(s.bin, "cvc5"):
		c = exec.Command(s.bin, "--incremental", "--lang=smt2", "--produce-models", fmt.Sprintf("--tlimit-per=%d", s.tmo))
	default:
		c = exec.Command(s.bin, "-in", fmt.Sprintf("-t:%d", s.tmo))
	}
	in, _ := c.StdinPipe()
	out, _ := c.StdoutPipe()
	c.Stderr = os.Stderr
	if err := c.Start(); err != nil {
		panic(engineError("cannot start solver " + s.bin + ": " + err.Error()))
	}
	s.cmd, s.inRaw, s.in, s.out = c, in, bufio.NewWriterSize(in, 1<<16), bufio.NewReaderSize(out, 1<<16)
	s.decl = map[string]bool{}
	s.stack = nil
	s.fpMode = false
	if strings.Contains(s.bin, "cvc5") {
		if s.isAlt {
			s.in.WriteString("(set-logic ALL)\n")
		} else {
			s.in.WriteString("(set-logic QF_BV)\n")
		}
	}
}

func (s *Solver) close() {
	if s.alt != nil {
		s.alt.close()
		s.alt = nil
	}
	if s.cmd != nil {
		s.inRaw.Close()
		s.cmd.Process.Kill()
		s.cmd.Wait()
		s.cmd = nil
	}
}

func (s *Solver) declare(t *Term) {
	if t.Op == "var" {
		if !s.decl[t.Name] {
			s.decl[t.Name] = true
			fmt.Fprintf(s.in, "(declare-const %s (_ BitVec %d))\n", t.Name, t.W)
		}
		return
	}
	if t.vid == -1 {
		return
	}
	for _, a := range t.Args {
		s.declare(a)
	}
}

// sync makes the solver's assertion stack equal to pc.
func (s *Solver) sync(pc []*Term) {
	k := 0
	for k < len(s.stack) && k < len(pc) && s.stack[k] == pc[k] {
		k++
	}
	if n := len(s.stack) - k; n > 0 {
		fmt.Fprintf(s.in, "(pop %d)\n", n)
		s.stack = s.stack[:k]
		// declarations made inside popped scopes are gone in z3; keep it simple:
		// declarations are always emitted at level 0 (see declareAll below).
	}
	for ; k < len(pc); k++ {
		s.in.WriteString("(push 1)\n(assert ")
		s.in.WriteString(pc[k].s)
		s.in.WriteString(")\n")
		s.stack = append(s.stack, pc[k])
	}
}

// declareAll: z3 scopes declarations with push/pop, so every variable is
// declared at level 0: pop everything first if a new variable shows up.
func (s *Solver) declareAll(ts ...*Term) {
	need := false
	var chk func(t *Term)
	chk = func(t *Term) {
		if need || t.vid == -1 {
			return
		}
		if t.Op == "var" {
			if !s.decl[t.Name] {
				need = true
			}
			return
		}
		for _, a := range t.Args {
			chk(a)
		}
	}
	for _, t := range ts {
		chk(t)
	}
	if !need {
		return
	}
	if len(s.stack) > 0 {
		fmt.Fprintf(s.in, "(pop %d)\n", len(s.stack))
		s.stack = s.stack[:0]
	}
	for _, t := range ts {
		s.declare(t)
	}
}

type satResult int

const (
	resUnsat satResult = iota
	resSat
	resUnknown
)

func (s *Solver) readLine() string {
	line, err := s.out.ReadString('\n')
	if err != nil {
		panic(engineError("solver died: " + err.Error()))
	}
	return strings.TrimSpace(line)
}

// check decides pc ∧ extra (extra may be nil).
// fpAlt: the solver for a query with floating-point terms, nil if this one will do.
func (s *Solver) fpAlt(ts []*Term) *Solver {
	if s.isAlt || strings.Contains(s.bin, "cvc5") {
		return nil
	}
	fp := false
	for _, t := range ts {
		if t != nil && t.fp {
			fp = true
			break
		}
	}
	if !fp {
		return nil
	}
	if s.alt == nil {
		s.alt = &Solver{bin: "cvc5", tmo: s.tmo, isAlt: true}
		s.alt.start()
	}
	return s.alt
}

// fpTimeout: floating-point queries get a short limit (bit-blasted multipliers and
// rounding either answer at once or not at all); an unknown is an inconclusive path.
func (s *Solver) fpTimeout(ts []*Term) {
	fp := false
	for _, t := range ts {
		if t.fp {
			fp = true
			break
		}
	}
	if fp == s.fpMode || strings.Contains(s.bin, "cvc5") {
		return
	}
	s.fpMode = fp
	if fp {
		s.in.WriteString("(set-option :timeout 4000)\n")
	} else {
		fmt.Fprintf(s.in, "(set-option :timeout %d)\n", s.tmo)
	}
}

func (s *Solver) check(pc []*Term, extra *Term) satResult {
	t0 := time.Now()
	all := pc
	if extra != nil {
		all = append(append([]*Term{}, pc...), extra)
	}
	if a := s.fpAlt(all); a != nil {
		r := a.check(pc, extra)
		s.dur += time.Since(t0)
		switch r {
		case resSat:
			s.nSat++
		case resUnsat:
			s.nUnsat++
		default:
			s.nUnk++
		}
		s.record(pc, extra, r)
		return r
	}
	s.declareAll(all...)
	s.sync(pc)
	s.fpTimeout(all)
	if extra != nil {
		s.in.WriteString("(push 1)\n(assert ")
		s.in.WriteString(extra.s)
		s.in.WriteString(")\n(check-sat)\n(pop 1)\n")
	} else {
		s.in.WriteString("(check-sat)\n")
	}
	s.in.Flush()
	line := s.readLine()
	s.dur += time.Since(t0)
	if d := time.Since(t0); d > 200*time.Millisecond && os.Getenv("SYMGO_SLOW") != "" {
		ex := "nil"
		if extra != nil {
			ex = extra.s
		}
		fmt.Fprintf(os.Stderr, "SLOW %v %s extra=%s\n  pc=%v\n", d, line, ex, pc)
	}
	switch line {
	case "sat":
		s.nSat++
		s.record(pc, extra, resSat)
		return resSat
	case "unsat":
		s.nUnsat++
		s.record(pc, extra, resUnsat)
		return resUnsat
	}
	s.nUnk++
	if strings.Contains(line, "error") {
		// an (error line: inconclusive, and resynchronise by restarting the process
		fmt.Fprintln(os.Stderr, "solver error line:", line)
		s.close()
		s.start()
	}
	return resUnknown
}

// model returns values for the variables under pc ∧ extra; ok=false if not sat.
func (s *Solver) model(pc []*Term, extra *Term, vars []*Term) (map[string]uint64, satResult) {
	t0 := time.Now()
	all := append(append([]*Term{}, pc...), vars...)
	if extra != nil {
		all = append(all, extra)
	}
	if a := s.fpAlt(all); a != nil {
		m, r := a.model(pc, extra, vars)
		s.dur += time.Since(t0)
		switch r {
		case resSat:
			s.nSat++
		case resUnsat:
			s.nUnsat++
		default:
			s.nUnk++
		}
		s.record(pc, extra, r)
		return m, r
	}
	s.declareAll(all...)
	s.sync(pc)
	s.fpTimeout(all)
	s.in.WriteString("(push 1)\n")
	if extra != nil {
		s.in.WriteString("(assert " + extra.s + ")\n")
	}
	s.in.WriteString("(check-sat)\n")
	s.in.Flush()
	line := s.readLine()
	res := map[string]uint64{}
	r := resUnknown
	switch line {
	case "sat":
		s.nSat++
		r = resSat
		if len(vars) > 0 {
			var sb strings.Builder
			sb.WriteString("(get-value (")
			for _, v := range vars {
				sb.WriteString(v.s)
				sb.WriteByte(' ')
			}
			sb.WriteString("))\n")
			s.in.WriteString(sb.String())
			s.in.Flush()
			txt := s.readSexp()
			parseModel(txt, res)
		}
	case "unsat":
		s.nUnsat++
		r = resUnsat
	default:
		s.nUnk++
	}
	s.record(pc, extra, r)
	s.in.WriteString("(pop 1)\n")
	s.in.Flush()
	s.dur += time.Since(t0)
	return res, r
}

func (s *Solver) readSexp() string {
	var sb strings.Builder
	depth, started := 0, false
	for {
		b, err := s.out.ReadByte()
		if err != nil {
			panic(engineError("solver died while reading model"))
		}
		sb.WriteByte(b)
		if b == '(' {
			depth++
			started = true
		} else if b == ')' {
			depth--
		}
		if started && depth == 0 {
			s.out.ReadString('\n')
			break
		}
	}
	return sb.String()
}

// parseModel reads "((v0 #x41) (v1 #b0101) (v2 (_ bv5 64)))".
func parseModel(txt string, out map[string]uint64) {
	toks := strings.FieldsFunc(txt, func(r rune) bool { return r == '(' || r == ')' || r == ' ' || r == '\n' || r == '\t' })
	for i := 0; i < len(toks); i++ {
		name := toks[i]
		if i+1 >= len(toks) {
			break
		}
		v := toks[i+1]
		switch {
		case strings.HasPrefix(v, "#x"):
			x, _ := strconv.ParseUint(v[2:], 16, 64)
			out[name] = x
			i++
		case strings.HasPrefix(v, "#b"):
			x, _ := strconv.ParseUint(v[2:], 2, 64)
			out[name] = x
			i++
		case v == "_" && i+3 < len(toks) && strings.HasPrefix(toks[i+2], "bv"):
			x, _ := strconv.ParseUint(toks[i+2][2:], 10, 64)
			out[name] = x
			i += 3
		}
	}
}

// crossCheck re-decides the recorded queries with another solver binary and
// returns (compared, disagreements, inconclusive).
func crossCheck(bin string, qs []xquery) (int, int, int, error) {
	if len(qs) == 0 {
		return 0, 0, 0, nil
	}
	f, err := os.CreateTemp(workDir(), "cross-*.smt2")
	if err != nil {
		return 0, 0, 0, err
	}
	defer os.Remove(f.Name())
	w := bufio.NewWriter(f)
	fpScript := false
	for _, q := range qs {
		if strings.Contains(q.text, "to_fp") || strings.Contains(q.text, "fp.") {
			fpScript = true
		}
	}
	if fpScript {
		w.WriteString("(set-logic ALL)\n")
	} else {
		w.WriteString("(set-logic QF_BV)\n")
	}
	for _, q := range qs {
		w.WriteString(q.text)
	}
	w.Flush()
	f.Close()
	var cmd *exec.Cmd
	if strings.Contains(bin, "cvc5") {
		cmd = exec.Command(bin, "--incremental", "--lang=smt2", "--tlimit-per=20000", f.Name())
	} else {
		cmd = exec.Command(bin, "-t:20000", f.Name())
	}
	out, err := cmd.CombinedOutput()
	var verdicts []string
	for _, l := range strings.Split(string(out), "\n") {
		l = strings.TrimSpace(l)
		if l == "sat" || l == "unsat" || l == "unknown" || strings.HasPrefix(l, "(error") {
			verdicts = append(verdicts, l)
		}
	}
	if len(verdicts) != len(qs) {
		return 0, 0, 0, fmt.Errorf("%s answered %d of %d queries (%v)", bin, len(verdicts), len(qs), err)
	}
	compared, bad, inc := 0, 0, 0
	for i, v := range verdicts {
		switch {
		case v == "sat" || v == "unsat":
			compared++
			if (v == "sat") != (qs[i].res == resSat) {
				bad++
			}
		default:
			inc++
		}
	}
	return compared, bad, inc, nil
}
