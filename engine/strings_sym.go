package main

// Symbolic models of further strings / unicode functions. With all-concrete
// arguments each defers to the real function (nativeFns); with symbolic bytes
// it works byte by byte. Non-ASCII is handled only where the byte-wise view is
// exact (a concrete ASCII cut set never matches a byte >= 0x80); otherwise the
// path ends as inconclusive.

import (
	"unicode"
)

func allConcrete(args []Val) bool {
	for _, a := range args {
		switch x := a.(type) {
		case Str:
			if _, ok := x.conc(); !ok {
				return false
			}
		case Int:
			if x.T != nil || x.W >= wDec {
				return false
			}
		case Bool:
			if x.T != nil {
				return false
			}
		case Float:
			if x.U {
				return false
			}
		default:
			return false
		}
	}
	return true
}

func withNative(name string, sym func(ex *Exec, args []Val) Val) func(ex *Exec, args []Val) Val {
	return func(ex *Exec, args []Val) Val {
		if allConcrete(args) {
			if r, ok := ex.tryNativeCall(name, nil, args); ok {
				return r
			}
		}
		return sym(ex, args)
	}
}

func asciiConc(ex *Exec, v Val, what string) string {
	s, ok := v.(Str).conc()
	if !ok {
		unsupported("%s with a symbolic set/pattern", what)
	}
	for i := 0; i < len(s); i++ {
		if s[i] >= 0x80 {
			unsupported("%s with a non-ASCII set/pattern on a symbolic string", what)
		}
	}
	return s
}

// requireASCII: every byte of s is < 0x80 on this path (branches on symbolic bytes).
func (ex *Exec) requireASCII(s Str, what string) {
	ex.needBytes(s, what)
	for _, b := range s.B {
		if b.T == nil {
			if b.C >= 0x80 {
				unsupported("%s on non-ASCII text with symbolic bytes", what)
			}
			continue
		}
		if !ex.branch(mkBool(mkCmp("bvult", b.T, mkConst(0x80, 8)))) {
			unsupported("%s on a symbolic non-ASCII byte", what)
		}
	}
}

func init() {
	reg := func(name string, sym func(ex *Exec, args []Val) Val) { symModels[name] = withNative(name, sym) }
	reg("strings.ContainsAny", func(ex *Exec, a []Val) Val {
		return Bool{C: indexAny(ex, a[0].(Str), asciiConc(ex, a[1], "ContainsAny")) >= 0}
	})
	reg("strings.IndexAny", func(ex *Exec, a []Val) Val {
		return goInt(indexAny(ex, a[0].(Str), asciiConc(ex, a[1], "IndexAny")))
	})
	reg("strings.ContainsRune", func(ex *Exec, a []Val) Val {
		return Bool{C: ex.indexOf(a[0].(Str), concRuneStr(ex, a[1]), 0) >= 0}
	})
	reg("strings.IndexRune", func(ex *Exec, a []Val) Val {
		return goInt(ex.indexOf(a[0].(Str), concRuneStr(ex, a[1]), 0))
	})
	reg("strings.LastIndex", func(ex *Exec, a []Val) Val {
		s, p := a[0].(Str), a[1].(Str)
		ex.needBytes(s, "LastIndex")
		ex.needBytes(p, "LastIndex")
		for i := len(s.B) - len(p.B); i >= 0; i-- {
			if ex.branch(ex.strEq(Str{B: s.B[i : i+len(p.B)]}, p)) {
				return goInt(i)
			}
		}
		return goInt(-1)
	})
	reg("strings.LastIndexByte", func(ex *Exec, a []Val) Val {
		s := a[0].(Str)
		ex.needBytes(s, "LastIndexByte")
		for i := len(s.B) - 1; i >= 0; i-- {
			if ex.branch(ex.strEq(Str{B: s.B[i : i+1]}, Str{B: []Int{a[1].(Int)}})) {
				return goInt(i)
			}
		}
		return goInt(-1)
	})
	reg("strings.Count", func(ex *Exec, a []Val) Val {
		s, p := a[0].(Str), a[1].(Str)
		ex.needBytes(s, "Count")
		ex.needBytes(p, "Count")
		if len(p.B) == 0 {
			unsupported("strings.Count with an empty pattern on a symbolic string")
		}
		n := 0
		for i := 0; i+len(p.B) <= len(s.B); {
			if ex.branch(ex.strEq(Str{B: s.B[i : i+len(p.B)]}, p)) {
				n++
				i += len(p.B)
			} else {
				i++
			}
		}
		return goInt(n)
	})
	reg("strings.TrimLeft", func(ex *Exec, a []Val) Val {
		s, cut := a[0].(Str), asciiConc(ex, a[1], "TrimLeft")
		ex.needBytes(s, "TrimLeft")
		lo := 0
		for lo < len(s.B) && ex.byteIn(s.B[lo], cut) {
			lo++
		}
		return Str{B: s.B[lo:]}
	})
	reg("strings.Trim", func(ex *Exec, a []Val) Val {
		s, cut := a[0].(Str), asciiConc(ex, a[1], "Trim")
		ex.needBytes(s, "Trim")
		lo, hi := 0, len(s.B)
		for lo < hi && ex.byteIn(s.B[lo], cut) {
			lo++
		}
		for hi > lo && ex.byteIn(s.B[hi-1], cut) {
			hi--
		}
		return Str{B: s.B[lo:hi]}
	})
	reg("strings.ToUpper", func(ex *Exec, a []Val) Val { return ex.asciiCase(a[0].(Str), true) })
	reg("strings.ToLower", func(ex *Exec, a []Val) Val { return ex.asciiCase(a[0].(Str), false) })
	reg("strings.EqualFold", func(ex *Exec, a []Val) Val {
		s, t := a[0].(Str), a[1].(Str)
		ex.requireASCII(s, "EqualFold")
		ex.requireASCII(t, "EqualFold")
		return ex.strEq(ex.asciiCase(s, false), ex.asciiCase(t, false))
	})
	reg("strings.Repeat", func(ex *Exec, a []Val) Val {
		n := ex.concInt(a[1], "strings.Repeat count")
		if n < 0 {
			ex.gopanic("explicit", "strings: negative Repeat count")
		}
		s := a[0].(Str)
		if n*len(s.B) > 1<<16 {
			unsupported("strings.Repeat result too long")
		}
		var out []Int
		for i := 0; i < n; i++ {
			out = append(out, s.B...)
		}
		return Str{B: out}
	})
	reg("strings.Fields", func(ex *Exec, a []Val) Val {
		s := a[0].(Str)
		ex.requireASCII(s, "Fields")
		var out []Val
		start := -1
		for i, b := range s.B {
			if ex.byteIn(b, " \t\n\v\f\r") {
				if start >= 0 {
					out = append(out, Str{B: s.B[start:i]})
					start = -1
				}
			} else if start < 0 {
				start = i
			}
		}
		if start >= 0 {
			out = append(out, Str{B: s.B[start:]})
		}
		return newSlice(out)
	})
	// function-driven scans: the predicate is the program's own closure, run per rune
	symModels["strings.IndexFunc"] = func(ex *Exec, a []Val) Val {
		i, _ := ex.scanFunc(a[0].(Str), a[1].(Closure), true, false)
		return goInt(i)
	}
	symModels["strings.ContainsFunc"] = func(ex *Exec, a []Val) Val {
		i, _ := ex.scanFunc(a[0].(Str), a[1].(Closure), true, false)
		return Bool{C: i >= 0}
	}
	symModels["strings.TrimLeftFunc"] = func(ex *Exec, a []Val) Val {
		s := a[0].(Str)
		i, _ := ex.scanFunc(s, a[1].(Closure), false, false)
		if i < 0 {
			return Str{}
		}
		return Str{B: s.B[i:]}
	}
	symModels["strings.TrimRightFunc"] = func(ex *Exec, a []Val) Val {
		s := a[0].(Str)
		_, end := ex.scanFunc(s, a[1].(Closure), false, true)
		return Str{B: s.B[:end]}
	}
	symModels["strings.TrimFunc"] = func(ex *Exec, a []Val) Val {
		s := a[0].(Str)
		i, _ := ex.scanFunc(s, a[1].(Closure), false, false)
		if i < 0 {
			return Str{}
		}
		s = Str{B: s.B[i:]}
		_, end := ex.scanFunc(s, a[1].(Closure), false, true)
		return Str{B: s.B[:end]}
	}
	symModels["strings.Map"] = func(ex *Exec, a []Val) Val {
		cl, s := a[0].(Closure), a[1].(Str)
		ex.needBytes(s, "strings.Map")
		var out []Int
		for pos := 0; pos < len(s.B); {
			r, w := ex.decodeRune(s.B[pos:])
			pos += w
			m := ex.callClosure(cl, []Val{r}).(Int)
			if m.T == nil && m.signed() < 0 {
				continue
			}
			if m.T != nil && ex.branch(mkBool(mkCmp("bvslt", m.T, mkConst(0, 32)))) {
				continue
			}
			out = append(out, ex.runeToString(m).B...)
		}
		return Str{B: out}
	}
	// unicode predicates and case mapping on symbolic ASCII runes
	preds := map[string]func(rune) bool{
		"unicode.IsSpace": unicode.IsSpace, "unicode.IsDigit": unicode.IsDigit, "unicode.IsLetter": unicode.IsLetter,
		"unicode.IsUpper": unicode.IsUpper, "unicode.IsLower": unicode.IsLower, "unicode.IsPunct": unicode.IsPunct,
		"unicode.IsControl": unicode.IsControl, "unicode.IsPrint": unicode.IsPrint, "unicode.IsNumber": unicode.IsNumber,
		"unicode.IsGraphic": unicode.IsGraphic, "unicode.IsSymbol": unicode.IsSymbol, "unicode.IsMark": unicode.IsMark,
		"unicode.IsTitle": unicode.IsTitle,
	}
	for name, p := range preds {
		p := p
		reg(name, func(ex *Exec, a []Val) Val { return ex.asciiPred(a[0].(Int), p) })
	}
	reg("unicode.ToUpper", func(ex *Exec, a []Val) Val { return ex.asciiRuneCase(a[0].(Int), true) })
	reg("unicode.ToLower", func(ex *Exec, a []Val) Val { return ex.asciiRuneCase(a[0].(Int), false) })
	// models.go's init has run (files initialise in name order); its entries win
	for k, v := range symModels {
		if _, dup := models[k]; !dup {
			models[k] = v
		}
	}
}

// symModels is merged into the model table at the end of init above.
var symModels = map[string]func(ex *Exec, args []Val) Val{}

func indexAny(ex *Exec, s Str, set string) int {
	ex.needBytes(s, "IndexAny")
	for i, b := range s.B {
		if ex.byteIn(b, set) {
			return i
		}
	}
	return -1
}

func concRuneStr(ex *Exec, v Val) Str {
	r := v.(Int)
	if r.T != nil {
		unsupported("rune search with a symbolic rune")
	}
	rr := rune(r.signed())
	if rr < 0 || rr > unicode.MaxRune || (rr >= 0xD800 && rr <= 0xDFFF) || rr == 0xFFFD {
		unsupported("rune search for an invalid rune on a symbolic string")
	}
	return cstr(string(rr))
}

// asciiCase: ToUpper / ToLower; symbolic bytes must be ASCII on this path.
func (ex *Exec) asciiCase(s Str, upper bool) Str {
	ex.requireASCII(s, "case mapping")
	out := make([]Int, len(s.B))
	for i, b := range s.B {
		if b.T == nil {
			c := byte(b.C)
			if upper && c >= 'a' && c <= 'z' {
				c -= 32
			} else if !upper && c >= 'A' && c <= 'Z' {
				c += 32
			}
			out[i] = Int{C: uint64(c), W: 8}
			continue
		}
		lo, hi, op := byte('a'), byte('z'), "bvsub"
		if !upper {
			lo, hi, op = 'A', 'Z', "bvadd"
		}
		in := mkAnd(mkCmp("bvuge", b.T, mkConst(uint64(lo), 8)), mkCmp("bvule", b.T, mkConst(uint64(hi), 8)))
		out[i] = Int{T: mkIte(in, mkBV(op, b.T, mkConst(32, 8)), b.T), W: 8}
	}
	return Str{B: out}
}

func (ex *Exec) asciiPred(r Int, p func(rune) bool) Val {
	if r.T == nil {
		return Bool{C: p(rune(r.signed()))}
	}
	if !ex.branch(mkBool(mkCmp("bvult", r.T, mkConst(0x80, int(r.W))))) {
		unsupported("unicode predicate on a symbolic non-ASCII rune")
	}
	var alts []*Term
	for c := 0; c < 0x80; {
		if !p(rune(c)) {
			c++
			continue
		}
		d := c
		for d+1 < 0x80 && p(rune(d+1)) {
			d++
		}
		if c == d {
			alts = append(alts, mkEq(r.T, mkConst(uint64(c), int(r.W))))
		} else {
			alts = append(alts, mkAnd(mkCmp("bvuge", r.T, mkConst(uint64(c), int(r.W))), mkCmp("bvule", r.T, mkConst(uint64(d), int(r.W)))))
		}
		c = d + 1
	}
	if len(alts) == 0 {
		return Bool{C: false}
	}
	return mkBool(mkOr(alts...))
}

func (ex *Exec) asciiRuneCase(r Int, upper bool) Val {
	if r.T == nil {
		if upper {
			return cint(int64(unicode.ToUpper(rune(r.signed()))), 32, true)
		}
		return cint(int64(unicode.ToLower(rune(r.signed()))), 32, true)
	}
	if !ex.branch(mkBool(mkCmp("bvult", r.T, mkConst(0x80, int(r.W))))) {
		unsupported("unicode case mapping of a symbolic non-ASCII rune")
	}
	lo, hi, op := uint64('a'), uint64('z'), "bvsub"
	if !upper {
		lo, hi, op = 'A', 'Z', "bvadd"
	}
	w := int(r.W)
	in := mkAnd(mkCmp("bvuge", r.T, mkConst(lo, w)), mkCmp("bvule", r.T, mkConst(hi, w)))
	return Int{T: mkIte(in, mkBV(op, r.T, mkConst(32, w)), r.T), W: r.W, S: r.S}
}

// scanFunc runs the predicate rune by rune. forward: returns the byte index of the
// first rune for which f(r) == want (or -1). fromEnd: returns (_, end) where end is
// the byte offset after the last rune for which f is false (TrimRightFunc).
func (ex *Exec) scanFunc(s Str, cl Closure, want bool, fromEnd bool) (int, int) {
	ex.needBytes(s, "function-driven scan")
	type rn struct {
		pos, w int
		r      Int
	}
	var runes []rn
	for pos := 0; pos < len(s.B); {
		r, w := ex.decodeRune(s.B[pos:])
		runes = append(runes, rn{pos, w, r})
		pos += w
	}
	test := func(r Int) bool {
		b, ok := ex.callClosure(cl, []Val{r}).(Bool)
		if !ok {
			unsupported("scan predicate did not return a bool")
		}
		return ex.branch(b)
	}
	if fromEnd {
		for i := len(runes) - 1; i >= 0; i-- {
			if !test(runes[i].r) {
				return 0, runes[i].pos + runes[i].w
			}
		}
		return 0, 0
	}
	for _, x := range runes {
		if test(x.r) == want {
			return x.pos, 0
		}
	}
	return -1, 0
}
