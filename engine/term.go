package main

// SMT terms (QF_BV + Bool). Terms are immutable; constructors fold constants.
// Structural identity is the printed form (cached).

import (
	"fmt"
	"math/bits"
	"strings"
)

type Term struct {
	Op   string // "var" "const" "true" "false" or an SMT-LIB operator
	Args []*Term
	W    int    // 0 = Bool, otherwise bit-vector width
	Name string // var
	C    uint64 // const
	P    [2]int // extract hi,lo / extend amount in P[0]
	s    string
	vid  int   // >=0: the only variable occurring is var #vid ; -1: none ; -2: several
	vw   int   // width of that variable
	size int32 // number of nodes (capped)
	fp   bool  // contains floating-point operators (never evaluated concretely)
}

var tTrue = &Term{Op: "true", s: "true", vid: -1, size: 1}
var tFalse = &Term{Op: "false", s: "false", vid: -1, size: 1}

func mask(w int) uint64 {
	if w >= 64 {
		return ^uint64(0)
	}
	return (uint64(1) << uint(w)) - 1
}

func sext(c uint64, w int) int64 {
	if w >= 64 {
		return int64(c)
	}
	sh := uint(64 - w)
	return int64(c<<sh) >> sh
}

func mkConst(c uint64, w int) *Term {
	c &= mask(w)
	t := &Term{Op: "const", C: c, W: w, vid: -1, size: 1}
	if w%4 == 0 {
		t.s = fmt.Sprintf("#x%0*x", w/4, c)
	} else {
		t.s = fmt.Sprintf("(_ bv%d %d)", c, w)
	}
	return t
}

func mkVar(name string, w int, id int) *Term {
	return &Term{Op: "var", Name: name, W: w, s: name, vid: id, vw: w, size: 1}
}

func mkBoolConst(b bool) *Term {
	if b {
		return tTrue
	}
	return tFalse
}

func (t *Term) isConst() bool  { return t.Op == "const" || t.Op == "true" || t.Op == "false" }
func (t *Term) String() string { return t.s }

func build(op string, w int, args ...*Term) *Term {
	t := &Term{Op: op, Args: args, W: w, vid: -1}
	var sb strings.Builder
	sb.WriteByte('(')
	sb.WriteString(op)
	sz := int32(1)
	for _, a := range args {
		sb.WriteByte(' ')
		sb.WriteString(a.s)
		sz += a.size
		if a.fp {
			t.fp = true
		}
		switch {
		case a.vid == -1:
		case t.vid == -1:
			t.vid, t.vw = a.vid, a.vw
		case t.vid != a.vid:
			t.vid = -2
		}
	}
	sb.WriteByte(')')
	t.s = sb.String()
	t.size = sz
	return t
}

func buildIdx(op string, w int, p0, p1 int, np int, arg *Term) *Term {
	t := &Term{Op: op, Args: []*Term{arg}, W: w, vid: arg.vid, vw: arg.vw, P: [2]int{p0, p1}, size: arg.size + 1, fp: arg.fp}
	if np == 2 {
		t.s = fmt.Sprintf("((_ %s %d %d) %s)", op, p0, p1, arg.s)
	} else {
		t.s = fmt.Sprintf("((_ %s %d) %s)", op, p0, arg.s)
	}
	return t
}

// ---- boolean connectives

func mkNot(a *Term) *Term {
	switch a.Op {
	case "true":
		return tFalse
	case "false":
		return tTrue
	case "not":
		return a.Args[0]
	}
	return build("not", 0, a)
}

func mkAnd(xs ...*Term) *Term {
	var out []*Term
	for _, x := range xs {
		switch x.Op {
		case "true":
			continue
		case "false":
			return tFalse
		case "and":
			out = append(out, x.Args...)
		default:
			out = append(out, x)
		}
	}
	switch len(out) {
	case 0:
		return tTrue
	case 1:
		return out[0]
	}
	return build("and", 0, out...)
}

func mkOr(xs ...*Term) *Term {
	var out []*Term
	for _, x := range xs {
		switch x.Op {
		case "false":
			continue
		case "true":
			return tTrue
		case "or":
			out = append(out, x.Args...)
		default:
			out = append(out, x)
		}
	}
	switch len(out) {
	case 0:
		return tFalse
	case 1:
		return out[0]
	}
	return build("or", 0, out...)
}

func mkIte(c, a, b *Term) *Term {
	switch c.Op {
	case "true":
		return a
	case "false":
		return b
	}
	if a.s == b.s {
		return a
	}
	return build("ite", a.W, c, a, b)
}

func mkEq(a, b *Term) *Term {
	if a.W != b.W {
		panic(fmt.Sprintf("mkEq width mismatch %d %d: %s %s", a.W, b.W, a.s, b.s))
	}
	if a.isConst() && b.isConst() {
		if a.W == 0 {
			return mkBoolConst(a.Op == b.Op)
		}
		return mkBoolConst(a.C == b.C)
	}
	if a.s == b.s {
		return tTrue
	}
	if a.W == 0 {
		if a.Op == "true" {
			return b
		}
		if b.Op == "true" {
			return a
		}
		if a.Op == "false" {
			return mkNot(b)
		}
		if b.Op == "false" {
			return mkNot(a)
		}
	}
	if b.s < a.s {
		a, b = b, a
	}
	return build("=", 0, a, b)
}

// ---- bit-vector operations

func evalBV(op string, w int, a, b uint64) (uint64, bool) {
	m := mask(w)
	a &= m
	b &= m
	switch op {
	case "bvadd":
		return (a + b) & m, true
	case "bvsub":
		return (a - b) & m, true
	case "bvmul":
		return (a * b) & m, true
	case "bvand":
		return a & b, true
	case "bvor":
		return a | b, true
	case "bvxor":
		return a ^ b, true
	case "bvudiv":
		if b == 0 {
			return m, true
		}
		return a / b, true
	case "bvurem":
		if b == 0 {
			return a, true
		}
		return a % b, true
	case "bvsdiv":
		if b == 0 {
			if sext(a, w) < 0 {
				return 1, true
			}
			return m, true
		}
		sa, sb := sext(a, w), sext(b, w)
		if sb == -1 {
			return uint64(-sa) & m, true
		}
		return uint64(sa/sb) & m, true
	case "bvsrem":
		if b == 0 {
			return a, true
		}
		sa, sb := sext(a, w), sext(b, w)
		if sb == -1 {
			return 0, true
		}
		return uint64(sa%sb) & m, true
	case "bvshl":
		if b >= uint64(w) {
			return 0, true
		}
		return (a << b) & m, true
	case "bvlshr":
		if b >= uint64(w) {
			return 0, true
		}
		return a >> b, true
	case "bvashr":
		sa := sext(a, w)
		if b >= uint64(w) {
			if sa < 0 {
				return m, true
			}
			return 0, true
		}
		return uint64(sa>>b) & m, true
	}
	return 0, false
}

func evalCmp(op string, w int, a, b uint64) (bool, bool) {
	m := mask(w)
	a &= m
	b &= m
	switch op {
	case "bvult":
		return a < b, true
	case "bvule":
		return a <= b, true
	case "bvugt":
		return a > b, true
	case "bvuge":
		return a >= b, true
	case "bvslt":
		return sext(a, w) < sext(b, w), true
	case "bvsle":
		return sext(a, w) <= sext(b, w), true
	case "bvsgt":
		return sext(a, w) > sext(b, w), true
	case "bvsge":
		return sext(a, w) >= sext(b, w), true
	}
	return false, false
}

func mkBV(op string, a, b *Term) *Term {
	if a.W != b.W {
		panic(fmt.Sprintf("mkBV %s width mismatch %d %d", op, a.W, b.W))
	}
	if a.Op == "const" && b.Op == "const" {
		if r, ok := evalBV(op, a.W, a.C, b.C); ok {
			return mkConst(r, a.W)
		}
	}
	// light identities
	switch op {
	case "bvadd":
		if a.Op == "const" && a.C == 0 {
			return b
		}
		if b.Op == "const" && b.C == 0 {
			return a
		}
		if a.Op == "const" {
			a, b = b, a
		}
		// (x + c1) + c2 = x + (c1 + c2)
		if b.Op == "const" && a.Op == "bvadd" && a.Args[1].Op == "const" {
			return mkBV("bvadd", a.Args[0], mkConst(a.Args[1].C+b.C, a.W))
		}
		if b.Op == "const" && a.Op == "bvsub" && a.Args[1].Op == "const" {
			return mkBV("bvadd", a.Args[0], mkConst(b.C-a.Args[1].C, a.W))
		}
	case "bvsub":
		if b.Op == "const" && b.C == 0 {
			return a
		}
		if b.Op == "const" {
			return mkBV("bvadd", a, mkConst(-b.C, a.W))
		}
	case "bvmul":
		if a.Op == "const" && a.C == 1 {
			return b
		}
		if b.Op == "const" && b.C == 1 {
			return a
		}
	}
	return build(op, a.W, a, b)
}

func mkCmp(op string, a, b *Term) *Term {
	if a.W != b.W {
		panic(fmt.Sprintf("mkCmp %s width mismatch %d %d", op, a.W, b.W))
	}
	if a.Op == "const" && b.Op == "const" {
		if r, ok := evalCmp(op, a.W, a.C, b.C); ok {
			return mkBoolConst(r)
		}
	}
	if a.s == b.s {
		switch op {
		case "bvult", "bvugt", "bvslt", "bvsgt":
			return tFalse
		default:
			return tTrue
		}
	}
	return build(op, 0, a, b)
}

func mkNeg(a *Term) *Term {
	if a.Op == "const" {
		return mkConst(-a.C, a.W)
	}
	return build("bvneg", a.W, a)
}

func mkBvNot(a *Term) *Term {
	if a.Op == "const" {
		return mkConst(^a.C, a.W)
	}
	return build("bvnot", a.W, a)
}

func mkExtract(hi, lo int, a *Term) *Term {
	w := hi - lo + 1
	if a.Op == "const" {
		return mkConst(a.C>>uint(lo), w)
	}
	if lo == 0 && w == a.W {
		return a
	}
	return buildIdx("extract", w, hi, lo, 2, a)
}

func mkZext(a *Term, to int) *Term {
	if to == a.W {
		return a
	}
	if a.Op == "const" {
		return mkConst(a.C, to)
	}
	return buildIdx("zero_extend", to, to-a.W, 0, 1, a)
}

func mkSext(a *Term, to int) *Term {
	if to == a.W {
		return a
	}
	if a.Op == "const" {
		return mkConst(uint64(sext(a.C, a.W)), to)
	}
	return buildIdx("sign_extend", to, to-a.W, 0, 1, a)
}

// ---- evaluation under an assignment (used by the byte fast path and for
// evaluating noted values under a solver model)

func (t *Term) eval(env func(name string, id int) uint64) uint64 {
	switch t.Op {
	case "true":
		return 1
	case "false":
		return 0
	case "const":
		return t.C
	case "var":
		return env(t.Name, t.vid) & mask(t.W)
	case "not":
		return 1 - t.Args[0].eval(env)
	case "and":
		for _, a := range t.Args {
			if a.eval(env) == 0 {
				return 0
			}
		}
		return 1
	case "or":
		for _, a := range t.Args {
			if a.eval(env) != 0 {
				return 1
			}
		}
		return 0
	case "ite":
		if t.Args[0].eval(env) != 0 {
			return t.Args[1].eval(env)
		}
		return t.Args[2].eval(env)
	case "=":
		if t.Args[0].eval(env) == t.Args[1].eval(env) {
			return 1
		}
		return 0
	case "distinct":
		if t.Args[0].eval(env) != t.Args[1].eval(env) {
			return 1
		}
		return 0
	case "bvneg":
		return (-t.Args[0].eval(env)) & mask(t.W)
	case "bvnot":
		return (^t.Args[0].eval(env)) & mask(t.W)
	case "extract":
		return (t.Args[0].eval(env) >> uint(t.P[1])) & mask(t.W)
	case "zero_extend":
		return t.Args[0].eval(env)
	case "sign_extend":
		return uint64(sext(t.Args[0].eval(env), t.Args[0].W)) & mask(t.W)
	}
	if len(t.Args) == 2 {
		a, b := t.Args[0].eval(env), t.Args[1].eval(env)
		if t.W == 0 {
			if r, ok := evalCmp(t.Op, t.Args[0].W, a, b); ok {
				if r {
					return 1
				}
				return 0
			}
		} else if r, ok := evalBV(t.Op, t.W, a, b); ok {
			return r
		}
	}
	panic("term eval: unsupported op " + t.Op)
}

// byteset is a set of byte values.
type byteset [4]uint64

func (b *byteset) has(x int) bool { return b[x>>6]&(1<<uint(x&63)) != 0 }
func (b *byteset) clear(x int)    { b[x>>6] &^= 1 << uint(x&63) }
func (b *byteset) count() int {
	return bits.OnesCount64(b[0]) + bits.OnesCount64(b[1]) + bits.OnesCount64(b[2]) + bits.OnesCount64(b[3])
}
func fullByteset() *byteset {
	return &byteset{^uint64(0), ^uint64(0), ^uint64(0), ^uint64(0)}
}
