package main

import (
	"fmt"
	"go/types"
	"strconv"
	"strings"

	"golang.org/x/tools/go/ssa"
)

// ---------------------------------------------------------------- values

type Val interface{}

// Int: every integer kind. Concrete (T==nil, value C) or symbolic (T).
// W = 8,16,32,64 ; special widths mark rope segments inside a Str (see Str).
type Int struct {
	C uint64
	T *Term
	W uint8
	S bool
}

const (
	wDec    = 0xFE // rope segment: decimal form of the signed 64-bit term T (or C)
	wOpaque = 0xFF // rope segment: unknown bytes (C = id)
)

type Bool struct {
	C bool
	T *Term
}

type Float struct {
	V float64
	W uint8 // 32 or 64
	U bool  // value unknown (parsed from symbolic digits): any use is inconclusive
	T *Term // symbolic value (an FP-sorted term, see fp.go); U is set as well
}

// Str: sequence of bytes (Int W=8), possibly with rope segments (wDec / wOpaque).
type Str struct{ B []Int }

// Struct and arrays: stored by value (copied on load/store).
type Struct []Val

type Ptr struct{ P *Val }

type Slice struct {
	A   *[]Val // backing array (len == capacity)
	Off int
	Len int
	Cap int
}

type MapObj struct {
	K     []Val
	V     []Val
	KT    types.Type
	VT    types.Type
	Frozn bool
}

type Iface struct {
	T types.Type
	V Val
}

type Closure struct {
	Fn  *ssa.Function
	Env []Val
	// bound reflect method (MethodByName): Recv is prepended to args
	Recv Val
	HasR bool
	Nat  string // model-implemented function value (name), e.g. for reflect
}

type Tuple []Val

// reflect.Value model
type RV struct {
	T     types.Type // nil = invalid Value
	V     Val
	Addr  *Val // non-nil = addressable (points to the cell holding V)
	RO    bool // obtained through an unexported field
	MapOf *MapObj
}

// Native: an immutable value of a standard-library type kept as the real Go value
// (time.Time); methods on it run natively when every argument is concrete.
type Native struct{ V interface{} }

// reflect.Type model (stored inside an Iface whose T is *reflect.rtype)
type RT struct{ T types.Type }

type mapIter struct {
	m     *MapObj
	order []int
	i     int
	str   *Str
	pos   int
}

// StdRef: the value of a package-level variable of a standard-library package
// that is only meaningful to a model (e.g. unicode.Mn)
type StdRef struct{ Name string }

// unsafe.StringData result
type StrData struct{ S Str }

func (i Int) sym() bool { return i.T != nil }

func trunc(x uint64, w uint8) uint64 {
	if w >= 64 {
		return x
	}
	return x & ((1 << w) - 1)
}

func cint(v int64, w uint8, s bool) Int { return Int{C: trunc(uint64(v), w), W: w, S: s} }
func goInt(v int) Int                   { return Int{C: uint64(v), W: 64, S: true} }
func cbyte(b byte) Int                  { return Int{C: uint64(b), W: 8} }

func (i Int) signed() int64 {
	if i.W >= 64 {
		return int64(i.C)
	}
	sh := 64 - i.W
	return int64(i.C<<sh) >> sh
}

func (i Int) term() *Term {
	if i.T != nil {
		return i.T
	}
	return mkConst(i.C, int(i.W))
}

func (b Bool) sym() bool { return b.T != nil }
func (b Bool) term() *Term {
	if b.T != nil {
		return b.T
	}
	return mkBoolConst(b.C)
}

func mkBool(t *Term) Bool {
	switch t.Op {
	case "true":
		return Bool{C: true}
	case "false":
		return Bool{C: false}
	}
	return Bool{T: t}
}

func mkInt(t *Term, w uint8, s bool) Int {
	if t.Op == "const" {
		return Int{C: t.C, W: w, S: s}
	}
	return Int{T: t, W: w, S: s}
}

func cstr(s string) Str {
	r := Str{B: make([]Int, len(s))}
	for i := 0; i < len(s); i++ {
		r.B[i] = Int{C: uint64(s[i]), W: 8}
	}
	return r
}

// conc returns the concrete Go string if every byte is concrete.
func (s Str) conc() (string, bool) {
	b := make([]byte, len(s.B))
	for i, x := range s.B {
		if x.T != nil || x.W != 8 {
			return "", false
		}
		b[i] = byte(x.C)
	}
	return string(b), true
}

func (s Str) hasRope() bool {
	for _, x := range s.B {
		if x.W != 8 {
			return true
		}
	}
	return false
}

func (s Str) allConcrete() bool {
	for _, x := range s.B {
		if x.T != nil || x.W != 8 {
			return false
		}
	}
	return true
}

func concatStr(a, b Str) Str {
	out := make([]Int, 0, len(a.B)+len(b.B))
	out = append(out, a.B...)
	out = append(out, b.B...)
	return Str{B: out}
}

// show is for diagnostics and evidence samples.
func (s Str) show() string {
	var sb strings.Builder
	for _, x := range s.B {
		switch {
		case x.W == wDec:
			if x.T != nil {
				sb.WriteString("<dec " + x.T.s + ">")
			} else {
				sb.WriteString(strconv.FormatInt(int64(x.C), 10))
			}
		case x.W == wOpaque:
			sb.WriteString("<opaque>")
		case x.T != nil:
			sb.WriteString("<" + x.T.s + ">")
		default:
			c := byte(x.C)
			if c >= 0x20 && c < 0x7f && c != '<' {
				sb.WriteByte(c)
			} else {
				fmt.Fprintf(&sb, "\\x%02x", c)
			}
		}
	}
	return sb.String()
}

func isNilVal(v Val) bool {
	switch a := v.(type) {
	case nil:
		return true
	case Ptr:
		return a.P == nil
	case *MapObj:
		return a == nil
	case Slice:
		return a.A == nil
	case Closure:
		return a.Fn == nil && a.Nat == ""
	}
	return false
}

// copyVal copies value-typed aggregates (structs, arrays); references are shared.
func copyVal(v Val) Val {
	switch x := v.(type) {
	case Struct:
		c := make(Struct, len(x))
		for i := range x {
			c[i] = copyVal(x[i])
		}
		return c
	}
	return v
}

// storeInto writes v into the cell *dst. Aggregates are written element-wise in
// place so that pointers to fields/elements taken earlier stay valid.
func storeInto(dst *Val, v Val) {
	if cur, ok := (*dst).(Struct); ok {
		if nv, ok := v.(Struct); ok && len(nv) == len(cur) {
			for i := range cur {
				storeInto(&cur[i], nv[i])
			}
			return
		}
	}
	*dst = copyVal(v)
}

func newSlice(vals []Val) Slice {
	a := vals
	return Slice{A: &a, Off: 0, Len: len(vals), Cap: len(vals)}
}

func (s Slice) elems() []Val {
	if s.A == nil {
		return nil
	}
	return (*s.A)[s.Off : s.Off+s.Len]
}

func (s Slice) at(i int) *Val { return &(*s.A)[s.Off+i] }

// ---------------------------------------------------------------- path ends

type pathEnd struct {
	kind string // infeasible | unsupported | unwind | deadline
	msg  string
}

// goPanic is a Go run-time panic (or explicit panic) inside interpreted code.
type goPanic struct {
	kind  string // nil-deref | index | slice-bounds | type-assert | div-zero | nil-map | explicit | reflect | ...
	msg   string
	site  string // innermost /repo function on the stack
	stack []string
	val   Val // panic value for recover()
}

type engineError string

func unsupported(format string, a ...interface{}) {
	panic(pathEnd{"unsupported", fmt.Sprintf(format, a...)})
}

// ---------------------------------------------------------------- type helpers

func intInfo(b *types.Basic) (uint8, bool) {
	switch b.Kind() {
	case types.Int8:
		return 8, true
	case types.Uint8:
		return 8, false
	case types.Int16:
		return 16, true
	case types.Uint16:
		return 16, false
	case types.Int32, types.UntypedRune:
		return 32, true
	case types.Uint32:
		return 32, false
	case types.Uint, types.Uint64, types.Uintptr:
		return 64, false
	}
	return 64, true
}

func isNamed(t types.Type, pkg, name string) bool {
	n, ok := t.(*types.Named)
	if !ok {
		if a, ok2 := t.(*types.Alias); ok2 {
			return isNamed(types.Unalias(a), pkg, name)
		}
		return false
	}
	o := n.Obj()
	return o.Name() == name && o.Pkg() != nil && o.Pkg().Path() == pkg
}

// reflect-style kind numbers
const (
	kInvalid = iota
	kBool
	kInt
	kInt8
	kInt16
	kInt32
	kInt64
	kUint
	kUint8
	kUint16
	kUint32
	kUint64
	kUintptr
	kFloat32
	kFloat64
	kComplex64
	kComplex128
	kArray
	kChan
	kFunc
	kInterface
	kMap
	kPointer
	kSlice
	kString
	kStruct
	kUnsafePointer
)

var kindNames = []string{"invalid", "bool", "int", "int8", "int16", "int32", "int64", "uint", "uint8", "uint16", "uint32", "uint64", "uintptr", "float32", "float64", "complex64", "complex128", "array", "chan", "func", "interface", "map", "ptr", "slice", "string", "struct", "unsafe.Pointer"}

func kindOf(t types.Type) int {
	if t == nil {
		return kInvalid
	}
	switch u := t.Underlying().(type) {
	case *types.Basic:
		switch u.Kind() {
		case types.Bool, types.UntypedBool:
			return kBool
		case types.Int, types.UntypedInt:
			return kInt
		case types.Int8:
			return kInt8
		case types.Int16:
			return kInt16
		case types.Int32, types.UntypedRune:
			return kInt32
		case types.Int64:
			return kInt64
		case types.Uint:
			return kUint
		case types.Uint8:
			return kUint8
		case types.Uint16:
			return kUint16
		case types.Uint32:
			return kUint32
		case types.Uint64:
			return kUint64
		case types.Uintptr:
			return kUintptr
		case types.Float32:
			return kFloat32
		case types.Float64, types.UntypedFloat:
			return kFloat64
		case types.Complex64:
			return kComplex64
		case types.Complex128:
			return kComplex128
		case types.String, types.UntypedString:
			return kString
		case types.UnsafePointer:
			return kUnsafePointer
		}
	case *types.Array:
		return kArray
	case *types.Chan:
		return kChan
	case *types.Signature:
		return kFunc
	case *types.Interface:
		return kInterface
	case *types.Map:
		return kMap
	case *types.Pointer:
		return kPointer
	case *types.Slice:
		return kSlice
	case *types.Struct:
		return kStruct
	}
	return kInvalid
}

// typeString prints a type the way reflect.Type.String / %T does.
func typeString(t types.Type) string {
	switch x := t.(type) {
	case *types.Alias:
		return typeString(types.Unalias(x))
	case *types.Named:
		o := x.Obj()
		if o.Pkg() == nil {
			return o.Name()
		}
		return o.Pkg().Name() + "." + o.Name()
	case *types.Basic:
		switch x.Kind() {
		case types.UntypedInt:
			return "int"
		case types.UntypedFloat:
			return "float64"
		case types.UntypedString:
			return "string"
		case types.UntypedBool:
			return "bool"
		case types.UntypedRune:
			return "int32"
		case types.UntypedNil:
			return "<nil>"
		}
		if x.Kind() == types.Uint8 {
			return "uint8"
		}
		return x.Name()
	case *types.Pointer:
		return "*" + typeString(x.Elem())
	case *types.Slice:
		return "[]" + typeString(x.Elem())
	case *types.Array:
		return fmt.Sprintf("[%d]%s", x.Len(), typeString(x.Elem()))
	case *types.Map:
		return "map[" + typeString(x.Key()) + "]" + typeString(x.Elem())
	case *types.Interface:
		if x.NumMethods() == 0 {
			return "interface {}"
		}
		var ms []string
		for i := 0; i < x.NumMethods(); i++ {
			m := x.Method(i)
			ms = append(ms, m.Name()+strings.TrimPrefix(typeString(m.Type()), "func"))
		}
		return "interface { " + strings.Join(ms, "; ") + " }"
	case *types.Signature:
		var ps []string
		for i := 0; i < x.Params().Len(); i++ {
			p := typeString(x.Params().At(i).Type())
			if x.Variadic() && i == x.Params().Len()-1 {
				p = "..." + strings.TrimPrefix(p, "[]")
			}
			ps = append(ps, p)
		}
		s := "func(" + strings.Join(ps, ", ") + ")"
		switch x.Results().Len() {
		case 0:
		case 1:
			s += " " + typeString(x.Results().At(0).Type())
		default:
			var rs []string
			for i := 0; i < x.Results().Len(); i++ {
				rs = append(rs, typeString(x.Results().At(i).Type()))
			}
			s += " (" + strings.Join(rs, ", ") + ")"
		}
		return s
	case *types.Struct:
		var fs []string
		for i := 0; i < x.NumFields(); i++ {
			f := x.Field(i)
			if f.Embedded() {
				fs = append(fs, typeString(f.Type()))
			} else {
				fs = append(fs, f.Name()+" "+typeString(f.Type()))
			}
		}
		if len(fs) == 0 {
			return "struct {}"
		}
		return "struct { " + strings.Join(fs, "; ") + " }"
	case *types.Chan:
		return "chan " + typeString(x.Elem())
	}
	return t.String()
}
