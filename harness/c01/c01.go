// Package c01: string data is always HTML-escaped on output; only trusted HTML is verbatim.
package c01

import (
	"html/template"

	plush "github.com/gobuffalo/plush/v5"

	"verifharness/vrt"
)

func init() {
	vrt.Register("C01_string_routes", StringRoutes)
	vrt.Register("C01_trusted_routes", TrustedRoutes)
	vrt.Register("C01_mixed", Mixed)
	vrt.Register("C01_html_typed_helpers", HTMLTypedHelpers)
	vrt.Register("C01_named_string_types", NamedStringTypes)
	vrt.Register("C01_stored_in_html_typed", StoredInHTMLTyped)
	vrt.Register("C01_sequences_of_kinds", SequencesOfKinds)
	vrt.Register("C01_printed_through_methods", PrintedThroughMethods)
}

type holder struct {
	Field string
	HTML  template.HTML
	Sub   *holder
}

type htmler struct{ s string }

func (h htmler) HTML() template.HTML { return template.HTML(h.s) }

func goid(s string) string { return s }

func blk(help plush.HelperContext) (template.HTML, error) {
	s, err := help.Block()
	return template.HTML(s), err
}

func maxPayload() int { return 2 + 2*vrt.Tier() }

func payload() string {
	n := vrt.IntRange(0, maxPayload())
	p := vrt.Bytes(n)
	for i := 0; i < n; i++ {
		vrt.Assume(p[i] != 0) // Go's escaper maps NUL to U+FFFD; excluded and stated
	}
	return p
}

// the expression wrappers of the plumbing grammar: each moves the value bound
// to name `in` to a value of the same content
var exprWrappers = []string{
	"IN",
	"IN + \"\"",
	"\"\" + IN",
	"[IN][0]",
	"{k: IN}[\"k\"]",
	"idf(IN)",
	"goid(IN)",
	"[IN]",
	"[[IN]][0]",
	"{a: {b: IN}}[\"a\"][\"b\"]",
	"idf(idf(IN))",
	"IN + raw(\"\")",
}

func subst(w, in string) string {
	out := ""
	for i := 0; i < len(w); i++ {
		if i+1 < len(w) {
			if w[i] == 'I' {
				if w[i+1] == 'N' {
					out += in
					i++
					continue
				}
			}
		}
		out += w[i : i+1]
	}
	return out
}

// decodesTo: region r contains none of < > ' " raw, every & starts an entity of
// one of the five special characters, and decoding them gives p.
func decodesTo(r, p string) bool {
	ents := []struct {
		e string
		c byte
	}{{"&lt;", '<'}, {"&gt;", '>'}, {"&amp;", '&'}, {"&#39;", '\''}, {"&#34;", '"'}, {"&quot;", '"'}, {"&apos;", '\''}, {"&#x27;", '\''}, {"&#x22;", '"'}, {"&#x3c;", '<'}, {"&#x3e;", '>'}, {"&#60;", '<'}, {"&#62;", '>'}, {"&#38;", '&'}}
	i, j := 0, 0
	for i < len(r) {
		c := r[i]
		if c == '<' || c == '>' || c == '\'' || c == '"' {
			return false
		}
		if c == '&' {
			matched := false
			for _, e := range ents {
				if i+len(e.e) <= len(r) {
					if r[i:i+len(e.e)] == e.e {
						if j >= len(p) {
							return false
						}
						if p[j] != e.c {
							return false
						}
						i += len(e.e)
						j++
						matched = true
						break
					}
				}
			}
			if !matched {
				return false
			}
			continue
		}
		if j >= len(p) {
			return false
		}
		if p[j] != c {
			return false
		}
		i++
		j++
	}
	return j == len(p)
}

func baseCtx(p string) *plush.Context {
	ctx := plush.NewContext()
	ctx.Set("x", p)
	ctx.Set("goid", goid)
	ctx.Set("blk", blk)
	ctx.Set("st", holder{Field: p, Sub: &holder{Field: p}})
	ctx.Set("mp", map[string]string{"k": p})
	ctx.Set("mi", map[string]interface{}{"k": p})
	ctx.Set("ss", []string{p})
	ctx.Set("si", []interface{}{p})
	ctx.Set("partialFeeder", func(name string) (string, error) {
		switch name {
		case "data":
			return "<%= d %>", nil
		case "outer":
			return "<%= x %>", nil
		case "lay":
			return "<<%= yield %>>", nil
		}
		return "", nil
	})
	return ctx
}

const defs = "<% let idf = fn(v) { return v } %>"

// sources: where the payload comes from
var sources = []string{"x", "st.Field", "st.Sub.Field", "mp[\"k\"]", "mi[\"k\"]", "ss[0]", "si[0]", "ss", "si"}

// route: a template that emits the payload once between "[" and "]" (pre/post are literal)
func route(e string) (in, pre, post string) {
	E := "<%= " + e + " %>"
	switch vrt.Choice(14) {
	case 0:
		return "[" + E + "]", "[", "]"
	case 1:
		return "[<%= if (true) { %>" + E + "<% } %>]", "[", "]"
	case 2:
		return "[<%= for (v) in ss { %><%= v %><% } %>]", "[", "]"
	case 3:
		return "[<%= for (v) in si { return v } %>]", "[", "]"
	case 4:
		return "[<%= blk() { %>" + E + "<% } %>]", "[", "]"
	case 5:
		return "<% contentFor(\"c\") { %>" + E + "<% } %>[<%= contentOf(\"c\") %>]", "[", "]"
	case 6:
		return "<% contentFor(\"c\") { %><%= d %><% } %>[<%= contentOf(\"c\", {d: " + e + "}) %>]", "[", "]"
	case 7:
		return "[<%= partial(\"data\", {d: " + e + "}) %>]", "[", "]"
	case 8:
		return "[<%= partial(\"data\", {d: " + e + ", layout: \"lay\"}) %>]", "[<", ">]"
	case 9:
		return "[<%= partial(\"outer\") %>]", "[", "]"
	case 10:
		return "<% let f = fn(v) { %><%= v %><% } %>[<%= f(" + e + ") %>]", "[", "]"
	case 11:
		return "<% let y = " + e + " %>[<%= y %>]", "[", "]"
	case 12:
		return "[<%= if (false) { %>n<% } else { %>" + E + "<% } %>]", "[", "]"
	default:
		return "[<%= for (i, v) in [1] { %>" + E + "<% } %>]", "[", "]"
	}
}

func StringRoutes() {
	p := payload()
	ctx := baseCtx(p)
	si := vrt.Choice(len(sources))
	src := sources[si]
	wi := vrt.Choice(len(exprWrappers))
	wholeSlice := si >= 7
	if wholeSlice {
		// string + slice concatenates the printed form "[...]" of the slice: not a plumbing route
		vrt.Assume(wi != 1 && wi != 2 && wi != 11)
	}
	e := subst(exprWrappers[wi], src)
	if vrt.Tier() > 0 {
		wj := vrt.Choice(len(exprWrappers)) // depth 2
		if wholeSlice || wi == 7 || wi == 8 { // [IN] and [[IN]][0] are slices: string + slice prints "[...]"
			vrt.Assume(wj != 1 && wj != 2 && wj != 11)
		}
		e = subst(exprWrappers[wj], e)
	}
	in, pre, post := route(e)
	in = defs + in
	vrt.Note("input", in)
	got, err := plush.Render(in, ctx)
	vrt.Note("got", got)
	if err != nil {
		// a route may be ill-typed ([]string + "" is an error); that is not an escaping matter
		vrt.Cover("error")
		return
	}
	vrt.Assert(len(got) >= len(pre)+len(post), "the output contains the literal frame")
	vrt.Assert(got[:len(pre)] == pre, "literal prefix is emitted verbatim")
	vrt.Assert(got[len(got)-len(post):] == post, "literal suffix is emitted verbatim")
	r := got[len(pre) : len(got)-len(post)]
	vrt.Assert(decodesTo(r, p), "a string payload is emitted with < > & ' \" only as entities, and decodes to the payload")
	vrt.Cover("done")
}

// trusted HTML is emitted verbatim, exactly once
func TrustedRoutes() {
	p := payload()
	ctx := baseCtx("unused")
	ctx.Set("h", template.HTML(p))
	ctx.Set("hh", htmler{p})
	ctx.Set("x", p)
	ctx.Set("st", holder{HTML: template.HTML(p)})
	ctx.Set("hs", []interface{}{template.HTML(p)})
	trusted := []string{"h", "hh", "raw(x)", "st.HTML", "hs[0]", "hs", "idf(h)", "[h][0]", "{k: raw(x)}[\"k\"]", "idf(raw(x))"}
	e := trusted[vrt.Choice(len(trusted))]
	var in string
	switch vrt.Choice(8) {
	case 0:
		in = "[<%= " + e + " %>]"
	case 1:
		in = "[<%= if (true) { %><%= " + e + " %><% } %>]"
	case 2:
		in = "[<%= blk() { %><%= " + e + " %><% } %>]"
	case 3:
		in = "<% contentFor(\"c\") { %><%= " + e + " %><% } %>[<%= contentOf(\"c\") %>]"
	case 4:
		in = "[<%= partial(\"data\", {d: " + e + "}) %>]"
	case 5:
		in = "<% let y = " + e + " %>[<%= y %>]"
	case 6:
		in = "[<%= for (v) in [" + e + "] { %><%= v %><% } %>]"
	default:
		in = "<% let f = fn(v) { %><%= v %><% } %>[<%= f(" + e + ") %>]"
	}
	in = defs + in
	vrt.Note("input", in)
	got, err := plush.Render(in, ctx)
	vrt.Note("got", got)
	vrt.Assert(err == nil, "a trusted value renders")
	vrt.Assert(got == "["+p+"]", "trusted HTML is emitted verbatim, exactly once (never double-escaped, never dropped)")
	vrt.Cover("done")
}

// a string next to trusted HTML stays escaped
func Mixed() {
	p := payload()
	q := "<i>"
	ctx := baseCtx(p)
	ctx.Set("h", template.HTML(q))
	var in string
	var wantHTML bool
	switch vrt.Choice(5) {
	case 0:
		in, wantHTML = "[<%= x %>]<%= h %>", true
	case 1:
		in, wantHTML = "[<%= [x, h][0] %>]<%= [x, h][1] %>", true
	case 2:
		in, wantHTML = "<%= blk() { %>[<%= x %>]<%= h %><% } %>", true
	case 3:
		in, wantHTML = "<%= for (v) in [x] { %>[<%= v %>]<%= h %><% } %>", true
	default:
		in, wantHTML = "[<%= x %>]<%= raw(\"<i>\") %>", true
	}
	vrt.Note("input", in)
	got, err := plush.Render(in, ctx)
	vrt.Note("got", got)
	vrt.Assert(err == nil, "mixed trusted / untrusted output renders")
	if wantHTML {
		vrt.Assert(len(got) >= 2+len(q), "output has frame and trusted part")
		vrt.Assert(got[len(got)-len(q):] == q, "the trusted part is verbatim")
		r := got[1 : len(got)-len(q)-1]
		vrt.Assert(got[0] == '[' && got[len(got)-len(q)-1] == ']', "frame")
		vrt.Assert(decodesTo(r, p), "the string part is escaped")
	}
	vrt.Cover("done")
}

func bold(h template.HTML) template.HTML { return "<b>" + h + "</b>" }

func boldAll(hs ...template.HTML) template.HTML {
	out := template.HTML("")
	for _, h := range hs {
		out += h
	}
	return out
}

// a plain string never becomes trusted by being handed to a helper whose
// parameter is typed template.HTML: the call fails or the payload stays escaped
func HTMLTypedHelpers() {
	p := payload()
	ctx := baseCtx(p)
	ctx.Set("bold", bold)
	ctx.Set("boldAll", boldAll)
	calls := []string{"bold(x)", "bold(st.Field)", "bold(\"\" + x)", "boldAll(x)", "boldAll(raw(\"\"), x)", "bold(idf(x))", "bold(mi[\"k\"])"}
	c := calls[vrt.Choice(len(calls))]
	in := defs + "[<%= " + c + " %>]"
	vrt.Note("input", in)
	got, err := plush.Render(in, ctx)
	vrt.Note("got", got)
	if err != nil {
		vrt.Cover("rejected")
		return
	}
	// accepted: then whatever of the payload is emitted must be escaped
	for i := 0; i < len(p); i++ {
		c := p[i]
		if c == '<' || c == '>' || c == '\'' || c == '"' {
			inner := got
			if len(inner) >= 9 {
				inner = inner[4 : len(inner)-5] // between [<b> and </b>]
			}
			vrt.Assert(!containsByte(inner, c), "a string passed to an HTML-typed helper parameter is not emitted verbatim")
		}
	}
	vrt.Cover("accepted")
}

func containsByte(s string, c byte) bool {
	for i := 0; i < len(s); i++ {
		if s[i] == c {
			return true
		}
	}
	return false
}

// Role is a named string type without String()/HTML() methods: it is string
// data, not trusted HTML.
type Role string

type roleHolder struct {
	R  Role
	Rs []Role
}

// safe: the region contains no raw special and every & starts an entity
func safe(r string) bool {
	for i := 0; i < len(r); i++ {
		c := r[i]
		if c == '<' || c == '>' || c == '\'' || c == '"' {
			return false
		}
		if c == '&' {
			ok := false
			for _, e := range []string{"&lt;", "&gt;", "&amp;", "&#39;", "&#34;", "&quot;", "&apos;"} {
				if i+len(e) <= len(r) {
					if r[i:i+len(e)] == e {
						ok = true
					}
				}
			}
			if !ok {
				return false
			}
		}
	}
	return true
}

// values of named string types are string data: whatever is emitted for them is escaped
func NamedStringTypes() {
	p := payload()
	ctx := baseCtx(p)
	ctx.Set("role", Role(p))
	ctx.Set("rh", roleHolder{R: Role(p), Rs: []Role{Role(p)}})
	ctx.Set("rm", map[string]Role{"k": Role(p)})
	ctx.Set("ri", []interface{}{Role(p)})
	srcs := []string{"role", "rh.R", "rh.Rs[0]", "rm[\"k\"]", "ri[0]", "ri", "[role][0]", "idf(role)", "{k: role}[\"k\"]"}
	e := srcs[vrt.Choice(len(srcs))]
	in, pre, post := route(e)
	in = defs + in
	vrt.Note("input", in)
	got, err := plush.Render(in, ctx)
	vrt.Note("got", got)
	if err != nil {
		vrt.Cover("error")
		return
	}
	vrt.Assert(len(got) >= len(pre)+len(post), "the output contains the literal frame")
	r := got[len(pre) : len(got)-len(post)]
	vrt.Assert(safe(r), "a value of a named string type is never emitted with raw < > & ' \"")
	vrt.Cover("done")
}

type htmlHolder struct {
	H  template.HTML
	Hs []template.HTML
}

// a plain string stored by the template into a container whose element type is
// template.HTML (index assignment, variable assignment over an HTML value) does
// not become trusted: the store is refused, or what is printed is escaped. Every
// program prints only the slot it stored into.
func StoredInHTMLTyped() {
	p := payload()
	ctx := baseCtx(p)
	ctx.Set("hm", map[string]template.HTML{"k": "<i>"})
	ctx.Set("hs", []template.HTML{"<i>"})
	ctx.Set("ha", &[1]template.HTML{"<i>"})
	ctx.Set("him", map[string]interface{}{"k": template.HTML("<i>")})
	ctx.Set("hh", &htmlHolder{H: "<i>", Hs: []template.HTML{"<i>"}})
	ctx.Set("hv", template.HTML("<i>"))
	progs := []string{
		"<% hm[\"k\"] = x %>[<%= hm[\"k\"] %>]",
		"<% hm[\"n\"] = x %>[<%= hm[\"n\"] %>]",
		"<% hm[\"k\"] = \"\" + x %>[<%= for (k, v) in hm { %><%= v %><% } %>]",
		"<% hs[0] = x %>[<%= hs[0] %>]",
		"<% hs[0] = st.Field %>[<%= for (v) in hs { %><%= v %><% } %>]",
		"<% ha[0] = x %>[<%= ha[0] %>]",
		"<% him[\"k\"] = x %>[<%= him[\"k\"] %>]",
		"<% hh.Hs[0] = x %>[<%= hh.Hs[0] %>]",
		"<% hv = x %>[<%= hv %>]",
		"<% let hv = x %>[<%= hv %>]",
		// appended to an (empty) list of trusted HTML: refused, dropped, or printed escaped
		"[<%= he + x %>]",
		"<% let c = he + x %>[<%= c %>]",
		"[<%= for (v) in he + x { %><%= v %><% } %>]",
		"<% let c = he + x %>[<%= c[0] %>]",
		"<% let c = he + (\"\" + x) %>[<%= for (v) in c { %><%= v %><% } %>]",
	}
	ctx.Set("he", []template.HTML{})
	k := vrt.Choice(len(progs))
	in := progs[k]
	vrt.Note("input", in)
	got, err := plush.Render(in, ctx)
	vrt.Note("got", got)
	if err != nil {
		vrt.Cover("refused")
		return
	}
	vrt.Assert(len(got) >= 2, "the output contains the literal frame")
	r := got[1 : len(got)-1]
	vrt.Assert(safe(r), "a string stored into an HTML-typed container is not emitted verbatim")
	if k >= 10 && r == "" {
		vrt.Cover("accepted") // a list of HTML that prints nothing
		return
	}
	vrt.Assert(decodesTo(r, p), "the stored string is printed, escaped")
	vrt.Cover("accepted")
}

// ---- the decision "escape or verbatim" is made for each value that is written,
// not once per type or per tag: sequences of 2-3 output tags (in one render and
// across two renders) whose values have the same Go type but hold different
// kinds - a wrapper with an Interface() method (nulls-style) holding trusted
// HTML, an untrusted string, nil, a number; an interface-typed struct field; a
// []interface{} element - every untrusted string comes out escaped, every
// trusted value verbatim once, whatever was written before it
type wrap struct{ v interface{} }

func (w wrap) Interface() interface{} { return w.v }

type anyHolder struct{ V interface{} }

func SequencesOfKinds() {
	p := payload()
	for i := 0; i < len(p); i++ {
		vrt.Assume(p[i] != ']') // the bracket delimits the regions below
	}
	const trusted = "<b>T</b>"
	mk := func(kind int) interface{} {
		switch kind {
		case 0:
			return template.HTML(trusted)
		case 1:
			return p
		case 2:
			return nil
		case 3:
			return 7
		}
		return htmler{trusted}
	}
	n := 2 + vrt.Choice(2)
	kinds := make([]int, n)
	for i := range kinds {
		kinds[i] = vrt.Choice(5)
	}
	carrier := vrt.Choice(3)
	ctx := plush.NewContext()
	in := ""
	for i, k := range kinds {
		name := "a" + string(rune('0'+i))
		switch carrier {
		case 0:
			ctx.Set(name, wrap{mk(k)})
			in += "[<%= " + name + " %>]"
		case 1:
			ctx.Set(name, anyHolder{mk(k)})
			in += "[<%= " + name + ".V %>]"
		default:
			ctx.Set(name, []interface{}{mk(k)})
			in += "[<%= " + name + "[0] %>]"
		}
	}
	split := vrt.Choice(2) == 1 // the last tag in a second render of its own
	var got string
	var err error
	vrt.Note("input", in)
	if split {
		cut := len(in) - len("[<%= a0 %>]")
		if carrier == 1 {
			cut = len(in) - len("[<%= a0.V %>]")
		} else if carrier == 2 {
			cut = len(in) - len("[<%= a0[0] %>]")
		}
		var g1, g2 string
		g1, err = plush.Render(in[:cut], ctx)
		if err == nil {
			g2, err = plush.Render(in[cut:], ctx)
		}
		got = g1 + g2
	} else {
		got, err = plush.Render(in, ctx)
	}
	vrt.Note("got", got)
	if err != nil {
		// a nil held by a field or element may be refused; that is not an escaping matter
		vrt.Cover("error")
		return
	}
	// walk the output: [ region ] per tag
	rest := got
	for _, k := range kinds {
		vrt.Assert(len(rest) >= 2 && rest[0] == '[', "every output tag contributes its bracketed region")
		rest = rest[1:]
		switch k {
		case 0, 4:
			vrt.Assert(len(rest) >= len(trusted)+1 && rest[:len(trusted)] == trusted && rest[len(trusted)] == ']', "a trusted value is emitted verbatim, exactly once, whatever was written before it")
			rest = rest[len(trusted)+1:]
		case 1:
			j := 0
			for j < len(rest) && rest[j] != ']' {
				j++
			}
			vrt.Assert(j < len(rest), "the region of a string is closed")
			vrt.Assert(decodesTo(rest[:j], p), "an untrusted string is escaped whatever was written before it")
			rest = rest[j+1:]
		case 2:
			vrt.Assert(rest[0] == ']', "nil prints nothing")
			rest = rest[1:]
		default:
			vrt.Assert(len(rest) >= 2 && rest[:2] == "7]", "a number prints its digits")
			rest = rest[2:]
		}
	}
	vrt.Assert(rest == "", "nothing else is emitted")
	vrt.Cover("done")
}

// ---- untrusted strings that reach the sink through a method of their type or
// through a helper that formats them: a named string type with a String
// method, a struct with a String method (value and pointer), a function
// literal whose source contains the string as a literal, debug(x) / inspect(x)
type label string

func (l label) String() string { return string(l) }

type tagged struct{ s string }

func (t tagged) String() string { return t.s }

func PrintedThroughMethods() {
	p := payload()
	for i := 0; i < len(p); i++ {
		vrt.Assume(p[i] != '"' && p[i] != '\\' && p[i] != '\n' && p[i] != '\r') // the payload also stands inside a string literal below
	}
	ctx := baseCtx(p)
	ctx.Set("pl", p)
	ctx.Set("lab", label(p))
	ctx.Set("tg", tagged{p})
	ctx.Set("tgp", &tagged{p})
	ctx.Set("labs", []interface{}{label(p)})
	var in, pre, post string
	switch vrt.Choice(7) {
	case 0:
		in, pre, post = "[<%= lab %>]", "[", "]"
	case 1:
		in, pre, post = "[<%= tg %>]", "[", "]"
	case 2:
		in, pre, post = "[<%= tgp %>]", "[", "]"
	case 3:
		in, pre, post = "[<%= labs[0] %>]", "[", "]"
	case 4:
		in, pre, post = "<%= debug(pl) %>", "<pre>", "</pre>"
	case 5:
		in, pre, post = "<%= debug(lab) %>", "<pre>", "</pre>"
	default:
		in, pre, post = "[<%= inspect(pl) %>]", "[", "]"
	}
	vrt.Note("input", in)
	got, err := plush.Render(in, ctx)
	vrt.Note("got", got)
	vrt.Assert(err == nil, "a value printed through a method or a formatting helper renders")
	vrt.Assert(len(got) >= len(pre)+len(post) && got[:len(pre)] == pre && got[len(got)-len(post):] == post, "the frame is emitted verbatim")
	r := got[len(pre) : len(got)-len(post)]
	vrt.Assert(decodesTo(r, p), "a string that reaches the output through String() or a formatting helper has < > & ' \" only as entities and decodes to itself")
	vrt.Cover("done")
}
