// Package c02: output = literal text verbatim + values of <%= %> tags, in source order.
package c02

import (
	"html/template"
	"strconv"

	plush "github.com/gobuffalo/plush/v5"

	"verifharness/ent"
	"verifharness/gen"
	"verifharness/vrt"
)

func init() {
	vrt.Register("C02_text_only", TextOnly)
	vrt.Register("C02_text_and_tags", TextAndTags)
	vrt.Register("C02_string_literal", StringLiteral)
	vrt.Register("C02_string_literal_escapes", StringLiteralEscapes)
	vrt.Register("C02_bstring_literal", BStringLiteral)
	vrt.Register("C02_tags_in_blocks", TagsInBlocks)
	vrt.Register("C02_escape_sequences", EscapeSequences)
	vrt.Register("C02_text_around_control_statements", TextAroundControlStatements)
}

// part of a template: literal text (symbolic) or a tag with a known value.
type part struct {
	text  string
	isTag bool
	value string // what the tag contributes to the output
}

// refRender is the reference scanner written from the statement. Scanning left
// to right: `\\<%` is one backslash followed by a live tag, `\<%` is a literal
// `<%`, `<%` opens a tag, everything else is copied. It knows where the
// generated tags are; a tag opener anywhere else, or a generated tag that is
// not live, is excluded by assumption (vrt.Assume), not silently.
func refRender(parts []part) string {
	var input string
	tagAt := map[int]int{} // start offset -> part index
	for i, p := range parts {
		if p.isTag {
			tagAt[len(input)] = i
		}
		input += p.text
	}
	out := ""
	i := 0
	n := len(input)
	seen := 0
	for i < n {
		c := input[i]
		if c == '\\' {
			if i+3 < n {
				if input[i+1] == '\\' {
					if input[i+2] == '<' {
						if input[i+3] == '%' {
							// one backslash, then a live tag at i+2
							out += "\\"
							i += 2
							continue
						}
					}
				}
			}
			if i+2 < n {
				if input[i+1] == '<' {
					if input[i+2] == '%' {
						// escaped opener; it must not be one of the generated tags
						_, gen := tagAt[i+1]
						vrt.Assume(!gen)
						out += "<%"
						i += 3
						continue
					}
				}
			}
		}
		if c == '<' {
			if i+1 < n {
				if input[i+1] == '%' {
					pi, gen := tagAt[i]
					vrt.Assume(gen) // a live opener formed by text bytes is outside the harness
					out += parts[pi].value
					i += len(parts[pi].text)
					seen++
					continue
				}
			}
		}
		out += input[i : i+1]
		i++
	}
	tags := 0
	for _, p := range parts {
		if p.isTag {
			tags++
		}
	}
	vrt.Assume(seen == tags)
	return out
}

// blk is a block helper that returns what its block renders to.
func blk(help plush.HelperContext) (template.HTML, error) {
	s, err := help.Block()
	return template.HTML(s), err
}

func newCtx() *plush.Context {
	ctx := plush.NewContext()
	ctx.Set("blk", blk)
	return ctx
}

func join(parts []part) string {
	s := ""
	for _, p := range parts {
		s += p.text
	}
	return s
}

func check(parts []part) {
	input := join(parts)
	wantFn := func() string { return refRender(parts) }
	wantFn() // the reference scanner's assumptions (text bytes that form a tag opener) come first
	vrt.Note("input", input)
	got, err := plush.Render(input, newCtx())
	vrt.Note("got", got)
	vrt.Assert(err == nil, "a well-formed template renders")
	vrt.Assert(ent.Same(got, wantFn), "output = literal text + values of output tags, in order")
	vrt.Cover("rendered")
}

// (A) a template without tags renders to itself (modulo the escape \<%)
func TextOnly() {
	max := 5
	if vrt.Tier() > 0 {
		max = 7
	}
	n := vrt.IntRange(0, max)
	s := vrt.Bytes(n)
	check([]part{{text: s}})
}

var tags = []part{
	{"<%= \"V\" %>", true, "V"},
	{"<%= 7 %>", true, "7"},
	{"<% let x = 1 %>", true, ""},
	{"<% \"v\" %>", true, ""},
	{"<% raw(\"h\") %>", true, ""},
	{"<%# c %>", true, ""},
	{"<% if (true) { 1 } %>", true, ""},
	{"<% for (v) in [1] { v } %>", true, ""},
	{"<%= if (true) { return \"r\" } %>", true, "r"},
	{"<%= \"%><%\" %>", true, "%&gt;&lt;%"},
	{"<% let y = \"<%= 1 %>\" %>", true, ""},
}

// (B) s0 TAG s1 [TAG s2]
func TextAndTags() {
	max := 2
	if vrt.Tier() > 0 {
		max = 3
	}
	s0 := vrt.Bytes(vrt.IntRange(0, max))
	t1 := tags[vrt.Choice(len(tags))]
	s1 := vrt.Bytes(vrt.IntRange(0, max))
	parts := []part{{text: s0}, t1, {text: s1}}
	if vrt.Bool() {
		t2 := tags[vrt.Choice(len(tags))]
		parts = append(parts, t2, part{text: "z"})
	}
	check(parts)
}

// (D) a double-quoted string denotes the characters between its quotes, \" = quote
func StringLiteral() {
	max := 3
	if vrt.Tier() > 0 {
		max = 5
	}
	n := vrt.IntRange(0, max)
	s := vrt.Bytes(n)
	stringLiteral(s)
}

// longer contents over the characters that matter to the escape rule (runs of \" and \\)
func StringLiteralEscapes() {
	n := vrt.IntRange(0, 6+2*vrt.Tier())
	stringLiteral(vrt.BytesIn(n, "\\\"a"))
}

func stringLiteral(s string) {
	n := len(s)
	// reference: left to right, \" is a quote; a bare quote would end the string early
	val := ""
	i := 0
	for i < n {
		if s[i] == '\\' {
			if i+1 < n {
				if s[i+1] == '"' {
					val += "\""
					i += 2
					continue
				}
			} else {
				vrt.Assume(false) // trailing backslash would escape the closing quote
			}
		}
		vrt.Assume(s[i] != '"')
		val += s[i : i+1]
		i++
	}
	kind := vrt.Choice(3)
	var input string
	var want func() string
	switch kind {
	case 0:
		input, want = "a<%= \""+s+"\" %>b", func() string { return "a" + ent.Esc(val) + "b" }
	case 1:
		input, want = "<% let x = \""+s+"\" %>[<%= x %>]", func() string { return "[" + ent.Esc(val) + "]" }
	default:
		input, want = "<%= raw(\""+s+"\") %>", func() string { return val }
	}
	vrt.Note("input", input)
	got, err := plush.Render(input, newCtx())
	vrt.Note("got", got)
	vrt.Assert(err == nil, "a template with a terminated string renders")
	vrt.Assert(ent.Same(got, want), "a double-quoted string denotes exactly the characters between its quotes")
	vrt.Cover("rendered")
}

// back-quoted strings are taken raw
func BStringLiteral() {
	max := 3
	if vrt.Tier() > 0 {
		max = 5
	}
	n := vrt.IntRange(0, max)
	s := vrt.Bytes(n)
	for i := 0; i < n; i++ {
		vrt.Assume(s[i] != '`')
	}
	input := "a<%= `" + s + "` %>b"
	vrt.Note("input", input)
	got, err := plush.Render(input, newCtx())
	vrt.Note("got", got)
	vrt.Assert(err == nil, "a template with a terminated back-quoted string renders")
	vrt.Assert(ent.Same(got, func() string { return "a" + ent.Esc(s) + "b" }), "a back-quoted string is taken raw")
	vrt.Cover("rendered")
}

// (C) text and silent tags inside the blocks of if / for / fn / block helper
func TagsInBlocks() {
	max := 1 + vrt.Tier()
	s0 := vrt.Bytes(vrt.IntRange(0, max))
	ti := vrt.Choice(len(tags))
	// a `return` inside a block ends that block (C08/C16 territory), so the tag
	// that uses one is not placed inside blocks
	vrt.Assume(ti != 8)
	inner := tags[ti]
	s1 := vrt.Bytes(vrt.IntRange(0, max))
	var pre, post string
	wrap := vrt.Choice(4)
	switch wrap {
	case 0:
		pre, post = "<%= if (true) { %>", "<% } %>"
	case 1:
		pre, post = "<%= for (q) in [1] { %>", "<% } %>"
	case 2:
		pre, post = "<% let f = fn() { %>", "<% } %><%= f() %>"
	default:
		pre, post = "<%= blk() { %>", "<% } %>"
	}
	// the opening and closing tags of the construct are tags for the reference
	// scanner too (a text byte may not escape or extend them)
	body := []part{{pre, true, ""}, {text: s0}, inner, {text: s1}, {post, true, ""}}
	wantFn := func() string { return refRender(body) }
	wantFn()
	input := join(body)
	vrt.Note("input", input)
	got, err := plush.Render(input, newCtx())
	vrt.Note("got", got)
	vrt.Assert(err == nil, "a well-formed template renders")
	vrt.Assert(ent.Same(got, wantFn), "inside a block: output = literal text + values of output tags, in order")
	vrt.Cover("rendered")
}

// longer texts built from the pieces the scanner reacts to (enumerated), with one
// arbitrary byte in between: every combination of the two escapes within one
// run of literal text, before and after a live tag
var chunks = []string{"\\<%", "\\\\", "\\", "<", "%", "x"}

func chunkText(k int) string {
	s := ""
	n := vrt.IntRange(0, k)
	for i := 0; i < n; i++ {
		s += chunks[vrt.Choice(len(chunks))]
	}
	return s
}

func EscapeSequences() {
	k := 2 + vrt.Tier()
	s0 := chunkText(k) + vrt.Bytes(vrt.IntRange(0, 1)) + chunkText(1)
	t1 := tags[vrt.Choice(2)]
	s1 := chunkText(1 + vrt.Tier())
	parts := []part{{text: s0}, t1, {text: s1}}
	if vrt.Bool() {
		// inside a block
		parts = append([]part{{"<%= if (true) { %>", true, ""}}, parts...)
		parts = append(parts, part{"<% } %>", true, ""})
	}
	check(parts)
}

// literal text and output tags before a break / continue inside a loop body are
// part of the output, what follows them in that iteration is not - for every
// kind of iterable (array literal, slice variable, iterator helper, map of one entry)
func TextAroundControlStatements() {
	alphabet := "ab \n>&\"'"
	s0 := vrt.BytesIn(vrt.IntRange(0, 1+vrt.Tier()), alphabet)
	s1 := vrt.BytesIn(vrt.IntRange(0, 1), alphabet)
	iters := []string{"[1, 2]", "xs12", "range(1, 2)", "between(0, 3)", "until3"}
	vals := [][]int{{1, 2}, {1, 2}, {1, 2}, {1, 2}, {0, 1, 2}}
	k := vrt.Choice(len(iters))
	it := iters[k]
	if it == "until3" {
		it = "until(3)"
	}
	ctls := []string{"<% break %>", "<% continue %>", "<% if (q == 2) { break } %>", "<% if (q == 1) { continue } %>", ""}
	c := vrt.Choice(len(ctls))
	in := "[<%= for (q) in " + it + " { %>" + s0 + "<%= q %>" + ctls[c] + s1 + "<% } %>]"
	want := "["
	for _, v := range vals[k] {
		want += s0 + strconv.Itoa(v)
		if c == 0 {
			break
		}
		if c == 1 {
			continue
		}
		if c == 2 {
			if v == 2 {
				break
			}
		}
		if c == 3 {
			if v == 1 {
				continue
			}
		}
		want += s1
	}
	want += "]"
	ctx := newCtx()
	ctx.Set("xs12", []int{1, 2})
	vrt.Note("input", in)
	got, err := plush.Render(in, ctx)
	vrt.Note("got", got)
	vrt.Assert(err == nil, "a loop with a control statement renders")
	vrt.Assert(got == want, "text and values before a break/continue are kept, in source order; what follows in that iteration is dropped")
	vrt.Cover("rendered")
}

// ---- text, output tags and silent code tags around and inside control
// constructs, enumerated from a grammar and checked against the reference
// interpreter of package gen
func init() {
	vrt.Register("C02_generated_mixed", GeneratedMixed)
	vrt.Register("C02_values_in_source_order", ValuesInSourceOrder)
}

func GeneratedMixed() {
	p := gen.Profile{Ifs: true, Ctl: true, Loops: true, Lets: true, Assigns: true, Bare: true, NoKey: true, Conds: 1, Vals: 2, Pres: 2, Posts: 2, Leafs: 3, Iters: 2}
	if vrt.Tier() > 0 {
		p = gen.Profile{Ifs: true, Elifs: true, Ctl: true, Bare: true, Loops: true, Lets: true, Assigns: true, Calls: true, Unknown: true, Conds: 4, Vals: 4, Iters: 5}
	}
	g := &gen.G{P: p}
	prog := []*gen.Stmt{gen.Let("v", gen.Lit(1)), g.Text()}
	// a silent tag of every kind between two pieces of text
	switch vrt.Choice(5) {
	case 0:
		prog = append(prog, gen.Eval(gen.Add(gen.Var("x"), gen.Lit(1))))
	case 1:
		prog = append(prog, gen.Eval(gen.Call("same", gen.Var("xs"))))
	case 2:
		prog = append(prog, gen.Assign("v", gen.Var("x")))
	case 3:
		prog = append(prog, gen.Eval(gen.Var("x")))
	}
	prog = append(prog, g.Block(gen.Cx{Inner: "x"}, 1)...)
	prog = append(prog, g.Text())
	gen.Check(prog, gen.NewData(2), "text, output tags and silent tags around a construct")
}

// ---- the output holds the values the <%= %> tags produced, in source order: a tag
// inside a block contributes what its value is when the tag is reached, also when
// code tags further down change the container or the object the value lives in
type tally struct{ n int }

func (t *tally) Inc() int       { t.n++; return t.n }
func (t *tally) String() string { return strconv.Itoa(t.n) }

func ValuesInSourceOrder() {
	a, b := vrt.Int(), vrt.Int()
	vrt.Assume(a < 1<<62) // a + 2 does not wrap
	ctx := plush.NewContext()
	ctx.Set("a", a)
	ctx.Set("b", b)
	ctx.Set("c", &tally{n: a})
	A, B := strconv.Itoa(a), strconv.Itoa(b)
	seq := "<%= xs %>;<% xs[0] = b %><%= xs %>"
	cnt := "<%= c %>,<% c.Inc() %>"
	cases := []struct{ in, want string }{
		{"<% let xs = [a] %>" + seq, A + ";" + B},
		{"<% let xs = [a] %><%= if (true) { %>" + seq + "<% } %>", A + ";" + B},
		{"<% let xs = [a] %><%= for (i) in [1] { %>" + seq + "<% } %>", A + ";" + B},
		{"<% let xs = [a] %><% let f = fn() { %>" + seq + "<% } %><%= f() %>", A + ";" + B},
		{"<% let xs = [a] %><%= if (true) { %><%= if (true) { %>" + seq + "<% } %><% } %>", A + ";" + B},
		{cnt + cnt, A + "," + strconv.Itoa(a+1) + ","},
		{"<%= for (i) in [1, 2, 3] { %>" + cnt + "<% } %>", A + "," + strconv.Itoa(a+1) + "," + strconv.Itoa(a+2) + ","},
		{"<%= if (true) { %>" + cnt + cnt + "<% } %>", A + "," + strconv.Itoa(a+1) + ","},
		{"<% let m = {k: a} %><%= if (true) { %><%= m[\"k\"] %>;<% m[\"k\"] = b %><%= m[\"k\"] %><% } %>", A + ";" + B},
	}
	c := cases[vrt.Choice(len(cases))]
	vrt.Note("input", c.in)
	got, err := plush.Render("["+c.in+"]", ctx)
	vrt.Note("got", got)
	vrt.Assert(err == nil, "the template renders")
	vrt.Assert(got == "["+c.want+"]", "each <%= %> tag contributes the value it produced when it was reached, in source order")
	vrt.Cover("done")
}
