// Package c03: parsing is total - any text yields a program or an error,
// never a crash or a hang.
package c03

import (
	"strings"

	plush "github.com/gobuffalo/plush/v5"
	"github.com/gobuffalo/plush/v5/parser"

	"verifharness/vrt"
)

func init() {
	vrt.Register("C03_bytes_raw", BytesRaw)
	vrt.Register("C03_bytes_framed", BytesFramed)
	vrt.Register("C03_bytes_tag3", BytesTag3)
	vrt.Register("C03_bytes_tag4", BytesTag4)
	vrt.Register("C03_tokens", Tokens)
	vrt.Register("C03_template_api", TemplateAPI)
	vrt.Register("C03_histories", Histories)
	vrt.Register("C03_near_valid", NearValid)
	vrt.Register("C03_near_valid_whole", NearValidWhole)
	vrt.Register("C03_deep_nesting", DeepNesting)
}

var framings = [][2]string{
	{"<% ", ""},
	{"<% ", " %>"},
	{"<%= ", " %>"},
	{"<%# ", ""},
	{"<% if (true) { ", ""},
	{"<% for (x) in xs { ", ""},
	{"<% fn() { ", ""},
	{"<%= f(", ""},
	{"<%= [", ""},
	{"<%= {", ""},
	{"<%= a[", ""},
	{"<%= if (true) { %>t<% } ", " %>"},
	{"<% for (x) in xs { %>t<% ", " } %>"},
	{"<% let f = fn(x) { ", " } %>"},
	{"<%= for (v) in ", " { %>"},
	{"<%= if (", ") { %>"},
	{"<%= a.b(", ") { %>x<% } %>"},
	{"<%= {k: ", "} %>"},
	{"<%#", "%>t<% let a = 1 %>"},
	{"a<%# x ", " %><%= 1 %>"},
}

// total: Parse returns; the result is a tree or an error with a message.
func total(input string) {
	vrt.Note("input", input)
	prog, err := parser.Parse(input)
	if err != nil {
		vrt.Assert(err.Error() != "", "a syntax error has a message")
		vrt.Cover("error")
	} else {
		vrt.Assert(prog != nil, "a successful parse yields a program")
		vrt.Cover("parsed")
	}
}

// every string of n arbitrary bytes (all 256 values, NUL included) as a template
func BytesRaw() {
	max := 4
	if vrt.Tier() > 0 {
		max = 6
	}
	n := vrt.IntRange(0, max)
	total(vrt.Bytes(n))
}

// n arbitrary bytes inside every framing
func BytesFramed() {
	f := framings[vrt.Choice(len(framings))]
	max := 2
	n := vrt.IntRange(0, max)
	total(f[0] + vrt.Bytes(n) + f[1])
}

// 3 arbitrary bytes inside <% S %> and <%= S %> (thorough: all framings)
func BytesTag3() {
	nf := 3
	if vrt.Tier() > 0 {
		nf = len(framings)
	}
	f := framings[vrt.Choice(nf)]
	total(f[0] + vrt.Bytes(3) + f[1])
}

// 4 arbitrary bytes inside <% S %> and <%= S %> (quick: 1 byte, the harness is a thorough-tier one)
func BytesTag4() {
	n := 1
	if vrt.Tier() > 0 {
		n = 4
	}
	f := framings[1+vrt.Choice(2)]
	total(f[0] + vrt.Bytes(n) + f[1])
}

// the token vocabulary: keywords and punctuation concrete, literal atoms symbolic
var vocab = []string{
	"a", "a.b", "7", "1.5", "1.2.3", "\"s\"", "`s`", "true", "nil",
	"let", "if", "else", "for", "in", "fn", "return", "break", "continue",
	"=", "==", "!=", "+", "-", "*", "/", "<", "<=", ">", ">=", "&&", "||", "~=", "!", "&", "|", "%", "~", "@",
	"(", ")", "{", "}", "[", "]", ",", ";", ":", ".", "#", "\n",
	"%>", "<%", "<%=", "<%#", "99999999999999999999",
}

func atom() string {
	i := vrt.Choice(len(vocab) + 2)
	if i < len(vocab) {
		return vocab[i]
	}
	if i == len(vocab) {
		return vrt.BytesIn(2, "ab1.-_") // identifier / number / path-like atom with symbolic content
	}
	return "\"" + vrt.Bytes(1) + "\"" // string literal with arbitrary content (may close early)
}

// every sequence of k atoms in the three basic framings
func Tokens() {
	k := 2 + vrt.Tier()
	f := framings[vrt.Choice(3)]
	s := f[0]
	for i := 0; i < k; i++ {
		s += atom() + " "
	}
	total(s + f[1])
}

// the same through the public template API (Parse, NewTemplate, Render)
func TemplateAPI() {
	f := framings[vrt.Choice(len(framings))]
	input := f[0] + vrt.Bytes(1) + f[1]
	vrt.Note("input", input)
	t, err := plush.Parse(input)
	if err != nil {
		vrt.Assert(err.Error() != "", "a syntax error has a message")
		_, rerr := plush.Render(input, plush.NewContext())
		vrt.Assert(rerr != nil, "Render fails when Parse fails")
		return
	}
	vrt.Assert(t != nil, "a successful parse yields a template")
	vrt.Cover("parsed")
}

// totality is also a matter of histories: with the cache on, a call that
// returned an error must leave the package able to answer the next call
func Histories() {
	fa := framings[vrt.Choice(len(framings))]
	fb := framings[vrt.Choice(4)]
	a := fa[0] + vrt.Bytes(1) + fa[1]
	b := fb[0] + "x" + fb[1]
	vrt.Note("a", a)
	vrt.Note("b", b)
	plush.CacheEnabled = true
	_, e1 := plush.Parse(a)
	_, e2 := plush.Parse(b)
	_, e3 := plush.Parse(a)
	_, e4 := plush.Render(b, plush.NewContext())
	t, _ := plush.NewTemplate("x")
	plush.CacheSet("k", t)
	plush.CacheEnabled = false
	vrt.Assert((e1 == nil) == (e3 == nil), "parsing the same text again gives the same verdict")
	if e2 != nil {
		vrt.Assert(e4 != nil, "Render fails when Parse fails")
	}
	vrt.Cover("done")
}

// ---- one token edit away from a valid template of every construct: the parser
// is deep inside a construct when it meets the wrong token (an else-if whose
// condition is a comma, a hash whose value is a brace, a call whose block is cut)
var validPrograms = []string{
	`<% if ( a ) { } else if ( b ) { } else { } %>`,
	`<%= if ( a == 1 ) { %> x <% } else if ( ! b ) { %> y <% } else { %> z <% } %>`,
	`<%= for ( k , v ) in xs { %> t <% } %>`,
	`<% for ( v ) in f ( 1 ) { break } %>`,
	`<% let f = fn ( p , q ) { return p + q } %>`,
	`<%= f ( 1 , "s" , { a : 1 , "b" : c } ) { %> x <% } %>`,
	`<%= a.b [ 0 ] . c ( 1 ) . d %>`,
	`<% x [ 1 ] = [ 1 , 2 , [ 3 ] ] %>`,
	`<%= { "a" : 1 , b : [ 2 ] } %>`,
	`<% let x = ( 1 + 2 ) * 3 - 4 / 5 %>`,
	`<%= a && b || ! c ~= "r" %>`,
	`<%# c %> <%= x %>`,
	`<% for ( v ) in xs { if ( v ) { continue } else { break } } %>`,
	`<%= partial ( "p" , { x : 1 } ) %>`,
	`<% let a = fn ( ) { } %> <%= a ( ) %>`,
	`<%= for ( i , v ) in [ 1 , 2 ] { %> <%= if ( v ) { %> a <% } %> <% } %>`,
	`<% a = b %> <% return c %>`,
}

var editVocab = []string{
	"(", ")", "{", "}", "[", "]", ",", ":", ".", "=", "==", "!", "if", "else", "for", "in", "fn", "let", "return", "break",
	"a", "7", "\"s\"", "%>", "<%", "<%=", "+", "&&", "#", "\n", "continue", "nil", "true", "1.5", "a.b", "<%#", ";", "|", "`s`", "~=",
}

func edit(toks []string, nv int) []string {
	p := vrt.Choice(len(toks))
	out := make([]string, 0, len(toks)+1)
	out = append(out, toks[:p]...)
	switch vrt.Choice(3) {
	case 0: // delete
	case 1: // replace
		out = append(out, editVocab[vrt.Choice(nv)])
	default: // insert before
		out = append(out, editVocab[vrt.Choice(nv)], toks[p])
	}
	return append(out, toks[p+1:]...)
}

func NearValid() {
	toks := strings.Split(validPrograms[vrt.Choice(len(validPrograms))], " ")
	nv := 20
	if vrt.Tier() > 0 {
		nv = len(editVocab)
	}
	toks = edit(toks, nv)
	if vrt.Tier() > 0 && vrt.Choice(2) == 1 {
		toks = edit(toks, 8) // a second edit from the bracket / comma subset
	}
	total(strings.Join(toks, " "))
}

// what Parse accepts is a whole program: it can be printed and evaluated (here with
// an empty context, so most runs end in an error value) without meeting a hole
// the parser left in it
func NearValidWhole() {
	toks := strings.Split(validPrograms[vrt.Choice(len(validPrograms))], " ")
	nv := 20
	if vrt.Tier() > 0 {
		nv = len(editVocab)
	}
	toks = edit(toks, nv)
	input := strings.Join(toks, " ")
	vrt.Note("input", input)
	t, err := plush.NewTemplate(input)
	if err != nil {
		vrt.Cover("error")
		return
	}
	ctx := plush.NewContext()
	ctx.Set("xs", []int{1})
	ctx.Set("a", true)
	out, xerr := t.Exec(ctx)
	if xerr != nil {
		vrt.Assert(out == "", "an error comes with empty output")
	}
	vrt.Cover("parsed")
}

// ---- deep nesting: d nested blocks (if / for / fn / a helper call with a block,
// or a mix), closed or cut off. Parsing must stay cheap: work that doubles per
// level is a hang at depth 32 for a template of a few hundred bytes. The fuel of
// a path is the unwinding bound: exhausting it is reported as a hang candidate
// and replayed natively under a deadline.
var openers = []string{
	"<%= if (a) { %>",
	"<%= for (v) in xs { %>",
	"<% let f = fn(x) { %>",
	"<%= h() { %>",
	"<% if (a) { %>x<% } else { %>",
}

func DeepNesting() {
	depths := []int{4, 12, 24, 40}
	d := depths[vrt.Choice(len(depths))]
	kind := vrt.Choice(len(openers) + 1) // the last one: a mix
	closed := vrt.Choice(2) == 1
	var sb strings.Builder
	for i := 0; i < d; i++ {
		k := kind
		if kind == len(openers) {
			k = i % len(openers)
		}
		sb.WriteString(openers[k])
		if vrt.Tier() > 0 || i%8 == 0 {
			sb.WriteString("<%# c %>t")
		}
	}
	sb.WriteString("z")
	if closed {
		for i := 0; i < d; i++ {
			sb.WriteString("<% } %>")
		}
	}
	total(sb.String())
}
