// Package c04: evaluation is total - runtime type/arity/index faults are errors, never panics.
package c04

import (
	"fmt"
	"html/template"
	"math"
	"reflect"
	"sort"
	"time"

	plush "github.com/gobuffalo/plush/v5"
	"github.com/gobuffalo/plush/v5/helpers/debug"
	"github.com/gobuffalo/plush/v5/helpers/hctx"
	"github.com/gobuffalo/plush/v5/helpers/iterators"
	"github.com/gobuffalo/plush/v5/helpers/paths"

	"verifharness/vrt"
)

func init() {
	vrt.Register("C04_operators", Operators)
	vrt.Register("C04_index_read", IndexRead)
	vrt.Register("C04_index_write", IndexWrite)
	vrt.Register("C04_members", Members)
	vrt.Register("C04_iterables", Iterables)
	vrt.Register("C04_calls", Calls)
	vrt.Register("C04_typed_parameters", TypedParameters)
	vrt.Register("C04_receiver_forms", ReceiverForms)
	vrt.Register("C04_helper_context_forms", HelperContextForms)
	vrt.Register("C04_results_used_as_values", ResultsUsedAsValues)
	vrt.Register("C04_container_changed_in_loop", ContainerChangedInLoop)
	vrt.Register("C04_print_every_kind", PrintEveryKind)
	vrt.Register("C04_print_promoted_through_nil", PrintPromotedThroughNil)
	vrt.Register("C04_helpers", Helpers)
	vrt.Register("C04_helpers_iter", HelpersIter)
	vrt.Register("C04_user_functions", UserFunctions)
	vrt.Register("C04_token_programs", TokenPrograms)
	vrt.Register("C04_library_helpers", LibraryHelpers)
	vrt.Register("C04_library_helpers_direct", LibraryHelpersDirect)
	vrt.Register("C04_iterator_helpers_direct", IteratorHelpersDirect)
	vrt.Register("C04_builtin_helpers_direct", BuiltinHelpersDirect)
	vrt.Register("C04_nested_render", NestedRender)
}

type S struct {
	Name   string
	N      int
	Kids   []S
	Ptr    *S
	secret int
}

func (s S) Hello() string { return "hello " + s.Name }
func (s *S) PtrHello() string {
	if s == nil {
		return "nil receiver"
	}
	return "ptr " + s.Name
}
func (s S) Add(n int) int         { return s.N + n }
func (s S) Fail() (string, error) { return "", errFail }

type named string

type namedMap map[string]int

type boxed struct {
	Name string
	Tag  interface{}
}

type named2 string

func (n named2) String() string { return string(n) }

type stringerV struct{ s string }

func (s stringerV) String() string { return s.s }

type htmlerV struct{ s string }

func (h htmlerV) HTML() template.HTML { return template.HTML(h.s) }

type innerE struct{ X int }

func (i innerE) Hello() string { return "hi" }

type outerE struct{ *innerE }

type failErr struct{}

func (failErr) Error() string { return "fail" }

var errFail error = failErr{}

type iter struct{ n int }

func (i *iter) Next() interface{} {
	if i.n >= 2 {
		return nil
	}
	i.n++
	return i.n
}

// an Iterator through a value-receiver method: a nil *iterV must not have Next called on it
type iterV struct{ n int }

func (i iterV) Next() interface{} { return nil }

const nKinds = 52

// val: a value of kind k (payloads arbitrary where a payload can matter).
func val(k int) interface{} {
	switch k {
	case 0:
		return vrt.Int() // any int: negative and huge indexes
	case 1:
		return int8(3)
	case 2:
		return vrt.Int64()
	case 3:
		return uint(7)
	case 4:
		return 1.5
	case 5:
		return vrt.Bytes(vrt.IntRange(0, 1)) // "" or one arbitrary byte (map keys that hit or miss)
	case 6:
		return vrt.Bool()
	case 7:
		return nil
	case 8:
		return (*S)(nil)
	case 9:
		return []int{vrt.Int(), 2}
	case 10:
		return []string{"a", "b"}
	case 11:
		return []interface{}{1, "x", nil}
	case 12:
		return [2]int{1, 2}
	case 13:
		xs := []int{1, 2}
		return &xs
	case 14:
		return map[string]int{"a": 1}
	case 15:
		return map[int]string{1: "a"}
	case 16:
		return map[interface{}]interface{}{"a": 1, 2: "b", boxed{Name: "k"}: 3}
	case 17:
		return S{Name: "s", Kids: []S{{Name: "k"}}}
	case 18:
		return &S{Name: "p"}
	case 19:
		return func() string { return "f" }
	case 20:
		return func(n int) int { return n }
	case 21:
		return func(ns ...int) int { return len(ns) }
	case 22:
		return &iter{}
	case 23:
		return template.HTML("<b>")
	case 24:
		return []int(nil)
	case 25:
		return map[string]interface{}(nil)
	case 26:
		return []S{{Name: "e"}}
	case 27: // comparable static type, unhashable content
		return [1]interface{}{[]int{1}}
	case 28:
		return boxed{Name: "b", Tag: []string{"t"}}
	case 29:
		m := map[string]int{"a": 1}
		return &m
	case 30:
		arr := [2]int{1, 2}
		return &arr
	case 31:
		return named("n")
	case 32:
		return namedMap{"a": 1}
	case 33:
		return time.Date(2020, 2, 3, 4, 5, 6, 0, time.UTC) // the one struct type the output sink special-cases
	case 34:
		return (*time.Time)(nil)
	case 35:
		return uint8(200)
	case 36:
		return (func(int) int)(nil) // a nil function value
	case 37:
		return float32(2.5)
	case 38:
		return map[uint8]string{1: "a", 200: "b"}
	case 39:
		p := &S{Name: "pp"}
		return &p // pointer to pointer
	case 40:
		return uint64(1) << 63
	case 41:
		return int16(-3)
	case 42:
		return []fmt.Stringer{named2("s")} // a slice whose element type is an interface with methods
	case 43:
		return (*stringerV)(nil) // nil pointers to types whose String / HTML / Interface methods have value receivers
	case 44:
		return (*htmlerV)(nil)
	case 45:
		return outerE{} // a field promoted through an embedded pointer that is nil
	case 46:
		return (*iterV)(nil)
	case 47:
		return int32(0) // zeros of the narrower numeric kinds: a divisor of the left operand's own type
	case 48:
		return uint8(0)
	case 49:
		return time.Duration(0)
	case 50:
		return float32(0)
	default:
		return int32(7)
	}
}

// total: Render returns output or an error, nothing else. A panic on any
// feasible path is reported by the executor (and replayed natively).
func total(in string, ctx *plush.Context) {
	vrt.Note("input", in)
	out, err := plush.Render(in, ctx)
	if err != nil {
		vrt.Assert(out == "", "an error comes with empty output")
		vrt.Cover("error")
	} else {
		vrt.Cover("ok")
	}
}

var ops = []string{"+", "-", "*", "/", "<", "<=", ">", ">=", "==", "!=", "&&", "||", "~="}

func Operators() {
	l, r := vrt.Choice(nKinds), vrt.Choice(nKinds)
	ctx := plush.NewContext()
	ctx.Set("l", val(l))
	ctx.Set("r", val(r))
	o := vrt.Choice(len(ops) + 2)
	switch {
	case o < len(ops):
		total("<%= l "+ops[o]+" r %>", ctx)
	case o == len(ops):
		total("<%= !l %>", ctx)
	default:
		total("<%= -l %>", ctx)
	}
}

func IndexRead() {
	c, i := vrt.Choice(nKinds), vrt.Choice(nKinds)
	ctx := plush.NewContext()
	ctx.Set("c", val(c))
	ctx.Set("i", val(i))
	switch vrt.Choice(4) {
	case 0:
		total("<%= c[i] %>", ctx)
	case 1:
		total("<%= c[i].Name %>", ctx)
	case 2:
		total("<%= c[i][i] %>", ctx)
	default:
		total("<%= c[nil] %>", ctx)
	}
}

func IndexWrite() {
	c, i := vrt.Choice(nKinds), vrt.Choice(nKinds)
	v := 0
	if vrt.Tier() > 0 {
		v = vrt.Choice(nKinds)
	} else {
		// quick: a representative third of the assigned value kinds
		v = []int{0, 2, 4, 5, 7, 8, 9, 11, 14, 17, 23, 27, 31}[vrt.Choice(13)]
	}
	ctx := plush.NewContext()
	ctx.Set("c", val(c))
	ctx.Set("i", val(i))
	ctx.Set("v", val(v))
	total("<% c[i] = v %><%= c %>", ctx)
}

func Members() {
	r := vrt.Choice(nKinds)
	ctx := plush.NewContext()
	ctx.Set("r", val(r))
	exprs := []string{"r.Name", "r.N", "r.Hello()", "r.PtrHello()", "r.Add(1)", "r.Add(\"x\")", "r.Add()", "r.Missing", "r.Missing()", "r.secret", "r.Kids", "r.Kids[0].Name", "r.Ptr.Name", "r.Ptr.Hello()", "r.Fail()", "r.Name.Foo", "r.Hello().Foo", "r.Next()", "r.Name()", "r.Kids[5].Name"}
	total("<%= "+exprs[vrt.Choice(len(exprs))]+" %>", ctx)
}

func Iterables() {
	x := vrt.Choice(nKinds)
	ctx := plush.NewContext()
	ctx.Set("x", val(x))
	switch vrt.Choice(3) {
	case 0:
		total("<%= for (k, v) in x { %><%= k %>=<%= v %>,<% } %>", ctx)
	case 1:
		total("<%= for (v) in x { %><%= v.Name %>,<% } %>", ctx)
	default:
		total("<%= for (v) in x.Kids { %><%= v %>,<% } %>", ctx)
	}
}

func Calls() {
	f := vrt.Choice(nKinds)
	ctx := plush.NewContext()
	ctx.Set("f", val(f))
	ctx.Set("a", val(vrt.Choice(nKinds)))
	ctx.Set("b", val([]int{0, 5, 7, 9, 14}[vrt.Choice(5)]))
	calls := []string{"f()", "f(a)", "f(a, b)", "f(a, b, a)", "f(nil)", "f(nil, nil)", "f() { %>x<% }", "f(a)(b)", "f(1, 2, 3, 4)"}
	total("<%= "+calls[vrt.Choice(len(calls))]+" %>", ctx)
}

func Helpers() {
	ctx := plush.NewContext()
	ka, kb := vrt.Choice(nKinds), vrt.Choice(nKinds)
	ctx.Set("a", val(ka))
	ctx.Set("b", val(kb))
	hs := []string{
		"len(a)", "len()", "len(a, b)",
		"truncate(a, {size: b})", "truncate(a, {trail: b})", "truncate(a)", "truncate(a, b)",
		"groupBy(a, b)", "groupBy(b, a)",
		"range(a, b)", "between(a, b)", "until(a)",
		"raw(a)", "htmlEscape(a)", "htmlEscape(a) { %>x<% }",
		"contentFor(a) { %>x<% }", "contentOf(a)", "contentOf(a, b)", "contentOf(a) { %>d<% }",
		"partial(a)", "partial(a, b)",
	}
	h := hs[vrt.Choice(len(hs))]
	isInt := func(k int) bool { return k == 0 }
	switch vrt.Choice(2) {
	case 0:
		total("<%= "+h+" %>", ctx)
	default:
		// iterating range(a, b) over two arbitrary ints is C19's business
		if isInt(ka) {
			if h == "until(a)" {
				vrt.Assume(false)
			}
			if isInt(kb) {
				vrt.Assume(false)
			}
		}
		total("<%= for (g) in "+h+" { %><%= g %>;<% } %>", ctx)
	}
}

// the iterating helpers with small ints (an arbitrary int would only make the loop long)
func HelpersIter() {
	ctx := plush.NewContext()
	ctx.Set("a", val(vrt.Choice(nKinds)))
	ctx.Set("m", vrt.IntRange(-1, 2))
	ctx.Set("n", vrt.IntRange(-1, 2))
	hs := []string{"groupBy(n, a)", "range(m, n)", "between(m, n)", "until(n)", "range(n, a)"}
	h := hs[vrt.Choice(len(hs))]
	if h == "range(n, a)" {
		if val0IsInt(ctx) {
			vrt.Assume(false)
		}
	}
	total("<%= for (g) in "+h+" { %><%= g %>;<% } %>", ctx)
}

// groupBy called from Go with sizes at the ends of the int range over every kind of
// value (from a template a panic of the helper is the call's error; here it is a
// panic). The sizes are concrete: a symbolic divisor is beyond the solvers.
func IteratorHelpersDirect() {
	sizes := []int{math.MinInt, -1, 0, 1, 2, 3, 4, 1 << 62, math.MaxInt - 2, math.MaxInt - 1, math.MaxInt}
	n := sizes[vrt.Choice(len(sizes))]
	var u interface{}
	switch vrt.Choice(5) {
	case 0:
		u = []string{"a", "b", "c"}
	case 1:
		u = [3]int{1, 2, 3}
	case 2:
		u = []interface{}{1, "x", nil, 2}
	case 3:
		u = &[]int{1, 2}
	default:
		u = val(vrt.Choice(nKinds))
	}
	it, err := iterators.GroupBy(n, u)
	if err == nil && it != nil {
		for i := 0; i < 6; i++ {
			if it.Next() == nil {
				break
			}
		}
	}
	vrt.Cover("done")
}

// every built-in helper called from Go, as applications and other helpers do, with
// one or two values of every kind in its value parameters (the helper context and
// the options map are supplied as the engine supplies them). From a template the
// surrounding call turns a panic of the helper into an error (a30d203), so the
// template-level matrices no longer show a helper that panics: here nothing
// stands between the helper and the executor.
func BuiltinHelpersDirect() {
	all := plush.Helpers.All()
	names := make([]string, 0, len(all))
	for k := range all {
		names = append(names, k)
	}
	sort.Strings(names)
	name := names[vrt.Choice(len(names))]
	vrt.Note("helper", name)
	fn := reflect.ValueOf(all[name])
	if fn.Kind() != reflect.Func {
		vrt.Cover("done")
		return
	}
	ft := fn.Type()
	hc := plush.HelperContext{Context: plush.NewContext()}
	hct := reflect.TypeOf(hc)
	mt := reflect.TypeOf(map[string]interface{}{})
	vals := []interface{}{val(vrt.Choice(nKinds)), val(vrt.Choice(nKinds))}
	used := 0
	var args []reflect.Value
	n := ft.NumIn()
	if ft.IsVariadic() {
		n--
	}
	for i := 0; i < n; i++ {
		pt := ft.In(i)
		switch {
		case pt == hct || (pt.Kind() == reflect.Interface && hct.Implements(pt) && pt.NumMethod() > 0):
			args = append(args, reflect.ValueOf(hc))
		case pt == mt:
			args = append(args, reflect.ValueOf(map[string]interface{}{}))
		default:
			if used == len(vals) {
				vrt.Assume(false)
			}
			v := vals[used]
			used++
			if v == nil {
				args = append(args, reflect.Zero(pt))
			} else if reflect.TypeOf(v).AssignableTo(pt) {
				args = append(args, reflect.ValueOf(v))
			} else {
				vrt.Assume(false) // the engine refuses this argument before the helper is called
			}
		}
	}
	if used < len(vals) {
		// one path per helper and argument list: the unused value is fixed
		for _, v := range vals[used:] {
			_, isInt := v.(int)
			vrt.Assume(isInt)
		}
	}
	if name == "range" || name == "between" || name == "until" {
		for _, a := range args {
			if a.Kind() == reflect.Int {
				vrt.Assume(a.Int() > -3 && a.Int() < 3) // the length of the sequence is C19's subject
			}
		}
	}
	res := fn.Call(args)
	for _, r := range res {
		if it, ok := r.Interface().(plush.Iterator); ok && it != nil {
			for i := 0; i < 4; i++ {
				if it.Next() == nil {
					break
				}
			}
		}
	}
	vrt.Cover("done")
}

func val0IsInt(ctx *plush.Context) bool {
	_, ok := ctx.Value("a").(int)
	return ok
}

func UserFunctions() {
	ctx := plush.NewContext()
	ctx.Set("a", val(vrt.Choice(nKinds)))
	defs := "<% let f0 = fn() { return 1 } %><% let f1 = fn(x) { return x } %><% let f2 = fn(x, y) { return x } %>"
	calls := []string{"f0()", "f0(a)", "f1()", "f1(a)", "f1(a, a)", "f2(a)", "f2()", "f2(a, a, a)", "f1(a)(a)", "f1.Name", "f1[0]", "f1 + 1", "f1(f1)", "f0() { %>x<% }"}
	total(defs+"<%= "+calls[vrt.Choice(len(calls))]+" %>", ctx)
}

// every sequence of k atoms as the content of an output tag, evaluated against a
// context holding one variable of each interesting kind: program shapes are
// enumerated exhaustively up to length k instead of being hand-picked
var atoms = []string{
	"n", "s", "xs", "m", "st", "p", "f", "g", "nope", "nil", "1", "\"k\"", "true",
	"+", "-", "*", "/", "==", "<", "&&", "!", "~=",
	"(", ")", "[", "]", "{", "}", ",", ":", ".N", ".Hello()", "=",
	"for (v) in", "if", "let", "fn(x)", "return",
}

func TokenPrograms() {
	k := 3 + vrt.Tier()
	ctx := plush.NewContext()
	ctx.Set("n", vrt.Int())
	ctx.Set("s", vrt.Bytes(1))
	ctx.Set("xs", []int{1, 2})
	ctx.Set("m", map[string]interface{}{"k": 1})
	ctx.Set("st", S{Name: "s"})
	ctx.Set("p", (*S)(nil))
	ctx.Set("f", func(n int) int { return n })
	ctx.Set("g", func() string { return "g" })
	src := ""
	for i := 0; i < k; i++ {
		src += atoms[vrt.Choice(len(atoms))] + " "
	}
	silent := false
	if vrt.Tier() > 0 {
		silent = vrt.Bool()
	}
	if silent {
		total("<% "+src+"%><%= n %>", ctx)
	} else {
		total("<%= "+src+"%>", ctx)
	}
}

// the built-in helpers that sit on libraries (flect behind pathFor and the
// inflection helpers, fmt behind debug/inspect): executed from their source like
// plush itself; every value kind plus the shapes pathFor looks for
type withID struct{ ID int }
type withSlug struct{ Slug string }
type withBoth struct {
	ID   int
	Slug string
}
type outerBoth struct{ *withBoth }
type outerID struct{ *withID }
type pathable struct{}

func (pathable) ToPath() string { return "/p" }

type paramable struct{ N int }

func (p paramable) ToParam() string { return "x" }

func LibraryHelpers() {
	ctx := plush.NewContext()
	a := libraryValue()
	ctx.Set("a", a)
	hs := []string{
		"pathFor(a)", "pathFor([a, a])", "pathFor()", "debug(a)", "inspect(a)", "debug()",
		"pluralize(a)", "singularize(a)", "capitalize(a)", "camelize(a)", "underscore(a)", "humanize(a)", "titleize(a)", "ordinalize(a)", "dasherize(a)",
		"env(a)", "envOr(a, a)", "form(a)", "paginator(a)",
	}
	h := hs[vrt.Choice(len(hs))]
	total("<%= "+h+" %>", ctx)
}

// the helper functions themselves (a call from a template turns a panic of the
// callee into the call's error; called from Go, as applications also do, nothing does)
func LibraryHelpersDirect() {
	a := libraryValue()
	switch vrt.Choice(3) {
	case 0:
		paths.PathFor(a)
	case 1:
		paths.PathFor([]interface{}{a, a})
	default:
		debug.Debug(a)
		debug.Inspect(a)
	}
	vrt.Cover("done")
}

func libraryValue() interface{} {
	var a interface{}
	k := vrt.Choice(nKinds + 12)
	switch k - nKinds {
	case 10:
		a = outerBoth{} // ID and Slug promoted through an embedded pointer that is nil
	case 11:
		a = []interface{}{&outerID{}}
	case 0:
		a = withID{ID: vrt.Int()}
	case 1:
		a = &withID{ID: 3}
	case 2:
		a = (*withID)(nil)
	case 3:
		a = withSlug{Slug: vrt.Bytes(1)}
	case 4:
		a = []*withID{nil}
	case 5:
		a = []interface{}{withBoth{ID: 1, Slug: "s"}, "x", nil}
	case 6:
		a = pathable{}
	case 7:
		a = (*pathable)(nil)
	case 8:
		a = paramable{N: 1}
	case 9:
		a = []withID{}
	default:
		a = val(k)
	}
	return a
}

// a Go helper that renders a snippet through its helper context (help.Render), a
// partial, and a block helper evaluating its block in a fresh child context: every
// construct of the language inside them, over every value kind
func NestedRender() {
	ctx := plush.NewContext()
	ctx.Set("a", val(vrt.Choice(nKinds)))
	ctx.Set("xs", []int{1, 2})
	ctx.Set("people", []S{{Name: "p"}, {Name: "q"}})
	ctx.Set("team", func() S { return S{Name: "t"} })
	// a panic of the engine inside a nested render is the engine's panic, although the
	// call that surrounds the helper turns it into an error: the helpers watch for it
	enginePanicked := false
	watch := func() {
		if r := recover(); r != nil {
			enginePanicked = true
			panic(r)
		}
	}
	ctx.Set("rend", func(s string, help plush.HelperContext) (template.HTML, error) {
		defer watch()
		out, err := help.Render(s)
		return template.HTML(out), err
	})
	ctx.Set("inchild", func(help plush.HelperContext) (template.HTML, error) {
		defer watch()
		out, err := help.BlockWith(help.New())
		return template.HTML(out), err
	})
	snippets := []string{
		"<%= a %>",
		"<%= for (v) in xs { %><%= v %><% } %>",
		"<%= for (k, v) in a { %><%= v %><% } %>",
		"<%= people[1].Name %>",
		"<%= team().Name %>",
		"<%= a[0].Name %>",
		"<%= a.Hello() %>",
		"<% let f = fn(x) { return x } %><%= f(a) %>",
		"<% let y = a %><%= if (y) { %>t<% } %>",
		"<%= len(a) %>",
	}
	sn := snippets[vrt.Choice(len(snippets))]
	ctx.Set("sn", sn)
	ctx.Set("partialFeeder", func(string) (string, error) { return sn, nil })
	switch vrt.Choice(3) {
	case 0:
		total("<%= rend(sn) %>", ctx)
	case 1:
		total("<%= partial(\"p\") %>", ctx)
	default:
		total("<%= inchild() { %>"+sn+"<% } %>", ctx)
	}
	vrt.Assert(!enginePanicked, "the engine does not panic inside a nested render either")
}

// ---- Go functions with parameters of less common types (arrays, pointers to
// arrays, sized and unsigned numbers, named types, maps with other key types,
// func values, variadic arrays) called with every value kind: the argument is
// accepted or the call is an error, never a panic - also where Go could convert
// the argument's type but not its value (a slice shorter than the array)
func TypedParameters() {
	ctx := plush.NewContext()
	ctx.Set("arr4", func(a [4]int) int { return a[3] })
	ctx.Set("parr2", func(p *[2]int) int { return p[1] })
	ctx.Set("varr", func(xs ...[2]int) int { return len(xs) })
	ctx.Set("i8", func(n int8) int8 { return n })
	ctx.Set("u16", func(n uint16) uint16 { return n })
	ctx.Set("f32", func(x float32) float32 { return x })
	ctx.Set("nm", func(s named) named { return s })
	ctx.Set("mk", func(m map[int]string) int { return len(m) })
	ctx.Set("fnp", func(f func(int) int) int { return 1 })
	ctx.Set("bs", func(b []byte) int { return len(b) })
	ctx.Set("ss", func(s []string) int { return len(s) })
	ctx.Set("ip", func(p *int) int { return 0 })
	ctx.Set("st", func(s S) string { return s.Name })
	ctx.Set("er", func(e error) string { return "e" })
	fns := []string{"arr4", "parr2", "varr", "i8", "u16", "f32", "nm", "mk", "fnp", "bs", "ss", "ip", "st", "er"}
	f := fns[vrt.Choice(len(fns))]
	ctx.Set("a", val(vrt.Choice(nKinds)))
	ctx.Set("short", []int{1})
	ctx.Set("long", []int{1, 2, 3, 4, 5})
	args := []string{"a", "short", "long", "[]", "[1, 2]", "\"s\"", "a, a"}
	total("<%= "+f+"("+args[vrt.Choice(len(args))]+") %>", ctx)
}

// ---- methods called through values and pointers of one type whose two method
// tables are numbered differently (pointer-receiver methods interleaved), in
// every order, after every earlier render: never a panic
type acct struct{ O string }

func (a *acct) Audit() string { return "a" }
func (a acct) Owner() string  { return a.O }
func (a acct) Token() string  { return "t" }
func (a *acct) Zed() string   { return "z" }

type onlyPtr struct{ N int }

func (o *onlyPtr) Get() int { return o.N }
func (o *onlyPtr) Aaa() int { return 1 }

func ReceiverForms() {
	ctx := plush.NewContext()
	ctx.Set("v", acct{O: "v"})
	ctx.Set("p", &acct{O: "p"})
	ctx.Set("mixed", []interface{}{&acct{O: "1"}, acct{O: "2"}, &onlyPtr{N: 3}, onlyPtr{N: 4}})
	ctx.Set("op", &onlyPtr{N: 5})
	ctx.Set("ov", onlyPtr{N: 6})
	calls := []string{"p.Owner()", "v.Owner()", "p.Token()", "v.Token()", "p.Audit()", "v.Audit()", "p.Zed()", "v.Zed()", "op.Get()", "ov.Get()", "p.Owner", "v.Token", "op.Get"}
	n := 2 + vrt.Tier()
	in := ""
	for i := 0; i < n; i++ {
		in += "<%= " + calls[vrt.Choice(len(calls))] + " %>|"
	}
	if vrt.Choice(2) == 1 {
		in += "<%= for (a) in mixed { %><%= a.Get() %><% } %>"
	}
	total(in, ctx)
}

// ---- Go functions that take the helper context in each of its forms (the
// struct, a pointer to it, the interface), called without it, with nil in its
// place, with a block; the built-in block helpers with nil where the helper
// context goes
func HelperContextForms() {
	ctx := plush.NewContext()
	ctx.Set("hs", func(help plush.HelperContext) string { return "s" })
	ctx.Set("hp", func(help *plush.HelperContext) string {
		if help == nil {
			return "nil"
		}
		return "p"
	})
	ctx.Set("hi", func(help hctx.HelperContext) string {
		if help == nil {
			return "nil"
		}
		return "i"
	})
	ctx.Set("hm", func(m map[string]interface{}, help *plush.HelperContext) string { return "m" })
	ctx.Set("partialFeeder", func(string) (string, error) { return "P", nil })
	calls := []string{
		"hs()", "hp()", "hi()", "hm()", "hs(nil)", "hp(nil)", "hi(nil)", "hm({}, nil)", "hm(nil, nil)", "hm(nil)",
		"hs() { %>b<% }", "hp() { %>b<% }", "hi() { %>b<% }",
		"contentOf(\"a\", {}, nil)", "contentOf(\"a\", nil, nil)", "contentFor(\"a\", nil)", "contentOf(\"a\", {}, nil) { %>d<% }",
		"partial(\"p\", {}, nil)", "partial(\"p\", nil, nil)", "partial(nil)", "htmlEscape(\"x\", nil)", "jsEscape(\"x\", nil)",
	}
	total("<%= "+calls[vrt.Choice(len(calls))]+" %>", ctx)
}

// ---- what an operator or a call yields is an ordinary value: it can be
// indexed, measured, looped over, compared and have members looked up on it
// without anything but an error coming out (array + value, string + value,
// hash literal, user function result, helper result)
func ResultsUsedAsValues() {
	ctx := plush.NewContext()
	ctx.Set("a", val(vrt.Choice(nKinds)))
	ctx.Set("xs", []int{1, 2})
	ctx.Set("ss", []string{"a"})
	makers := []string{"[1] + 2", "xs + 3", "ss + \"b\"", "[1] + a", "xs + a", "ss + a", "\"s\" + a", "{k: a}", "[a, 1]", "a + a"}
	uses := []string{"v[1]", "len(v)", "v.Index(7)", "v.Len()", "v.String()", "v.k", "v[\"k\"]", "v == v", "v + 1", "v.Interface()", "v.Slice(0, 9)", "v.Elem()"}
	in := "<% let v = " + makers[vrt.Choice(len(makers))] + " %><%= " + uses[vrt.Choice(len(uses))] + " %>|<%= for (e) in v { %><%= e %><% } %>"
	total(in, ctx)
}

// ---- the body of a loop changes the container the loop runs over (an entry
// removed by assigning nil, an entry added, an element overwritten, the
// variable rebound): the loop ends or goes on, nothing panics
func ContainerChangedInLoop() {
	ctx := plush.NewContext()
	ctx.Set("m", map[string]interface{}{"a": 1, "b": 2, "c": 3})
	ctx.Set("mi", map[int]string{1: "a", 2: "b"})
	ctx.Set("xs", []interface{}{1, 2, 3})
	ctx.Set("a", val(vrt.Choice(nKinds)))
	loops := []string{"for (k, v) in m", "for (k, v) in mi", "for (k, v) in xs"}
	bodies := []string{"m[\"b\"] = nil", "m[\"c\"] = nil", "m[k] = nil", "m[\"z\"] = 1", "mi[2] = nil", "mi[k] = nil", "xs[0] = nil", "xs[k] = a", "m[\"a\"] = a", "let m = nil", "m = a", "xs = xs + 4", "mi[1] = a"}
	vrt.MapOrderNondet(true)
	in := "<%= " + loops[vrt.Choice(len(loops))] + " { %><% " + bodies[vrt.Choice(len(bodies))] + " %><%= k %>;<% } %>"
	total(in, ctx)
	vrt.MapOrderNondet(false)
}

// ---- every value kind written by an output tag, bare and inside the
// containers the sink recurses into, and its promoted members reached
// a value whose String / HTML method is promoted through an embedded pointer that is
// nil: calling the method (o.String()) is an error since a30d203, PRINTING the value
// calls it from the output sink, which has no error path, and the panic leaves Render.
// A recorded finding (known_findings.json, DESIGN.md 6.2).
type outerStr struct{ *stringerV }
type outerHTML struct{ *htmlerV }

func PrintPromotedThroughNil() {
	ctx := plush.NewContext()
	vals := []interface{}{outerStr{}, &outerStr{}, outerHTML{}, [1]outerStr{}, []interface{}{outerStr{}}}
	ctx.Set("a", vals[vrt.Choice(len(vals))])
	forms := []string{"a", "[a]", "if (true) { %><%= a %><% }"}
	total("<%= "+forms[vrt.Choice(len(forms))]+" %>", ctx)
}

func PrintEveryKind() {
	ctx := plush.NewContext()
	ctx.Set("a", val(vrt.Choice(nKinds)))
	forms := []string{"a", "[a]", "[a, a]", "{k: a}[\"k\"]", "\"s\" + a", "a.X", "a.Hello()", "a.String()", "a.HTML()", "a.Interface()", "if (a) { %>t<% }", "a.innerE"}
	total("<%= "+forms[vrt.Choice(len(forms))]+" %>", ctx)
}
