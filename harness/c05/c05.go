// Package c05: no silent failure - a failing helper or operation fails Render, with empty output.
package c05

import (
	"errors"
	"html/template"

	plush "github.com/gobuffalo/plush/v5"

	"verifharness/c06"
	"verifharness/gen"
	"verifharness/vrt"
)

func init() {
	vrt.Register("C05_positions", Positions)
	vrt.Register("C05_not_reached", NotReached)
	vrt.Register("C05_two_calls", TwoCalls)
	vrt.Register("C05_operations", Operations)
	vrt.Register("C05_unknown_identifier", UnknownIdentifier)
	vrt.Register("C05_nested_unknown", NestedUnknown)
	vrt.Register("C05_two_positions", TwoPositions)
}

var sentinel = errors.New("sentinel failure")

type failer struct {
	ran  int
	fail bool
}

func (f *failer) call() (string, error) {
	f.ran++
	if f.fail {
		return "", sentinel
	}
	return "ok", nil
}

func blk(help plush.HelperContext) (template.HTML, error) {
	s, err := help.Block()
	return template.HTML(s), err
}

func id(v interface{}) interface{} { return v }

func feeder(name string) (string, error) {
	if name == "failing" {
		return "p:<%= fail() %>", nil
	}
	if name == "unk" {
		return "u:<%= nope %>", nil
	}
	if name == "lay" {
		return "<l><%= yield %></l>", nil
	}
	if name == "faillay" {
		return "<l><%= fail() %><%= yield %></l>", nil
	}
	if name == "outer" {
		return "o:<%= partial(\"failing\") %>", nil
	}
	if name == "outerlay" {
		return "o:<%= partial(\"failing\", {layout: \"lay\"}) %>", nil
	}
	return "plain", nil
}

func newCtx(f *failer) *plush.Context {
	ctx := plush.NewContext()
	ctx.Set("fail", f.call)
	ctx.Set("blk", blk)
	ctx.Set("id", id)
	ctx.Set("partialFeeder", feeder)
	ctx.Set("one", 1)
	ctx.Set("xs", []int{1, 2})
	ctx.Set("t", true)
	ctx.Set("f", false)
	return ctx
}

// every position at which a call of fail() can be placed (F marks the call)
var positions = []string{
	"<%= fail() %>",
	"<%= fail() + \"x\" %>", "<%= \"x\" + fail() %>",
	"<%= fail() == \"x\" %>", "<%= \"x\" == fail() %>",
	"<%= fail() != \"x\" %>", "<%= \"x\" != fail() %>",
	"<%= fail() < \"x\" %>", "<%= \"x\" <= fail() %>", "<%= fail() > \"x\" %>", "<%= \"x\" >= fail() %>",
	"<%= fail() ~= \"x\" %>", "<%= \"x\" ~= fail() %>",
	"<%= fail() && true %>", "<%= true && fail() %>",
	"<%= fail() || false %>", "<%= false || fail() %>",
	"<%= 1 - fail() %>", "<%= fail() * 2 %>", "<%= 1 / fail() %>",
	"<%= !fail() %>",
	"<%= if (fail()) { %>a<% } %>",
	"<%= if (false) { %>a<% } else if (fail()) { %>b<% } %>",
	"<%= if (true) { %><%= fail() %><% } %>",
	"<%= if (false) { %>a<% } else { %><%= fail() %><% } %>",
	"<%= for (x) in fail() { %>a<% } %>",
	"<%= for (x) in xs { %><%= fail() %><% } %>",
	"<%= [1, fail()] %>",
	"<%= {k: fail()} %>",
	"<%= xs[fail()] %>",
	"<%= fail()[0] %>",
	"<%= id(fail()) %>",
	"<% let g = fn(v) { return v } %><%= g(fail()) %>",
	"<% let g = fn() { return fail() } %><%= g() %>",
	"<%= blk() { %><%= fail() %><% } %>",
	"<% contentFor(\"c\") { %><%= fail() %><% } %><%= contentOf(\"c\") %>",
	"<%= contentOf(\"nope\") { %><%= fail() %><% } %>",
	"<%= partial(\"failing\") %>",
	"<%= partial(\"failing\", {layout: \"lay\"}) %>",
	"<%= partial(\"plain\", {layout: \"faillay\"}) %>",
	"<%= partial(\"outer\") %>",
	"<%= partial(\"outer\", {layout: \"lay\"}) %>",
	"<%= partial(\"outerlay\") %>",
	"<%= partial(\"failing\", {layout: \"faillay\"}) %>",
	"<% let z = fail() %>",
	"<% one = fail() %>",
	"<% fail() %>",
	"<%= if (true) { %><% fail() %><% } %>",
	"<%= if (true) { fail() } %>",
	"<%= for (x) in xs { %><% fail() %><% } %>",
	"<%= true && (fail() == \"x\") %>",
	"<%= unknown == fail() %>",
	"<%= fail() == unknown %>",
	"<% xs[0] = fail() %>",
	"<%= fail().Foo %>",
	"<%= len(fail()) %>",
	"a<%= \"b\" %>c<%= fail() %>",
	"<%= raw(fail()) %>",
	"<%= htmlEscape(fail()) %>",
	"<%= truncate(fail(), {size: 1}) %>",
}

func Positions() {
	f := &failer{fail: vrt.Bool()}
	ctx := newCtx(f)
	in := positions[vrt.Choice(len(positions))]
	vrt.Note("input", in)
	out, err := plush.Render(in, ctx)
	vrt.Note("got", out)
	vrt.Assert(f.ran > 0, "the position is reached (harness sanity)")
	if f.fail {
		vrt.Assert(err != nil, "a failing helper fails the render")
		vrt.Assert(errors.Is(err, sentinel), "the returned error wraps the helper's error")
		vrt.Assert(out == "", "a failed render returns the empty string")
	} else {
		vrt.Assert(err == nil || !errors.Is(err, sentinel), "no failure is reported when the helper succeeded")
	}
	vrt.Cover("done")
}

// guards decide whether the call is reached; when it is not, nothing fails
func NotReached() {
	f := &failer{fail: true}
	ctx := newCtx(f)
	g := vrt.Bool()
	ctx.Set("g", g)
	var in string
	reached := false
	switch vrt.Choice(6) {
	case 0:
		in, reached = "<%= g && fail() %>", g
	case 1:
		in, reached = "<%= g || fail() %>", !g
	case 2:
		in, reached = "<%= if (g) { %><%= fail() %><% } %>", g
	case 3:
		in, reached = "<%= if (g) { %>a<% } else { %><%= fail() %><% } %>", !g
	case 4:
		in, reached = "<%= for (x) in [] { %><%= fail() %><% } %>|<%= g %>", false
	default:
		in, reached = "<% let h = fn() { return fail() } %><%= if (g) { %><%= h() %><% } %>", g
	}
	vrt.Note("input", in)
	out, err := plush.Render(in, ctx)
	vrt.Note("got", out)
	if reached {
		vrt.Assert(f.ran == 1, "the guarded call runs exactly once when reached")
		vrt.Assert(err != nil, "a failing helper fails the render")
		vrt.Assert(errors.Is(err, sentinel), "the returned error wraps the helper's error")
		vrt.Assert(out == "", "a failed render returns the empty string")
	} else {
		vrt.Assert(f.ran == 0, "a call that is not reached does not run")
		vrt.Assert(err == nil, "nothing fails when the failing call is not reached")
	}
	vrt.Cover("done")
}

// two calls: the first failure wins, the second call may or may not run
func TwoCalls() {
	f1 := &failer{fail: vrt.Bool()}
	f2 := &failer{fail: vrt.Bool()}
	ctx := newCtx(f1)
	ctx.Set("fail2", f2.call)
	tmpls := []string{
		"<%= fail() %>|<%= fail2() %>",
		"<%= fail() + fail2() %>",
		"<%= if (fail() == \"ok\") { %><%= fail2() %><% } %>",
		"<%= for (x) in xs { %><%= fail() %><%= fail2() %><% } %>",
		"<%= [fail(), fail2()] %>",
	}
	in := tmpls[vrt.Choice(len(tmpls))]
	vrt.Note("input", in)
	out, err := plush.Render(in, ctx)
	vrt.Note("got", out)
	failed := false
	if f1.fail {
		if f1.ran > 0 {
			failed = true
		}
	}
	if f2.fail {
		if f2.ran > 0 {
			failed = true
		}
	}
	if failed {
		vrt.Assert(err != nil, "a failing helper fails the render")
		vrt.Assert(errors.Is(err, sentinel), "the returned error wraps the helper's error")
		vrt.Assert(out == "", "a failed render returns the empty string")
	} else {
		vrt.Assert(err == nil, "nothing fails when no invoked helper failed")
	}
	vrt.Cover("done")
}

// failing operations (no helper): the render fails with empty output
func Operations() {
	f := &failer{}
	ctx := newCtx(f)
	n := vrt.Int()
	ctx.Set("n", n)
	ops := []string{
		"a<%= 1 / (n - n) %>", "a<%= xs[n] %>b", "a<%= one + \"x\" %>", "a<%= nope.Field %>", "a<%= one.Field %>",
		"a<%= nope() %>", "a<%= one() %>", "a<%= for (x) in one { %>b<% } %>", "a<%= xs[0] == (1 / (n - n)) %>",
		"a<%= if (xs[n]) { %>b<% } %>", "a<%= !(one + \"x\") %>", "a<% let q = nope %>b", "a<% nope = 1 %>b",
	}
	in := ops[vrt.Choice(len(ops))]
	vrt.Note("input", in)
	out, err := plush.Render(in, ctx)
	vrt.Note("got", out)
	inRange := false
	if n >= 0 {
		if n < 2 {
			inRange = true
		}
	}
	if in == "a<%= xs[n] %>b" || in == "a<%= if (xs[n]) { %>b<% } %>" {
		if inRange {
			vrt.Assert(err == nil, "an index in range renders")
			vrt.Cover("in range")
			return
		}
	}
	vrt.Assert(err != nil, "a failing operation fails the render")
	vrt.Assert(out == "", "a failed render returns the empty string (no partial output)")
	vrt.Cover("done")
}

// the only tolerated fault: an unknown identifier as a condition or operand of ! == != && ||
func UnknownIdentifier() {
	f := &failer{}
	ctx := newCtx(f)
	type tc struct{ in, want string }
	tcs := []tc{
		{"<%= if (nope) { %>a<% } else { %>b<% } %>", "b"},
		{"<%= !nope %>", "true"},
		{"<%= nope == nil %>", "true"},
		{"<%= nope != nil %>", "false"},
		{"<%= nope && true %>", "false"},
		{"<%= nope || true %>", "true"},
		{"<%= if (false) { %>a<% } else if (nope) { %>b<% } else { %>c<% } %>", "c"},
	}
	t := tcs[vrt.Choice(len(tcs))]
	out, err := plush.Render(t.in, ctx)
	vrt.Assert(err == nil, "an unknown identifier as condition / operand of ! == != && || counts as nil")
	vrt.Assert(out == t.want, "unknown identifier behaves as nil")
	// anywhere else it is an error
	bad := []string{"<%= nope %>", "<%= nope + 1 %>", "<%= 1 < nope %>", "<%= id(nope) %>", "<%= [nope] %>"}
	_, err = plush.Render(bad[vrt.Choice(len(bad))], ctx)
	vrt.Assert(err != nil, "an unknown identifier anywhere else is an error")
	vrt.Cover("done")
}

type wrapped struct{}

func (wrapped) call() (string, error) {
	return "", errors.Join(sentinel, &plush.ErrUnknownIdentifier{ID: "inner"})
}

// an unknown identifier deep inside a failing partial / contentOf / helper is not
// "an unknown identifier used as a condition": the failure must surface
func NestedUnknown() {
	f := &failer{}
	ctx := newCtx(f)
	ctx.Set("wrapped", wrapped{}.call)
	// (a bare unknown identifier nested in an operand, such as id(nope) or xs[nope], is
	// a grey area of the statement and is not decided here)
	conds := []string{"partial(\"unk\")", "contentOf(\"c\")", "wrapped()", "blk() { %><%= nope %><% }"}
	c := conds[vrt.Choice(len(conds))]
	pre := "<% contentFor(\"c\") { %><%= nope %><% } %>"
	var in string
	switch vrt.Choice(6) {
	case 0:
		in = pre + "<%= if (" + c + ") { %>a<% } else { %>b<% } %>"
	case 1:
		in = pre + "<%= if (false) { %>a<% } else if (" + c + ") { %>b<% } else { %>c<% } %>"
	case 2:
		in = pre + "<%= !" + c + " %>"
	case 3:
		in = pre + "<%= " + c + " == nil %>"
	case 4:
		in = pre + "<%= " + c + " && true %>"
	default:
		in = pre + "<%= false || " + c + " %>"
	}
	vrt.Note("input", in)
	out, err := plush.Render(in, ctx)
	vrt.Note("got", out)
	vrt.Assert(err != nil, "a failing partial / helper / operation in a condition fails the render")
	vrt.Assert(out == "", "a failed render returns the empty string")
	vrt.Cover("done")
}

func replaceAll(s, old, new string) string {
	out := ""
	for i := 0; i < len(s); {
		if i+len(old) <= len(s) {
			if s[i:i+len(old)] == old {
				out += new
				i += len(old)
				continue
			}
		}
		out += s[i : i+1]
		i++
	}
	return out
}

// two failing calls at any two positions, one after the other in one template
// (quick: the first 8 positions squared; thorough: all 54 x 54)
func TwoPositions() {
	n := 8
	if vrt.Tier() > 0 {
		n = len(positions)
	}
	f1 := &failer{fail: vrt.Bool()}
	f2 := &failer{fail: vrt.Bool()}
	ctx := newCtx(f1)
	ctx.Set("fail2", f2.call)
	a := positions[vrt.Choice(n)]
	b := replaceAll(positions[vrt.Choice(n)], "fail()", "fail2()")
	in := a + "|" + b
	vrt.Note("input", in)
	out, err := plush.Render(in, ctx)
	vrt.Note("got", out)
	failed := false
	if f1.fail {
		if f1.ran > 0 {
			failed = true
		}
	}
	if f2.fail {
		if f2.ran > 0 {
			failed = true
		}
	}
	if f1.fail {
		vrt.Assert(f2.ran == 0, "nothing after a failed tag is evaluated")
	}
	if failed {
		vrt.Assert(err != nil, "a failing helper fails the render")
		vrt.Assert(errors.Is(err, sentinel), "the returned error wraps the helper's error")
		vrt.Assert(out == "", "a failed render returns the empty string")
	} else {
		vrt.Assert(err == nil || !errors.Is(err, sentinel), "no failure is reported when no invoked helper failed")
	}
	vrt.Cover("done")
}

// ---- failing operations in every position the grammar of package gen offers:
// the reference interpreter says which programs must fail (and which faults
// are the tolerated unknown identifier)
func init() {
	vrt.Register("C05_generated_faults", GeneratedFaults)
	vrt.Register("C05_regex_errors", func() { c06.RegexPatterns("a failing operation fails the render (~=)") })
}

func GeneratedFaults() {
	p := gen.Profile{Ifs: true, Ctl: true, Loops: true, Lets: true, Faults: true, Unknown: true, Conds: 0, Vals: 0, Pres: 2, Posts: 2, Leafs: 2, Iters: 2}
	if vrt.Tier() > 0 {
		p.Pres, p.Posts, p.Leafs, p.Iters, p.Assigns, p.Elifs = 0, 0, 0, 4, true, true
	}
	g := &gen.G{P: p}
	prog := []*gen.Stmt{g.Text()}
	prog = append(prog, g.Block(gen.Cx{Inner: "x"}, 1)...)
	prog = append(prog, g.Text())
	gen.Check(prog, gen.NewData(1), "faults from the grammar")
}
