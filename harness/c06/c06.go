// Package c06: operators, precedence and associativity agree with a reference evaluator.
package c06

import (
	"fmt"
	"regexp"
	"strconv"
	"strings"

	plush "github.com/gobuffalo/plush/v5"
	"github.com/gobuffalo/plush/v5/parser"

	"verifharness/ent"
	"verifharness/vrt"
)

func init() {
	vrt.Register("C06_int_ops", IntOps)
	vrt.Register("C06_int64_ops", Int64Ops)
	vrt.Register("C06_string_ops", StringOps)
	vrt.Register("C06_bool_nil_ops", BoolNilOps)
	vrt.Register("C06_float_ops", FloatOps)
	vrt.Register("C06_mismatch", Mismatch)
	vrt.Register("C06_shape", Shape)
	vrt.Register("C06_short_circuit", ShortCircuit)
	vrt.Register("C06_end_to_end", EndToEnd)
	vrt.Register("C06_string_chains", StringChains)
	vrt.Register("C06_string_plus_number", StringPlusNumber)
	vrt.Register("C06_literals", Literals)
	vrt.Register("C06_node_evaluated_again", NodeEvaluatedAgain)
	vrt.Register("C06_float_symbolic", FloatSymbolic)
	vrt.Register("C06_regex_patterns", func() { RegexPatterns("~=") })
	vrt.Register("C06_dot_numbers", DotNumbers)
}

var binops = []string{"+", "-", "*", "/", "<", "<=", ">", ">=", "==", "!=", "&&", "||", "~="}

func render(expr string, ctx *plush.Context) (string, error) {
	in := "<%= " + expr + " %>"
	vrt.Note("input", in)
	out, err := plush.Render(in, ctx)
	vrt.Note("got", out)
	return out, err
}

func b2s(b bool) string {
	if b {
		return "true"
	}
	return "false"
}

// ---- family 1: the meaning of one operator node, operands from the context

// intRef: the documented meaning on ints. ok=false means "is an error".
func intRef(op string, a, b int) (string, bool) {
	switch op {
	case "+":
		return strconv.Itoa(a + b), true
	case "-":
		return strconv.Itoa(a - b), true
	case "*":
		return strconv.Itoa(a * b), true
	case "/":
		if b == 0 {
			return "", false
		}
		return strconv.Itoa(a / b), true
	case "<":
		return b2s(a < b), true
	case "<=":
		return b2s(a <= b), true
	case ">":
		return b2s(a > b), true
	case ">=":
		return b2s(a >= b), true
	case "==":
		return b2s(a == b), true
	case "!=":
		return b2s(a != b), true
	case "&&", "||":
		return "true", true // every int is truthy
	}
	return "", false // ~= on ints is a type mismatch
}

func IntOps() {
	a, b := vrt.Int(), vrt.Int()
	op := binops[vrt.Choice(len(binops))]
	ctx := plush.NewContext()
	ctx.Set("a", a)
	ctx.Set("b", b)
	got, err := render("a "+op+" b", ctx)
	want, ok := intRef(op, a, b)
	if ok {
		vrt.Assert(err == nil, "int operator: defined operation renders")
		vrt.Assert(got == want, "int operator: value equals the documented meaning")
	} else {
		vrt.Assert(err != nil, "int operator: division by zero / type mismatch is an error")
		vrt.Assert(got == "", "an error comes with empty output")
	}
	vrt.Cover("done")
}

func Int64Ops() {
	a, b := vrt.Int64(), vrt.Int64()
	op := binops[vrt.Choice(len(binops))]
	ctx := plush.NewContext()
	ctx.Set("a", a)
	ctx.Set("b", b)
	got, err := render("a "+op+" b", ctx)
	want, ok := intRef(op, int(a), int(b))
	if ok {
		vrt.Assert(err == nil, "int64 operator: defined operation renders")
		vrt.Assert(got == want, "int64 operator: value equals the documented meaning")
	} else {
		vrt.Assert(err != nil, "int64 operator: division by zero / type mismatch is an error")
	}
	vrt.Cover("done")
}

func StringOps() {
	max := 1 + vrt.Tier()
	a := vrt.Bytes(vrt.IntRange(0, max))
	b := vrt.Bytes(vrt.IntRange(0, max))
	ops := []string{"+", "<", "<=", ">", ">=", "==", "!=", "&&", "||", "-", "*", "/"}
	op := ops[vrt.Choice(len(ops))]
	ctx := plush.NewContext()
	ctx.Set("a", a)
	ctx.Set("b", b)
	got, err := render("a "+op+" b", ctx)
	compute := func() (want string, ok bool) {
		ok = true
		switch op {
		case "+":
			want = ent.Esc(a + b)
		case "<":
			want = b2s(a < b)
		case "<=":
			want = b2s(a <= b)
		case ">":
			want = b2s(a > b)
		case ">=":
			want = b2s(a >= b)
		case "==":
			want = b2s(a == b)
		case "!=":
			want = b2s(a != b)
		case "&&":
			want = "false"
			if a != "" {
				if b != "" {
					want = "true"
				}
			}
		case "||":
			want = "true"
			if a == "" {
				if b == "" {
					want = "false"
				}
			}
		default:
			ok = false
		}
		return
	}
	_, ok := compute()
	if ok {
		vrt.Assert(err == nil, "string operator: defined operation renders")
		vrt.Assert(ent.Same(got, func() string { w, _ := compute(); return w }), "string operator: value equals the documented meaning")
	} else {
		vrt.Assert(err != nil, "string operator: arithmetic on strings is an error")
	}
	// string + x concatenates the printed form of x
	if op == "+" {
		n := vrt.Int()
		ctx.Set("n", n)
		got, err = render("a + n", ctx)
		vrt.Assert(err == nil, "string + int renders")
		vrt.Assert(ent.Same(got, func() string { return ent.Esc(a) + strconv.Itoa(n) }), "string + int concatenates the printed form")
		t := vrt.Bool()
		ctx.Set("t", t)
		got, err = render("a + t", ctx)
		vrt.Assert(err == nil, "string + bool renders")
		vrt.Assert(ent.Same(got, func() string { return ent.Esc(a) + b2s(t) }), "string + bool concatenates the printed form")
		got, err = render("a + 1.5", ctx)
		vrt.Assert(err == nil, "string + float renders")
		vrt.Assert(ent.Same(got, func() string { return ent.Esc(a) + "1.5" }), "string + float concatenates the printed form")
	}
	vrt.Cover("done")
}

func BoolNilOps() {
	a, b := vrt.Bool(), vrt.Bool()
	ctx := plush.NewContext()
	ctx.Set("a", a)
	ctx.Set("b", b)
	ops := []string{"&&", "||", "==", "!="}
	op := ops[vrt.Choice(len(ops))]
	got, err := render("a "+op+" b", ctx)
	var want bool
	switch op {
	case "&&":
		want = a && b
	case "||":
		want = a || b
	case "==":
		want = a == b
	default:
		want = a != b
	}
	vrt.Assert(err == nil, "bool operator renders")
	vrt.Assert(got == b2s(want), "bool operator: value equals the documented meaning")
	got, err = render("!a", ctx)
	vrt.Assert(err == nil, "! renders")
	vrt.Assert(got == b2s(!a), "!a negates")
	// nil operands: == and != only
	n := vrt.Int()
	ctx.Set("n", n)
	got, err = render("nil == nil", ctx)
	vrt.Assert(err == nil && got == "true", "nil == nil")
	got, err = render("n == nil", ctx)
	vrt.Assert(err == nil && got == "false", "int == nil is false")
	got, err = render("nil != n", ctx)
	vrt.Assert(err == nil && got == "true", "nil != int is true")
	got, err = render("n + nil", ctx)
	vrt.Assert(err != nil, "arithmetic with nil is an error")
	vrt.Cover("done")
}

var floats = []float64{0, 1.5, -2.25, 3, 1e6, 0.1}

func FloatOps() {
	a := floats[vrt.Choice(len(floats))]
	b := floats[vrt.Choice(len(floats))]
	ops := []string{"+", "-", "*", "/", "<", "<=", ">", ">=", "==", "!="}
	op := ops[vrt.Choice(len(ops))]
	ctx := plush.NewContext()
	ctx.Set("a", a)
	ctx.Set("b", b)
	got, err := render("a "+op+" b", ctx)
	var want string
	ok := true
	switch op {
	case "+":
		want = fmt.Sprint(a + b)
	case "-":
		want = fmt.Sprint(a - b)
	case "*":
		want = fmt.Sprint(a * b)
	case "/":
		if b == 0 {
			ok = false
		} else {
			want = fmt.Sprint(a / b)
		}
	case "<":
		want = b2s(a < b)
	case "<=":
		want = b2s(a <= b)
	case ">":
		want = b2s(a > b)
	case ">=":
		want = b2s(a >= b)
	case "==":
		want = b2s(a == b)
	default:
		want = b2s(a != b)
	}
	if ok {
		vrt.Assert(err == nil, "float operator renders")
		vrt.Assert(ent.Same(got, func() string { return ent.Esc(want) }), "float operator: value equals the documented meaning")
	} else {
		vrt.Assert(err != nil, "float division by zero is an error")
	}
	// literals
	got, err = render("1.5 + 2.25", ctx)
	vrt.Assert(err == nil && got == "3.75", "float literals add")
	vrt.Cover("done")
}

// operand-type mismatches are errors
func Mismatch() {
	n := vrt.Int()
	s := vrt.Bytes(1)
	ctx := plush.NewContext()
	ctx.Set("n", n)
	ctx.Set("s", s)
	ctx.Set("f", 1.5)
	ctx.Set("t", true)
	exprs := []string{"n + s", "n - s", "n * f", "f / n", "n < s", "n + t", "f + s", "n - \"x\"", "1 + \"a\"", "2.5 * 2",
		// a string on the left: only + takes any right operand
		"t == n", "t != s", "t == f", "true == 1", "false != \"a\"", "s == n", "s != n", "s < n", "s >= f", "s ~= n", "\"1\" == 1", "\"true\" == t", "s - n", "s * 2", "s / s", "\"1.5\" == f"}
	e := exprs[vrt.Choice(len(exprs))]
	got, err := render(e, ctx)
	vrt.Assert(err != nil, "operand-type mismatch is an error")
	vrt.Assert(got == "", "an error comes with empty output")
	vrt.Cover("done")
}

// ---- family 2: the shape of the parse tree (precedence, associativity, parentheses)

func prec(op string) int {
	switch op {
	case "&&", "||":
		return 1
	case "==", "!=", "~=":
		return 2
	case "<", "<=", ">", ">=":
		return 3
	case "+", "-":
		return 4
	case "*", "/":
		return 5
	}
	return 0
}

// tok is an operand (with optional ! prefixes and parentheses handled by the caller) or an operator.
type tok struct {
	s  string
	op bool
}

// climb: reference precedence climber, all binary operators left-associative,
// printing the fully parenthesised form used by the AST printer.
type climber struct {
	toks []tok
	pos  int
}

func (c *climber) primary() string {
	t := c.toks[c.pos]
	c.pos++
	if t.s == "!" {
		return "(!" + c.primary() + ")"
	}
	if t.s == "(" {
		e := c.expr(0)
		c.pos++ // ")"
		return e
	}
	return t.s
}

func (c *climber) expr(min int) string {
	left := c.primary()
	for c.pos < len(c.toks) {
		t := c.toks[c.pos]
		if !t.op {
			break
		}
		p := prec(t.s)
		if p <= min {
			break
		}
		c.pos++
		right := c.expr(p)
		left = "(" + left + " " + t.s + " " + right + ")"
	}
	return left
}

func Shape() {
	k := 2 + vrt.Tier() // number of operators
	names := []string{"a", "b", "c", "d"}
	var toks []tok
	open := -1
	if vrt.Bool() {
		open = vrt.Choice(k) // a parenthesis opens before operand `open` and closes after operand open+1
	}
	for i := 0; i <= k; i++ {
		if i == open {
			toks = append(toks, tok{s: "("})
		}
		if vrt.Choice(3) == 0 {
			toks = append(toks, tok{s: "!"})
		}
		toks = append(toks, tok{s: names[i]})
		if i == open+1 && open >= 0 {
			toks = append(toks, tok{s: ")"})
		}
		if i < k {
			toks = append(toks, tok{s: binops[vrt.Choice(len(binops))], op: true})
		}
	}
	src := ""
	for _, t := range toks {
		src += t.s + " "
	}
	ref := &climber{toks: toks}
	want := ref.expr(0)
	in := "<% " + src + "%>"
	vrt.Note("input", in)
	prog, err := parser.Parse(in)
	vrt.Assert(err == nil, "an operator expression parses")
	vrt.Assert(len(prog.Statements) == 1, "one statement")
	got := prog.Statements[0].String()
	vrt.Note("got", got)
	vrt.Assert(got == want, "tree shape equals the reference (precedence ! > */ > +- > < <= > >= > == != ~= > && ||, left-associative)")
	vrt.Cover("done")
}

// ---- family 3: short-circuit and end-to-end evaluation

type recorder struct{ calls int }

func (r *recorder) g() bool {
	r.calls++
	return true
}

func ShortCircuit() {
	a := vrt.Bool()
	r := &recorder{}
	ctx := plush.NewContext()
	ctx.Set("a", a)
	ctx.Set("g", r.g)
	got, err := render("a && g()", ctx)
	vrt.Assert(err == nil, "&& renders")
	vrt.Assert(got == b2s(a), "a && true is a")
	if a {
		vrt.Assert(r.calls == 1, "&&: right side evaluated once when the left is true")
	} else {
		vrt.Assert(r.calls == 0, "&&: right side not evaluated when the left is false")
	}
	r.calls = 0
	got, err = render("a || g()", ctx)
	vrt.Assert(err == nil, "|| renders")
	vrt.Assert(got == "true", "a || true is true")
	if a {
		vrt.Assert(r.calls == 0, "||: right side not evaluated when the left is true")
	} else {
		vrt.Assert(r.calls == 1, "||: right side evaluated once when the left is false")
	}
	vrt.Cover("done")
}

// value of the typed reference evaluator
type rv struct {
	isBool bool
	i      int
	b      bool
	err    bool
}

func refApply(op string, l, r rv) rv {
	if l.err || r.err {
		return rv{err: true}
	}
	if !l.isBool && !r.isBool {
		a, b := l.i, r.i
		switch op {
		case "+":
			return rv{i: a + b}
		case "-":
			return rv{i: a - b}
		case "*":
			return rv{i: a * b}
		case "/":
			if b == 0 {
				return rv{err: true}
			}
			return rv{i: a / b}
		case "<":
			return rv{isBool: true, b: a < b}
		case "<=":
			return rv{isBool: true, b: a <= b}
		case ">":
			return rv{isBool: true, b: a > b}
		case ">=":
			return rv{isBool: true, b: a >= b}
		case "==":
			return rv{isBool: true, b: a == b}
		case "!=":
			return rv{isBool: true, b: a != b}
		}
		return rv{err: true}
	}
	if l.isBool && r.isBool {
		switch op {
		case "&&":
			return rv{isBool: true, b: l.b && r.b}
		case "||":
			return rv{isBool: true, b: l.b || r.b}
		case "==":
			return rv{isBool: true, b: l.b == r.b}
		case "!=":
			return rv{isBool: true, b: l.b != r.b}
		}
	}
	return rv{err: true} // mixed or unsupported: outside the oracle (see caller)
}

var arith = []string{"+", "-", "*", "/"}
var cmp = []string{"<", "<=", ">", ">=", "==", "!="}

// a OP1 b OP2 c end to end with three arbitrary ints; the operator pairs are
// those whose typing is fixed by the statement: arithmetic/arithmetic,
// arithmetic/comparison, comparison/arithmetic, comparison && || comparison.
func EndToEnd() {
	a, b, c := vrt.Int(), vrt.Int(), vrt.Int()
	ctx := plush.NewContext()
	ctx.Set("a", a)
	ctx.Set("b", b)
	ctx.Set("c", c)
	va, vb, vc := rv{i: a}, rv{i: b}, rv{i: c}
	var expr string
	var want rv
	switch vrt.Choice(5) {
	case 0: // (a op1 b) op2 c or a op1 (b op2 c) by precedence
		o1, o2 := arith[vrt.Choice(4)], arith[vrt.Choice(4)]
		expr = "a " + o1 + " b " + o2 + " c"
		if prec(o2) > prec(o1) {
			want = refApply(o1, va, refApply(o2, vb, vc))
		} else {
			want = refApply(o2, refApply(o1, va, vb), vc)
		}
	case 1:
		o1, o2 := arith[vrt.Choice(4)], cmp[vrt.Choice(6)]
		expr = "a " + o1 + " b " + o2 + " c"
		want = refApply(o2, refApply(o1, va, vb), vc)
	case 2:
		o1, o2 := cmp[vrt.Choice(6)], arith[vrt.Choice(4)]
		expr = "a " + o1 + " b " + o2 + " c"
		want = refApply(o1, va, refApply(o2, vb, vc))
	case 3:
		o1, o2 := cmp[vrt.Choice(6)], cmp[vrt.Choice(6)]
		l := []string{"&&", "||"}[vrt.Choice(2)]
		expr = "a " + o1 + " b " + l + " b " + o2 + " c"
		want = refApply(l, refApply(o1, va, vb), refApply(o2, vb, vc))
	default:
		o1, o2 := arith[vrt.Choice(4)], arith[vrt.Choice(4)]
		expr = "a " + o1 + " (b " + o2 + " c)"
		want = refApply(o1, va, refApply(o2, vb, vc))
	}
	got, err := render(expr, ctx)
	if want.err {
		vrt.Assert(err != nil, "end to end: division by zero is an error")
	} else {
		vrt.Assert(err == nil, "end to end: renders")
		if want.isBool {
			vrt.Assert(got == b2s(want.b), "end to end: boolean value equals the reference")
		} else {
			vrt.Assert(got == strconv.Itoa(want.i), "end to end: integer value equals the reference")
		}
	}
	vrt.Cover("done")
}

// left-associative chains whose first operand is a string (the empty string
// included): string + x is a string, so everything after it concatenates / compares as text
func StringChains() {
	s := vrt.Bytes(vrt.IntRange(0, 1))
	n, m := vrt.Int(), vrt.Int()
	t := vrt.Bool()
	ctx := plush.NewContext()
	ctx.Set("s", s)
	ctx.Set("n", n)
	ctx.Set("m", m)
	ctx.Set("t", t)
	var expr string
	k := vrt.Choice(15)
	compute := func() (want string) {
		e := ent.Esc(s)
		switch k {
		case 10: // both operands of one operator are concatenations (two intermediates alive at once)
			expr, want = "(s + n) + (s + m)", e+strconv.Itoa(n)+e+strconv.Itoa(m)
		case 11:
			expr, want = "(\"a\" + n) == (\"a\" + m)", b2s(n == m)
		case 12:
			expr, want = "(s + 1) == (s + 2)", "false"
		case 13:
			expr, want = "(\"a\" + 1) + (\"b\" + 2) + (\"c\" + n)", "a1b2c"+strconv.Itoa(n)
		case 14:
			expr, want = "(s + \"x\") + (s + \"y\")", e+"x"+e+"y"
		case 0:
			expr, want = "s + n + m", e+strconv.Itoa(n)+strconv.Itoa(m)
		case 1:
			expr, want = "\"\" + n + m", strconv.Itoa(n)+strconv.Itoa(m)
		case 2:
			expr, want = "s + t + n", e+b2s(t)+strconv.Itoa(n)
		case 3:
			expr, want = "\"\" + 1.5 + 1.5", "1.51.5"
		case 4:
			expr, want = "\"\" + 7 == \"7\"", "true"
		case 5:
			expr, want = "s + n == s + n", "true"
		case 6: // a non-empty string is truthy: "false" is a non-empty string
			expr, want = "\"\" + false || false", "true"
		case 7:
			expr, want = "!(\"\" + false)", "false"
		case 8:
			expr, want = "s + (n + m)", e+strconv.Itoa(n+m)
		default:
			expr, want = "s + s + n", e+e+strconv.Itoa(n)
		}
		return
	}
	compute()
	got, err := render(expr, ctx)
	vrt.Assert(err == nil, "a chain starting with a string renders: "+expr)
	vrt.Assert(ent.Same(got, compute), "string + x concatenates the printed form of x, left-associatively: "+expr)
	vrt.Cover("done")
}

// string + x concatenates the printed form of x, for every numeric kind and for
// floats whose printed form switches notation (the printed form is what <%= x %> prints)
var numbers = []interface{}{
	0.0, 1.5, -2.25, 3.0, 1e6, 999999.5, 1e20, 1e21, 1e-4, 1e-5, 2.5e-7, 123456789.0, float32(0.1), float32(1e7),
	int8(-7), uint8(200), int64(-1 << 40), uint(7), uint64(1 << 63),
}

func StringPlusNumber() {
	a := vrt.Bytes(vrt.IntRange(0, 1))
	x := numbers[vrt.Choice(len(numbers))]
	ctx := plush.NewContext()
	ctx.Set("a", a)
	ctx.Set("x", x)
	printed, err := render("x", ctx)
	vrt.Assert(err == nil, "a number prints")
	got, err := render("a + x", ctx)
	vrt.Assert(err == nil, "string + number renders")
	vrt.Assert(ent.Same(got, func() string { return ent.Esc(a) + printed }), "string + x concatenates the printed form of x")
	// and comparisons of a string with that printed form are those of the strings
	ctx.Set("p", printed)
	got, err = render("(\"\" + x) == p", ctx)
	vrt.Assert(err == nil, "comparison renders")
	vrt.Assert(got == "true", "\"\" + x equals the printed form of x")
	vrt.Cover("done")
}

// number literals denote their decimal value: leading zeros do not change the base
func Literals() {
	type lit struct {
		text string
		val  int
	}
	lits := []lit{{"0", 0}, {"7", 7}, {"10", 10}, {"010", 10}, {"007", 7}, {"08", 8}, {"09", 9}, {"00", 0}, {"0100", 100}, {"123456789", 123456789}}
	l := lits[vrt.Choice(len(lits))]
	n := vrt.Int()
	ctx := plush.NewContext()
	ctx.Set("n", n)
	forms := []string{"L", "L + n", "n - L", "L == n", "L < n", "\"s\" + L", "[L][0]", "0 - L"}
	f := forms[vrt.Choice(len(forms))]
	got, err := render(subst(f, l.text), ctx)
	vrt.Assert(err == nil, "an expression over a decimal literal renders: "+f+" with "+l.text)
	var want string
	switch f {
	case "L", "[L][0]":
		want = strconv.Itoa(l.val)
	case "L + n":
		want = strconv.Itoa(l.val + n)
	case "n - L":
		want = strconv.Itoa(n - l.val)
	case "L == n":
		want = b2s(l.val == n)
	case "L < n":
		want = b2s(l.val < n)
	case "0 - L":
		want = strconv.Itoa(-l.val)
	default:
		want = "s" + strconv.Itoa(l.val)
	}
	vrt.Assert(got == want, "a decimal literal denotes its decimal value: "+f+" with "+l.text)
	// symbolic digits: every literal of up to three digits
	k := vrt.IntRange(1, 3)
	ds := vrt.Bytes(k)
	v := 0
	for i := 0; i < len(ds); i++ {
		vrt.Assume(ds[i] >= '0')
		vrt.Assume(ds[i] <= '9')
		v = v*10 + int(ds[i]-'0')
	}
	got, err = render(ds+" + n", ctx)
	vrt.Assert(err == nil, "digits + n renders")
	vrt.Assert(got == strconv.Itoa(v+n), "a literal of decimal digits denotes its decimal value")
	// float literals
	type flit struct {
		text string
		val  float64
	}
	flits := []flit{{"1.5", 1.5}, {"0.25", 0.25}, {"010.5", 10.5}, {"2.0", 2}, {"100.125", 100.125}}
	fl := flits[vrt.Choice(len(flits))]
	got, err = render(fl.text+" + 0.5", ctx)
	vrt.Assert(err == nil, "float literal renders")
	vrt.Assert(got == fmt.Sprint(fl.val+0.5), "a float literal denotes its decimal value")
	vrt.Cover("done")
}

func subst(f, l string) string {
	out := ""
	for i := 0; i < len(f); i++ {
		if f[i] == 'L' {
			out += l
		} else {
			out += string(f[i : i+1])
		}
	}
	return out
}

// the value of an operator depends on its operands at that evaluation only: the
// same expression node evaluated again (next loop pass, next call of the function
// it stands in) with other operands gives the other value
func NodeEvaluatedAgain() {
	a, x, y := vrt.Int(), vrt.Int(), vrt.Int()
	ctx := plush.NewContext()
	ctx.Set("a", a)
	ctx.Set("vs", []int{x, y})
	ctx.Set("s", "abc")
	ctx.Set("ps", []string{"^a", "^b", "c$", "^$"})
	ctx.Set("ws", []string{"abc", "b", ""})
	ops := []string{"+", "-", "*", "<", "<=", ">", ">=", "==", "!="}
	var in, want string
	switch vrt.Choice(5) {
	case 0:
		op := ops[vrt.Choice(len(ops))]
		in = "<%= for (v) in vs { %>[<%= a " + op + " v %>]<% } %>"
		r1, _ := intRef(op, a, x)
		r2, _ := intRef(op, a, y)
		want = "[" + r1 + "][" + r2 + "]"
	case 1:
		op := ops[vrt.Choice(len(ops))]
		in = "<% let f = fn(v) { return a " + op + " v } %>[<%= f(vs[0]) %>][<%= f(vs[1]) %>]"
		r1, _ := intRef(op, a, x)
		r2, _ := intRef(op, a, y)
		want = "[" + r1 + "][" + r2 + "]"
	case 2:
		in, want = "<%= for (p) in ps { %>[<%= s ~= p %>]<% } %>", "[true][false][true][false]"
	case 3:
		in, want = "<%= for (w) in ws { %>[<%= w ~= \"^a\" %>]<% } %>", "[true][false][false]"
	default:
		in, want = "<% let m = fn(p) { return s ~= p } %>[<%= m(\"^a\") %>][<%= m(\"z\") %>][<%= m(ps[2]) %>]", "[true][false][true]"
	}
	got, err := plush.Render(in, ctx)
	vrt.Note("input", in)
	vrt.Note("got", got)
	vrt.Assert(err == nil, "the program renders")
	vrt.Assert(got == want, "an operator evaluated again with other operands gives the value for those operands")
	vrt.Cover("done")
}

// ---- every float64 (all bit patterns: NaN, infinities, signed zeros,
// subnormals) as operand: comparisons print Go's verdict; the results of the
// arithmetic operators cannot be printed symbolically, so they are compared
// inside the template with the value Go computes (c); division by a zero of
// either sign is an error
func FloatSymbolic() {
	a, b := vrt.Float64(), vrt.Float64()
	ctx := plush.NewContext()
	ctx.Set("a", a)
	ctx.Set("b", b)
	ops := []string{"<", "<=", ">", ">=", "==", "!=", "+", "-", "*", "/"}
	n := 8 // the multiplier and the divider are left to the thorough tier
	if vrt.Tier() > 0 {
		n = len(ops)
	}
	op := ops[vrt.Choice(n)]
	var want bool
	expr := "a " + op + " b"
	switch op {
	case "<":
		want = a < b
	case "<=":
		want = a <= b
	case ">":
		want = a > b
	case ">=":
		want = a >= b
	case "==":
		want = a == b
	case "!=":
		want = a != b
	default:
		var c float64
		switch op {
		case "+":
			c = a + b
		case "-":
			c = a - b
		case "*":
			c = a * b
		default:
			if b == 0 {
				_, err := render(expr, ctx)
				vrt.Assert(err != nil, "float division by zero is an error")
				vrt.Cover("division by zero")
				return
			}
			c = a / b
		}
		ctx.Set("c", c)
		expr = "(a " + op + " b) == c"
		want = c == c // a NaN result is not equal to itself
	}
	got, err := render(expr, ctx)
	vrt.Assert(err == nil, "float operator renders: "+op)
	vrt.Assert(got == b2s(want), "float operator on arbitrary float64 operands: value equals Go's: "+op)
	vrt.Cover("done")
}

// ---- s ~= p for subjects and patterns from pools that include patterns the
// regexp package rejects for different reasons (unbalanced brackets, bad
// repetition, bytes that are not UTF-8 with and without metacharacters) and
// subjects that are not UTF-8: the value is Go's MatchString, a pattern that
// does not compile is an error. (Also registered under C05: a failing
// operation fails the render.)
var rxSubjects = []string{"abc", "", "a(b", "caf\xe9", "\xff", "a.c", "b"}
var rxPatterns = []string{"b", "^a", "c$", "(", "[a", "a{2,1}", "\xff", "caf\xe9", "a\xffb", "", ".", "a|x", "\\d", "a.c", "*", "b+"}

func RegexPatterns(what string) {
	s := rxSubjects[vrt.Choice(len(rxSubjects))]
	p := rxPatterns[vrt.Choice(len(rxPatterns))]
	ctx := plush.NewContext()
	ctx.Set("s", s)
	ctx.Set("p", p)
	// the operator node may be evaluated once or twice (a pattern cache must not change the verdict)
	expr := "s ~= p"
	twice := vrt.Choice(2) == 1
	in := "<%= " + expr + " %>"
	if twice {
		in = "<%= " + expr + " %>|<%= " + expr + " %>"
	}
	vrt.Note("input", in)
	got, err := plush.Render(in, ctx)
	vrt.Note("got", got)
	rx, cerr := regexp.Compile(p)
	if cerr != nil {
		vrt.Assert(err != nil, what+": a pattern that does not compile is an error")
		vrt.Assert(got == "", what+": a failed render returns no output")
		if err != nil {
			// the executor's regexp errors are plain values (no *syntax.Error to ask
			// errors.As for): what the original error says must be in what Render reports
			vrt.Assert(strings.Contains(err.Error(), cerr.Error()), what+": the error carries the original error")
		}
		vrt.Cover("bad pattern")
		return
	}
	want := b2s(rx.MatchString(s))
	if twice {
		want = want + "|" + want
	}
	vrt.Assert(err == nil, what+": a pattern that compiles renders")
	vrt.Assert(got == want, what+": the value is that of Go's regexp match")
	vrt.Cover("done")
}

// ---- float literals written .5 / 0.5 / 1.0 directly against operators,
// brackets and the end of the tag, with and without blanks: the value is the
// same, a blank is never needed
func DotNumbers() {
	type cs struct{ tight, loose, want string }
	cases := []cs{
		{".5+.5", ".5 + .5", "1"},
		{".5*2.0", ".5 * 2.0", "1"},
		{"1.0+.5*2.0", "1.0 + .5 * 2.0", "2"},
		{"(.5)", "( .5 )", "0.5"},
		{"[.5,.25][1]", "[ .5 , .25 ][1]", "0.25"},
		{".5==.5", ".5 == .5", "true"},
		{".5<.75", ".5 < .75", "true"},
		{"2.0-.5", "2.0 - .5", "1.5"},
		{"1.5/.5", "1.5 / .5", "3"},
		{"{k:.5}[\"k\"]", "{k: .5 }[\"k\"]", "0.5"},
	}
	c := cases[vrt.Choice(len(cases))]
	ctx := plush.NewContext()
	var in string
	switch vrt.Choice(4) {
	case 0:
		in = "<%= " + c.tight + " %>"
	case 1:
		in = "<%=" + c.tight + "%>"
	case 2:
		in = "<%= " + c.loose + " %>"
	default:
		in = "<% let z = " + c.tight + "%><%= z %>"
	}
	vrt.Note("input", in)
	got, err := plush.Render(in, ctx)
	vrt.Note("got", got)
	vrt.Assert(err == nil, "a float literal with a leading dot renders next to any token: "+c.tight)
	vrt.Assert(got == c.want, "the value of an expression does not depend on blanks around its numbers: "+c.tight)
	vrt.Cover("done")
}
