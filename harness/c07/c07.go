// Package c07: if / else if / else renders exactly the first truthy branch;
// truthiness is uniform across if, else-if, !, !!, && and ||.
package c07

import (
	"html/template"
	"strconv"

	plush "github.com/gobuffalo/plush/v5"

	"verifharness/gen"
	"verifharness/vrt"
)

func init() {
	vrt.Register("C07_truthiness", Truthiness)
	vrt.Register("C07_chain", Chain)
	vrt.Register("C07_failed_condition", FailedCondition)
	vrt.Register("C07_falsy_shadows_truthy", FalsyShadowsTruthy)
	vrt.Register("C07_truthiness_routes", TruthinessRoutes)
	vrt.Register("C07_truthiness_rebinding", TruthinessRebinding)
	vrt.Register("C07_truthiness_after_assignment", TruthinessAfterAssignment)
}

type T struct{ N int }

type htmler struct{ s string }

func (h htmler) HTML() template.HTML { return template.HTML(h.s) }

// value: a value of one of the kinds of the pool with an arbitrary payload, and
// its truth value according to the statement.
func value() (v interface{}, truthy bool, set bool) {
	set = true
	switch vrt.Choice(22) {
	case 0:
		return nil, false, true
	case 1:
		b := vrt.Bool()
		return b, b, true
	case 2:
		s := vrt.Bytes(vrt.IntRange(0, 2))
		return s, s != "", true
	case 3:
		s := vrt.Bytes(vrt.IntRange(0, 1))
		return template.HTML(s), s != "", true
	case 4:
		return vrt.Int(), true, true // every int, 0 included
	case 5:
		return 0, true, true
	case 6:
		return 0.0, true, true
	case 7:
		return []int{}, true, true
	case 8:
		return []int(nil), true, true
	case 9:
		return []string{""}, true, true
	case 10:
		return map[string]int{}, true, true
	case 11:
		return (*T)(nil), false, true
	case 12:
		return &T{}, true, true
	case 13:
		return T{}, true, true
	case 14:
		return int8(0), true, true
	case 15:
		return uint(0), true, true
	case 16:
		return [0]int{}, true, true
	case 17:
		return map[string]interface{}(nil), true, true
	case 18:
		return func() bool { return false }, true, true
	case 19:
		return vrt.Int64(), true, true
	case 20:
		var p *int
		return p, false, true
	default:
		return nil, false, false // unknown identifier
	}
}

func b2s(b bool) string {
	if b {
		return "true"
	}
	return "false"
}

// the same value tested in the six syntactic contexts
func Truthiness() {
	v, truthy, set := value()
	ctx := plush.NewContext()
	if set {
		ctx.Set("v", v)
	}
	var in, want string
	switch vrt.Choice(8) {
	case 0:
		in = "<%= if (v) { %>T<% } else { %>F<% } %>"
		want = "F"
		if truthy {
			want = "T"
		}
	case 1:
		in = "<%= if (false) { %>X<% } else if (v) { %>T<% } else { %>F<% } %>"
		want = "F"
		if truthy {
			want = "T"
		}
	case 2:
		in, want = "<%= !v %>", b2s(!truthy)
	case 3:
		in, want = "<%= !!v %>", b2s(truthy)
	case 4:
		in, want = "<%= v && true %>", b2s(truthy)
	case 5:
		in, want = "<%= v || false %>", b2s(truthy)
	case 6:
		in, want = "<%= true && v %>", b2s(truthy)
	default:
		in = "<%= if (!v) { %>F<% } else { %>T<% } %>"
		want = "F"
		if truthy {
			want = "T"
		}
	}
	vrt.Note("input", in)
	got, err := plush.Render(in, ctx)
	vrt.Note("got", got)
	vrt.Assert(err == nil, "testing the truth of any value renders")
	vrt.Assert(got == want, "truth value as stated: nil, false, \"\", empty HTML, nil pointers, unknown identifiers are falsy, everything else truthy - in every context")
	vrt.Cover("done")
}

type recorder struct {
	vals  []bool
	calls []int
}

func (r *recorder) cond(i int) bool {
	r.calls = append(r.calls, i)
	return r.vals[i]
}

func blk(help plush.HelperContext) (template.HTML, error) {
	s, err := help.Block()
	return template.HTML(s), err
}

// chains of n conditions with every truth assignment; conditions record their evaluation
func Chain() {
	maxN := 3 + vrt.Tier()
	n := vrt.IntRange(1, maxN)
	rec := &recorder{}
	// a condition is a recording call c(i) with an arbitrary truth value, or an
	// unknown identifier (falsy, nothing to record)
	unknown := make([]bool, n)
	for i := 0; i < n; i++ {
		if vrt.Choice(3) == 0 {
			unknown[i] = true
			rec.vals = append(rec.vals, false)
		} else {
			rec.vals = append(rec.vals, vrt.Bool())
		}
	}
	cond := func(i int) string {
		if unknown[i] {
			return "nope" + strconv.Itoa(i)
		}
		return "c(" + strconv.Itoa(i) + ")"
	}
	hasElse := vrt.Bool()
	chain := "<%= if (" + cond(0) + ") { %>B0<% }"
	for i := 1; i < n; i++ {
		chain += " else if (" + cond(i) + ") { %>B" + strconv.Itoa(i) + "<% }"
	}
	if hasElse {
		chain += " else { %>E<% }"
	}
	chain += " %>"
	var in string
	switch vrt.Choice(4) {
	case 0:
		in = "[" + chain + "]"
	case 1:
		in = "[<%= for (q) in [1] { %>" + chain + "<% } %>]"
	case 2:
		in = "<% let f = fn() { %>" + chain + "<% } %>[<%= f() %>]"
	default:
		in = "[<%= blk() { %>" + chain + "<% } %>]"
	}
	ctx := plush.NewContext()
	ctx.Set("c", rec.cond)
	ctx.Set("blk", blk)
	vrt.Note("input", in)
	got, err := plush.Render(in, ctx)
	vrt.Note("got", got)
	first := -1
	for i := 0; i < n; i++ {
		if rec.vals[i] {
			first = i
			break
		}
	}
	want := "[]"
	if first >= 0 {
		want = "[B" + strconv.Itoa(first) + "]"
	} else if hasElse {
		want = "[E]"
	}
	vrt.Assert(err == nil, "a chain renders")
	vrt.Assert(got == want, "exactly the block of the first truthy condition is rendered")
	last := n - 1
	if first >= 0 {
		last = first
	}
	var wantCalls []int
	for i := 0; i <= last; i++ {
		if !unknown[i] {
			wantCalls = append(wantCalls, i)
		}
	}
	vrt.Assert(len(rec.calls) == len(wantCalls), "conditions after the first truthy one are not evaluated, all earlier ones are")
	for i := 0; i < len(rec.calls); i++ {
		if i < len(wantCalls) {
			vrt.Assert(rec.calls[i] == wantCalls[i], "conditions are evaluated in order, once each")
		}
	}
	vrt.Cover("done")
}

// a condition whose evaluation fails on an unknown identifier (tolerated, counts as
// falsy) leaves the scope untouched: later conditions still test the caller's values
func FailedCondition() {
	outer := vrt.Bool()
	ctx := plush.NewContext()
	ctx.Set("flag", outer)
	ctx.Set("blk", blk)
	defs := "<% let check = fn(flag) { return missing(flag) } %><% let check2 = fn(q) { let flag = q return missing } %>"
	conds := []string{"check(!flag)", "check2(!flag)", "missing.Field", "check(flag)"}
	c := conds[vrt.Choice(len(conds))]
	want := "C"
	if outer {
		want = "B"
	}
	var in string
	switch vrt.Choice(5) {
	case 0:
		in = "<%= if (" + c + ") { %>A<% } else if (flag) { %>B<% } else { %>C<% } %>"
	case 1:
		in = "<%= if (!" + c + ") { %><%= if (flag) { %>B<% } else { %>C<% } %><% } %>"
	case 2:
		in = "<%= if (" + c + " || flag) { %>B<% } else { %>C<% } %>"
	case 3:
		in = "<%= for (i) in [1] { %><%= if (" + c + ") { %>A<% } else if (flag) { %>B<% } else { %>C<% } %><% } %>"
	default:
		in = "<%= blk() { %><%= if (" + c + ") { %>A<% } %><% } %><%= if (flag) { %>B<% } else { %>C<% } %>"
	}
	in = defs + in
	vrt.Note("input", in)
	got, err := plush.Render(in, ctx)
	vrt.Note("got", got)
	if c != "missing.Field" {
		// the unknown name sits inside a call in the condition: C05 makes that a
		// failure of the render (plush tolerated it until 8857fdf); C07 only asks
		// that, if it renders, the later conditions see the caller's values
		if err != nil {
			vrt.Cover("done")
			return
		}
	}
	vrt.Assert(err == nil, "a tolerated unknown identifier in a condition renders")
	vrt.Assert(got == want, "after a condition that failed on an unknown identifier, later conditions see the caller's values")
	vrt.Cover("done")
}

// "the same truth value wherever it is tested": a falsy value bound in an inner
// scope (parameter, loop variable, partial data, let) is falsy there also when an
// outer scope binds the same name to something truthy
func FalsyShadowsTruthy() {
	outer := vrt.Int() // 0 included: truthy
	ctx := plush.NewContext()
	ctx.Set("v", outer)
	var np *int
	ctx.Set("np", np)
	ctx.Set("items", []interface{}{nil, "", false})
	ctx.Set("partialFeeder", func(string) (string, error) { return "TEST", nil })
	falsies := []string{"nil", "\"\"", "false", "np", "raw(\"\")", "nope"}
	fv := falsies[vrt.Choice(len(falsies))]
	tests := []string{
		"<%= if (v) { %>T<% } else { %>F<% } %>",
		"<%= if (!v) { %>F<% } else { %>T<% } %>",
		"<%= if (v && true) { %>T<% } else { %>F<% } %>",
		"<%= if (v || false) { %>T<% } else { %>F<% } %>",
		"<%= if (false) { %>x<% } else if (v) { %>T<% } else { %>F<% } %>",
	}
	test := tests[vrt.Choice(len(tests))]
	var in, want string
	switch vrt.Choice(5) {
	case 0: // parameter
		vrt.Assume(fv != "nope")
		in, want = "<% let f = fn(v) { %>"+test+"<% } %><%= f("+fv+") %>|"+tests[0], "F|T"
	case 1: // loop variable over falsy elements
		in, want = "<%= for (v) in items { %>"+test+"<% } %>|"+tests[0], "FFF|T"
	case 2: // data of a partial
		vrt.Assume(fv != "nope")
		ctx.Set("partialFeeder", func(string) (string, error) { return test, nil })
		in, want = "<%= partial(\"p\", {v: "+fv+"}) %>|"+tests[0], "F|T"
	case 3: // let in a loop body
		vrt.Assume(fv != "nope")
		in, want = "<%= for (i) in [1] { %><% let v = "+fv+" %>"+test+"<% } %>|"+tests[0], "F|T"
	default: // data of contentOf
		vrt.Assume(fv != "nope")
		in, want = "<% contentFor(\"c\") { %>"+test+"<% } %><%= contentOf(\"c\", {v: "+fv+"}) %>|"+tests[0], "F|T"
	}
	vrt.Note("input", in)
	got, err := plush.Render(in, ctx)
	vrt.Note("got", got)
	vrt.Assert(err == nil, "the program renders")
	vrt.Assert(got == want, "a falsy value bound in an inner scope is falsy there, whatever an outer scope binds to the name")
	vrt.Cover("done")
}

// ---- if / else-if / else chains enumerated from a grammar; the conditions
// include calls of a recording helper, so "evaluates no later condition" is
// checked by comparing the recorded calls with the reference interpreter's
func init() {
	vrt.Register("C07_generated_chains", GeneratedChains)
}

func GeneratedChains() {
	p := gen.Profile{Unknown: true, Hits: true, Conds: 4 + 3*vrt.Tier()}
	g := &gen.G{P: p}
	c := gen.Cx{Inner: "x"}
	arms := 1 + vrt.Choice(3+vrt.Tier())
	s := gen.If(true, g.Cond(c), []*gen.Stmt{g.Text()})
	for i := 1; i < arms; i++ {
		s.Elifs = append(s.Elifs, gen.Elif{Cond: g.Cond(c), Body: []*gen.Stmt{g.Text()}})
	}
	if vrt.Choice(2) == 1 {
		s.HasElse, s.Else = true, []*gen.Stmt{g.Text()}
	}
	prog := []*gen.Stmt{gen.Text("<"), s, gen.Text(">")}
	switch vrt.Choice(4) {
	case 3:
		// a user function whose body fails, called as the first condition; later arms test the parameter's name
		bad := gen.Fn("f", []string{"p"}, []*gen.Stmt{gen.Return(gen.Add(gen.Var("p"), gen.Var("u")))})
		s.Elifs = append([]gen.Elif{{Cond: gen.Var("p"), Body: []*gen.Stmt{g.Text()}}}, s.Elifs...)
		outer := gen.IfElse(true, gen.Call("f", gen.Lit(1)), []*gen.Stmt{g.Text()}, []*gen.Stmt{s})
		prog = []*gen.Stmt{bad, gen.Text("<"), outer, gen.Text(">")}
	case 1:
		// the chain inside a loop body
		prog = []*gen.Stmt{gen.For("", "x", gen.Var("xs"), []*gen.Stmt{s, gen.Text(",")})}
	case 2:
		// the chain nested in the first arm of another one
		outer := gen.IfElse(true, g.Cond(c), []*gen.Stmt{s}, []*gen.Stmt{g.Text()})
		prog = []*gen.Stmt{gen.Text("<"), outer, gen.Text(">")}
	}
	gen.Check(prog, gen.NewData(2).WithHits(8), "if chain from the grammar")
}

// ---- the same truth value whatever route the value takes to the test: typed
// struct fields (through a value and through a pointer), map entries, slice
// elements, method results. A never-allocated slice, map or func held in a
// field is as truthy as the same value bound directly; a nil pointer, nil
// interface, "" and false are falsy on every route.
type Holder struct {
	NilSlice []int
	Empty    []int
	Full     []string
	NilMap   map[string]int
	Map      map[string]int
	NilFn    func() bool
	P        *T
	PP       *T
	S        string
	H        template.HTML
	B        bool
	Any      interface{}
	AnyNS    interface{}
	Z        int
	F        float64
}

func (h Holder) GetNilSlice() []int       { return h.NilSlice }
func (h Holder) GetNilMap() map[string]int { return h.NilMap }
func (h Holder) GetP() *T                  { return h.P }

func probe(expr string, truthy bool) (in, want string) {
	tf := func(b bool) string {
		if b {
			return "T"
		}
		return "F"
	}
	switch vrt.Choice(8) {
	case 0:
		return "<%= if (" + expr + ") { %>T<% } else { %>F<% } %>", tf(truthy)
	case 1:
		return "<%= if (false) { %>X<% } else if (" + expr + ") { %>T<% } else { %>F<% } %>", tf(truthy)
	case 2:
		return "<%= !" + expr + " %>", b2s(!truthy)
	case 3:
		return "<%= !!" + expr + " %>", b2s(truthy)
	case 4:
		return "<%= (" + expr + ") && true %>", b2s(truthy) // parenthesised: x[i].f && y is not in the grammar
	case 5:
		return "<%= (" + expr + ") || false %>", b2s(truthy)
	case 6:
		return "<%= true && (" + expr + ") %>", b2s(truthy)
	}
	return "<%= if (!" + expr + ") { %>F<% } else { %>T<% } %>", tf(truthy)
}

func TruthinessRoutes() {
	s := vrt.Bytes(vrt.IntRange(0, 1))
	b := vrt.Bool()
	h := Holder{Empty: []int{}, Full: []string{""}, Map: map[string]int{}, PP: &T{}, S: s, H: template.HTML(s), B: b, AnyNS: []int(nil), Z: 0, F: 0}
	ctx := plush.NewContext()
	ctx.Set("h", h)
	ctx.Set("hp", &h)
	ctx.Set("m", map[string]interface{}{"ns": []int(nil), "nm": map[string]int(nil), "np": (*T)(nil), "s": s, "nil": nil, "z": 0})
	ctx.Set("xs", []interface{}{[]int(nil), (*T)(nil), s, nil, map[string]int(nil)})
	ctx.Set("hs", []Holder{h})
	type cs struct {
		expr   string
		truthy bool
	}
	cases := []cs{
		{"h.NilSlice", true}, {"h.Empty", true}, {"h.Full", true}, {"h.NilMap", true}, {"h.Map", true}, {"h.NilFn", true},
		{"h.P", false}, {"h.PP", true}, {"h.S", s != ""}, {"h.H", s != ""}, {"h.B", b}, {"h.Any", false}, {"h.AnyNS", true}, {"h.Z", true}, {"h.F", true},
		{"hp.NilSlice", true}, {"hp.NilMap", true}, {"hp.P", false}, {"hp.S", s != ""}, {"hp.NilFn", true},
		{"m[\"ns\"]", true}, {"m[\"nm\"]", true}, {"m[\"np\"]", false}, {"m[\"s\"]", s != ""}, {"m[\"nil\"]", false}, {"m[\"z\"]", true}, {"m[\"absent\"]", false},
		{"xs[0]", true}, {"xs[1]", false}, {"xs[2]", s != ""}, {"xs[3]", false}, {"xs[4]", true},
		{"hs[0].NilSlice", true}, {"hs[0].P", false}, {"hs[0].NilMap", true},
		{"h.GetNilSlice()", true}, {"h.GetNilMap()", true}, {"h.GetP()", false},
	}
	c := cases[vrt.Choice(len(cases))]
	in, want := probe(c.expr, c.truthy)
	vrt.Note("input", in)
	got, err := plush.Render(in, ctx)
	vrt.Note("got", got)
	vrt.Assert(err == nil, "testing the truth of a value reached by a path renders: "+c.expr)
	vrt.Assert(got == want, "the truth value does not depend on the route the value takes to the test: "+c.expr)
	vrt.Cover("done")
}

// ---- one name tested again and again while it is bound to other values: the
// loop variable over 3 elements of 9 kinds (nil and unknown-like first, truthy
// later, and the reverse), a name that a Go helper sets before it renders its
// block, a let that replaces a falsy value - the test reflects the value the
// name has at that moment, in if, ! and && alike
func TruthinessRebinding() {
	x := vrt.Int()
	pool := []interface{}{nil, x, "", "s", false, true, (*T)(nil), []int{}, 0}
	truth := []bool{false, true, false, true, false, true, false, true, true}
	var elems []interface{}
	want := ""
	for i := 0; i < 3; i++ {
		k := vrt.Choice(len(pool))
		elems = append(elems, pool[k])
		if truth[k] {
			want += "T"
		} else {
			want += "F"
		}
	}
	ctx := plush.NewContext()
	ctx.Set("xs", elems)
	ctx.Set("setv", func(i int, help plush.HelperContext) (template.HTML, error) {
		help.Set("v", elems[i])
		s, err := help.Block()
		return template.HTML(s), err
	})
	var in string
	switch vrt.Choice(4) {
	case 0:
		in = "<%= for (v) in xs { %><%= if (v) { %>T<% } else { %>F<% } %><% } %>"
	case 1:
		in = "<%= for (v) in xs { %><%= if (!v) { %>F<% } else { %>T<% } %><% } %>"
	case 2:
		in = "<%= for (v) in xs { %><%= if (v && true) { %>T<% } else { %>F<% } %><% } %>"
	default:
		in = "<%= setv(0) { %><%= if (v) { %>T<% } else { %>F<% } %><% } %><%= setv(1) { %><%= if (v) { %>T<% } else { %>F<% } %><% } %><%= setv(2) { %><%= if (v) { %>T<% } else { %>F<% } %><% } %>"
	}
	vrt.Note("input", in)
	got, err := plush.Render(in, ctx)
	vrt.Note("got", got)
	vrt.Assert(err == nil, "testing a name that is bound to other values in turn renders")
	vrt.Assert(got == want, "a test reflects the value the name is bound to at that moment")
	vrt.Cover("done")
}

// ---- a variable of an enclosing scope is read, assigned and tested again inside a
// function body (a partial, a helper block): whichever scope the assignment
// writes to, the scope that made it tests the new value, by every route
func TruthinessAfterAssignment() {
	x := vrt.Int()
	lits := []string{"nil", "x", "\"\"", "\"s\"", "false", "true", "0", "[]"}
	truth := []bool{false, true, false, true, false, true, true, true}
	a, b := vrt.Choice(len(lits)), vrt.Choice(len(lits))
	ctx := plush.NewContext()
	ctx.Set("x", x)
	ctx.Set("blk", blk)
	routes := []string{
		"if (v) { return \"T\" } else if (!v) { return \"F\" }\n return \"C\"",
		"if (!v) { return \"F\" }\n return \"T\"",
		"if (v && true) { return \"T\" }\n return \"F\"",
		"if (v || false) { return \"T\" }\n return \"F\"",
		"if (false) { return \"C\" } else if (v) { return \"T\" }\n return \"F\"",
	}
	route := routes[vrt.Choice(len(routes))]
	reads := []string{"if (v) { let w = 1 }\n", "let w = v\n", "if (!v) { let w = 1 }\n", ""}
	read := reads[vrt.Choice(len(reads))]
	var in string
	switch vrt.Choice(3) {
	case 0:
		in = "<% let v = " + lits[a] + " %><% let f = fn() { " + read + "v = " + lits[b] + "\n " + route + " } %><%= f() %>"
	case 1: // the function is entered twice: what the first call left behind must not decide the second
		in = "<% let v = " + lits[a] + " %><% let f = fn(n) { " + read + "v = n\n " + route + " } %><% f(" + lits[a] + ") %><%= f(" + lits[b] + ") %>"
	default: // one level further down: a function called from a function
		in = "<% let v = " + lits[a] + " %><% let g = fn() { " + read + "v = " + lits[b] + "\n " + route + " } %><% let f = fn() { " + read + "return g() } %><%= f() %>"
	}
	vrt.Note("input", in)
	got, err := plush.Render(in, ctx)
	vrt.Note("got", got)
	want := "F"
	if truth[b] {
		want = "T"
	}
	if (lits[a] == "nil" || lits[b] == "nil") && err != nil {
		// a name bound to nil counts as not bound in plush (pinned by its suite): assigning to
		// it, or reading it as a value afterwards, may be refused
		vrt.Cover("done")
		return
	}
	vrt.Assert(err == nil, "reading, assigning and testing a variable of an enclosing scope in a function renders")
	vrt.Assert(got == want, "after an assignment the scope that made it tests the new value, by every route")
	vrt.Cover("done")
}
