// Package c08: for loops visit every element once, in order; break/continue
// mean what they say.
package c08

import (
	"html/template"
	"strconv"

	plush "github.com/gobuffalo/plush/v5"

	"verifharness/gen"
	"verifharness/vrt"
)

func init() {
	vrt.Register("C08_bodies", Bodies)
	vrt.Register("C08_iterables", Iterables)
	vrt.Register("C08_maps", Maps)
	vrt.Register("C08_nested", Nested)
	vrt.Register("C08_nil_elements", NilElements)
	vrt.Register("C08_tolerated_faults_in_body", ToleratedFaultsInBody)
}

func maxLen() int { return 2 + 2*vrt.Tier() }

func itoa(n int) string { return strconv.Itoa(n) }

// ---- bodies over a []int with arbitrary elements and an arbitrary threshold t

type body struct {
	src string
	// ref: what one iteration (index i, element v) contributes and whether the loop stops after it
	ref func(i, v, t int) (out string, stop bool)
}

var bodies = []body{
	{"<%= v %>,", func(i, v, t int) (string, bool) { return itoa(v) + ",", false }},
	{"<%= i %>=<%= v %>,", func(i, v, t int) (string, bool) { return itoa(i) + "=" + itoa(v) + ",", false }},
	{"<% if (v == t) { break } %><%= v %>,", func(i, v, t int) (string, bool) {
		if v == t {
			return "", true
		}
		return itoa(v) + ",", false
	}},
	{"<%= v %>;<% if (v == t) { break } %><%= v %>,", func(i, v, t int) (string, bool) {
		if v == t {
			return itoa(v) + ";", true
		}
		return itoa(v) + ";" + itoa(v) + ",", false
	}},
	{"<%= v %>,<% if (v == t) { break } %>", func(i, v, t int) (string, bool) { return itoa(v) + ",", v == t }},
	{"<% if (v == t) { continue } %><%= v %>,", func(i, v, t int) (string, bool) {
		if v == t {
			return "", false
		}
		return itoa(v) + ",", false
	}},
	{"<%= v %>;<% if (v == t) { continue } %><%= v %>,", func(i, v, t int) (string, bool) {
		if v == t {
			return itoa(v) + ";", false
		}
		return itoa(v) + ";" + itoa(v) + ",", false
	}},
	{"<%= v %>,<% if (v == t) { continue } %>", func(i, v, t int) (string, bool) { return itoa(v) + ",", false }},
	{"<%= if (v == t) { break } else { %>e<% } %><%= v %>,", func(i, v, t int) (string, bool) {
		if v == t {
			return "", true
		}
		return "e" + itoa(v) + ",", false
	}},
	{"<%= if (v < t) { %>s<% } else { continue } %><%= v %>,", func(i, v, t int) (string, bool) {
		if v < t {
			return "s" + itoa(v) + ",", false
		}
		return "", false
	}},
	// the key/index keeps counting iterations, whatever ended the earlier ones
	{"<% if (v == t) { continue } %><%= i %>:<%= v %>,", func(i, v, t int) (string, bool) {
		if v == t {
			return "", false
		}
		return itoa(i) + ":" + itoa(v) + ",", false
	}},
	{"<%= i %>;<% if (i == 0) { continue } %><%= i %>:<%= v %>,<% if (v == t) { break } %>", func(i, v, t int) (string, bool) {
		if i == 0 {
			return "0;", false
		}
		return itoa(i) + ";" + itoa(i) + ":" + itoa(v) + ",", v == t
	}},
	// a statement in the same tag after the control statement's block
	{"<% if (v == t) { break } let w = v %><%= w %>,", func(i, v, t int) (string, bool) {
		if v == t {
			return "", true
		}
		return itoa(v) + ",", false
	}},
}

// code-form bodies (the loop is written in one tag)
var codeBodies = []body{
	{"return \"n\" + v", func(i, v, t int) (string, bool) { return "n" + itoa(v), false }},
	{"if (v == t) { continue } return \"n\" + v", func(i, v, t int) (string, bool) {
		if v == t {
			return "", false
		}
		return "n" + itoa(v), false
	}},
	{"if (v == t) { break } return \"n\" + v", func(i, v, t int) (string, bool) {
		if v == t {
			return "", true
		}
		return "n" + itoa(v), false
	}},
}

func unroll(b body, xs []int, t int) string {
	out := ""
	for i, v := range xs {
		o, stop := b.ref(i, v, t)
		out += o
		if stop {
			break
		}
	}
	return out
}

func Bodies() {
	L := vrt.IntRange(0, maxLen())
	xs := make([]int, L)
	for i := range xs {
		xs[i] = vrt.Int()
	}
	t := vrt.Int()
	ctx := plush.NewContext()
	ctx.Set("xs", xs)
	ctx.Set("t", t)
	ctx.Set("same", func(v []int) []int { return v })
	// the iterable written as a variable, as a call in the loop header, or as a user iterator over the same elements
	iter := "xs"
	switch vrt.Choice(3) {
	case 1:
		iter = "same(xs)"
	case 2:
		iter = "it"
		ctx.Set("it", &sliceIter{xs: xs})
	}
	var in, want string
	bi := vrt.Choice(len(bodies) + len(codeBodies))
	if bi < len(bodies) {
		b := bodies[bi]
		in = "[<%= for (i, v) in " + iter + " { %>" + b.src + "<% } %>]"
		want = "[" + unroll(b, xs, t) + "]"
	} else {
		b := codeBodies[bi-len(bodies)]
		in = "[<%= for (i, v) in " + iter + " { " + b.src + " } %>]"
		want = "[" + unroll(b, xs, t) + "]"
	}
	vrt.Note("input", in)
	got, err := plush.Render(in, ctx)
	vrt.Note("got", got)
	vrt.Assert(err == nil, "a loop with break/continue anywhere in its body renders")
	vrt.Assert(got == want, "loop output equals the unrolled body (break ends the loop, continue the iteration, both keep what the iteration produced)")
	vrt.Cover("done")
}

// sliceIter yields the elements of a slice through the Iterator protocol
type sliceIter struct {
	xs []int
	i  int
}

func (s *sliceIter) Next() interface{} {
	if s.i >= len(s.xs) {
		return nil
	}
	s.i++
	return s.xs[s.i-1]
}

// ---- iterable kinds

type counter struct{ n, max int }

func (c *counter) Next() interface{} {
	if c.n >= c.max {
		return nil
	}
	c.n++
	return c.n * 10
}

func Iterables() {
	L := vrt.IntRange(0, maxLen())
	ctx := plush.NewContext()
	want := ""
	wantErr := false
	body := "<%= i %>=<%= v %>,"
	src := "xs"
	switch vrt.Choice(14) {
	case 0: // [3]int
		arr := [3]int{vrt.Int(), vrt.Int(), vrt.Int()}
		ctx.Set("xs", arr)
		for i, v := range arr {
			want += itoa(i) + "=" + itoa(v) + ","
		}
	case 1: // []string over a non-special alphabet (escaping is the identity)
		xs := make([]string, L)
		for i := range xs {
			xs[i] = vrt.BytesIn(1, "abcxyz019 ")
			want += itoa(i) + "=" + xs[i] + ","
		}
		ctx.Set("xs", xs)
	case 2: // []interface{}
		xs := make([]interface{}, L)
		for i := range xs {
			n := vrt.Int()
			xs[i] = n
			want += itoa(i) + "=" + itoa(n) + ","
		}
		ctx.Set("xs", xs)
	case 3: // pointer to slice
		xs := make([]int, L)
		for i := range xs {
			xs[i] = vrt.Int()
			want += itoa(i) + "=" + itoa(xs[i]) + ","
		}
		ctx.Set("xs", &xs)
	case 4: // range(a, b): running count as key
		a := vrt.Int()
		vrt.Assume(a > -9223372036854775808) // a-1 exists: range(a, a-1) is the empty interval
		b := a + L - 1
		vrt.Assume(b >= a-1)
		ctx.Set("a", a)
		ctx.Set("b", b)
		src = "range(a, b)"
		for i := 0; i < L; i++ {
			want += itoa(i) + "=" + itoa(a+i) + ","
		}
	case 5: // between(a, b)
		a := vrt.Int()
		b := a + L + 1
		vrt.Assume(b > a) // no wrap
		ctx.Set("a", a)
		ctx.Set("b", b)
		src = "between(a, b)"
		for i := 0; i < L; i++ {
			want += itoa(i) + "=" + itoa(a+1+i) + ","
		}
	case 6: // until(n)
		ctx.Set("n", L)
		src = "until(n)"
		for i := 0; i < L; i++ {
			want += itoa(i) + "=" + itoa(i) + ","
		}
	case 7: // user iterator
		ctx.Set("xs", &counter{max: L})
		for i := 0; i < L; i++ {
			want += itoa(i) + "=" + itoa((i+1)*10) + ","
		}
	case 8: // nil literal renders nothing
		src = "nil"
	case 9: // typed nil slice
		ctx.Set("xs", []int(nil))
	case 10: // typed nil map
		ctx.Set("xs", map[string]int(nil))
	case 11: // an int is not iterable
		ctx.Set("xs", vrt.Int())
		wantErr = true
	case 12: // a string is not iterable
		ctx.Set("xs", "abc")
		wantErr = true
	default: // array literal
		src = "[7, 8]"
		want = "0=7,1=8,"
	}
	in := "[<%= for (i, v) in " + src + " { %>" + body + "<% } %>]"
	vrt.Note("input", in)
	got, err := plush.Render(in, ctx)
	vrt.Note("got", got)
	if wantErr {
		vrt.Assert(err != nil, "a non-iterable value is an error")
		vrt.Cover("error")
		return
	}
	vrt.Assert(err == nil, "an iterable value renders")
	vrt.Assert(got == "["+want+"]", "body once per element, in order, with the 0-based index / running count as key")
	vrt.Cover("done")
}

// ---- maps: once per entry with key and value bound; any visiting order
func Maps() {
	k1, k2 := vrt.BytesIn(1, "abcdefgh"), vrt.BytesIn(1, "abcdefgh")
	v1, v2 := vrt.Int(), vrt.Int()
	m := map[string]int{k1: v1}
	n := vrt.IntRange(0, 2)
	if n == 0 {
		m = map[string]int{}
	}
	if n == 2 {
		vrt.Assume(k1 != k2)
		m[k2] = v2
	}
	ctx := plush.NewContext()
	ctx.Set("m", m)
	in := "[<%= for (k, v) in m { %><%= k %>=<%= v %>,<% } %>]"
	vrt.MapOrderNondet(true)
	got, err := plush.Render(in, ctx)
	vrt.MapOrderNondet(false)
	vrt.Note("got", got)
	vrt.Assert(err == nil, "a map renders")
	e1 := k1 + "=" + itoa(v1) + ","
	e2 := k2 + "=" + itoa(v2) + ","
	switch n {
	case 0:
		vrt.Assert(got == "[]", "empty map renders nothing")
	case 1:
		vrt.Assert(got == "["+e1+"]", "one entry, key and value bound")
	default:
		ok := got == "["+e1+e2+"]"
		if !ok {
			ok = got == "["+e2+e1+"]"
		}
		vrt.Assert(ok, "every entry exactly once, in some order")
	}
	vrt.Cover("done")
}

// ---- nesting: control statements before / after / inside inner loops
func Nested() {
	L := vrt.IntRange(0, maxLen())
	xs := make([]int, L)
	for i := range xs {
		xs[i] = vrt.Int()
	}
	ys := []int{vrt.Int(), vrt.Int()}
	t := vrt.Int()
	ctx := plush.NewContext()
	ctx.Set("xs", xs)
	ctx.Set("ys", ys)
	ctx.Set("t", t)
	inner := "<%= for (y) in ys { %><%= y %>.<% } %>"
	innerOut := itoa(ys[0]) + "." + itoa(ys[1]) + "."
	var src string
	var ref func(v int) (string, bool)
	switch vrt.Choice(6) {
	case 0: // inner loop before the control statement
		src = inner + "<% if (v == t) { break } %><%= v %>,"
		ref = func(v int) (string, bool) {
			if v == t {
				return innerOut, true
			}
			return innerOut + itoa(v) + ",", false
		}
	case 1:
		src = inner + "<% if (v == t) { continue } %><%= v %>,"
		ref = func(v int) (string, bool) {
			if v == t {
				return innerOut, false
			}
			return innerOut + itoa(v) + ",", false
		}
	case 2: // inner loop after the control statement
		src = "<% if (v == t) { break } %>" + inner + "<%= v %>,"
		ref = func(v int) (string, bool) {
			if v == t {
				return "", true
			}
			return innerOut + itoa(v) + ",", false
		}
	case 3: // control statement in the inner loop only: ends the inner loop only
		src = "<%= for (y) in ys { %><% if (y == t) { break } %><%= y %>.<% } %><%= v %>,"
		ref = func(v int) (string, bool) {
			o := ""
			for _, y := range ys {
				if y == t {
					break
				}
				o += itoa(y) + "."
			}
			return o + itoa(v) + ",", false
		}
	case 4:
		src = "<%= for (y) in ys { %><% if (y == t) { continue } %><%= y %>.<% } %><%= v %>,"
		ref = func(v int) (string, bool) {
			o := ""
			for _, y := range ys {
				if y == t {
					continue
				}
				o += itoa(y) + "."
			}
			return o + itoa(v) + ",", false
		}
	default: // break inside an if inside an if
		src = "<% if (v <= t) { if (v == t) { break } } %><%= v %>,"
		ref = func(v int) (string, bool) {
			if v == t {
				return "", true
			}
			return itoa(v) + ",", false
		}
	}
	in := "[<%= for (v) in xs { %>" + src + "<% } %>]"
	want := ""
	for _, v := range xs {
		o, stop := ref(v)
		want += o
		if stop {
			break
		}
	}
	vrt.Note("input", in)
	got, err := plush.Render(in, ctx)
	vrt.Note("got", got)
	vrt.Assert(err == nil, "break/continue are accepted anywhere inside a loop body, however nested")
	vrt.Assert(got == "["+want+"]", "nested loops: output equals the unrolled body")
	vrt.Cover("done")
}

// nil elements / nil map values are bound as nil, also when an outer variable
// (a context value, a let, or an enclosing loop's variable) has the same name
func NilElements() {
	x, outer := vrt.Int(), vrt.Int()
	ctx := plush.NewContext()
	ctx.Set("v", outer)
	ctx.Set("k", outer)
	ctx.Set("xs", []interface{}{x, nil, "s"})
	ctx.Set("m", map[string]interface{}{"a": nil})
	ctx.Set("ps", []*int{nil, &x})
	var in, want string
	switch vrt.Choice(5) {
	case 0:
		in = "[<%= for (v) in xs { %>(<%= if (v) { %><%= v %><% } else { %>nil<% } %>)<% } %>]<%= v %>"
		want = "[(" + itoa(x) + ")(nil)(s)]" + itoa(outer)
	case 1:
		in = "[<%= for (k, v) in m { %>(<%= k %>:<%= if (v) { %>set<% } else { %>nil<% } %>)<% } %>]<%= v %>"
		want = "[(a:nil)]" + itoa(outer)
	case 2: // nested loops that use the same variable name
		in = "[<%= for (v) in [1, 2] { %><%= for (v) in xs { %>(<%= if (v) { %>set<% } else { %>nil<% } %>)<% } %>;<% } %>]"
		want = "[(set)(nil)(set);(set)(nil)(set);]"
	case 3:
		in = "<% let v = 5 %>[<%= for (v) in [nil, 7] { %>(<%= if (v) { %><%= v %><% } else { %>nil<% } %>)<% } %>]<%= v %>"
		want = "[(nil)(7)]5"
	default:
		in = "[<%= for (i, v) in ps { %>(<%= i %>:<%= if (v) { %>set<% } else { %>nil<% } %>)<% } %>]"
		want = "[(0:nil)(1:set)]"
	}
	vrt.Note("input", in)
	got, err := plush.Render(in, ctx)
	vrt.Note("got", got)
	vrt.Assert(err == nil, "a loop over nil elements renders")
	vrt.Assert(got == want, "the loop variables are bound to each element in turn, nil elements included")
	vrt.Cover("done")
}

type person struct{ Nick string }

// a condition in the body that fails on a nil entry / unknown identifier (tolerated,
// falsy) does not disturb the loop: later iterations still see their own key and value
func ToleratedFaultsInBody() {
	L := vrt.IntRange(1, 3)
	xs := make([]int, L)
	for i := range xs {
		xs[i] = vrt.Int()
	}
	ctx := plush.NewContext()
	ctx.Set("xs", xs)
	ctx.Set("extra", []interface{}{person{"a"}, nil, person{"c"}})
	ctx.Set("em", map[string]interface{}{"k": nil})
	conds := []string{"extra[i].Nick", "extra[1].Nick", "em[\"k\"].Nick", "nope.Nick", "nope"}
	c := conds[vrt.Choice(len(conds))]
	in := "[<%= for (i, v) in xs { %><%= if (" + c + ") { %>y<% } else { %>n<% } %><%= i %>=<%= v %>,<% } %>]"
	want := "["
	for i, v := range xs {
		yn := "n"
		if c == "extra[i].Nick" {
			if i != 1 {
				yn = "y"
			}
		}
		want += yn + itoa(i) + "=" + itoa(v) + ","
	}
	want += "]"
	vrt.Note("input", in)
	got, err := plush.Render(in, ctx)
	vrt.Note("got", got)
	if err != nil && c != "nope" && c != "nope.Nick" {
		// a member of a nil element / entry: C11 allows an error as well as nothing
		// (plush yields nil); only the unknown identifier is a fault that must be tolerated
		vrt.Cover("done")
		return
	}
	vrt.Assert(err == nil, "a loop whose body contains a tolerated faulty condition renders")
	vrt.Assert(got == want, "every iteration sees its own key and value after a tolerated fault in an earlier iteration")
	vrt.Cover("done")
}

// ---- loop bodies enumerated from a grammar, checked against the reference
// interpreter of package gen (pre · construct · post inside the loop body)
func init() {
	vrt.Register("C08_generated_bodies", GeneratedBodies)
	vrt.Register("C08_element_kinds", ElementKinds)
	vrt.Register("C08_iterable_expressions", IterableExpressions)
	vrt.Register("C08_exit_inside_helper_block", ExitInsideHelperBlock)
}

func GeneratedBodies() {
	p := gen.Profile{Ifs: true, Ctl: true, Bare: true, Lets: true, Unknown: true, Conds: 2, Vals: 2, Pres: 2, Posts: 3, Leafs: 3, Iters: 7}
	if vrt.Tier() > 0 {
		p = gen.Profile{Ifs: true, Elifs: true, Ctl: true, Bare: true, Lets: true, Unknown: true, Conds: 6, Vals: 2, Iters: 7}
	}
	g := &gen.G{P: p}
	key := ""
	if vrt.Choice(2) == 1 {
		key = "i"
	}
	it := g.Iterable(7)
	body := g.Block(gen.Cx{Loop: true, Inner: "e", Key: key}, 0)
	prog := []*gen.Stmt{gen.Text("<"), gen.For(key, "e", it, body), gen.Text(">")}
	gen.Check(prog, gen.NewData(maxLen()), "loop body from the grammar")
}

// ---- elements of every kind, also nil ones of a nil-able kind (a nil slice, a
// nil map, a nil pointer, a nil func inside an interface): only the untyped nil
// ends an iterator; slices, arrays and maps visit every element whatever it is
type anyIter struct {
	xs  []interface{}
	pos int
}

func (a *anyIter) Next() interface{} {
	if a.pos >= len(a.xs) {
		return nil
	}
	a.pos++
	return a.xs[a.pos-1]
}

func ElementKinds() {
	x := vrt.Int()
	pool := []interface{}{x, "s", []string(nil), map[string]int(nil), (*person)(nil), (func())(nil), []int{}, 0, false, "", &person{Nick: "n"}, 1.5}
	// what an element prints as in  (<%= i %>:<%= if (v) { %>t<% } else { %>f<% } %>)
	truthy := []bool{true, true, true, true, false, true, true, true, false, false, true, true}
	n := 2 + vrt.Choice(2)
	var elems []interface{}
	want := ""
	for i := 0; i < n; i++ {
		k := vrt.Choice(len(pool))
		elems = append(elems, pool[k])
		want += "(" + itoa(i) + ":"
		if truthy[k] {
			want += "t)"
		} else {
			want += "f)"
		}
	}
	ctx := plush.NewContext()
	switch vrt.Choice(3) {
	case 0:
		ctx.Set("it", &anyIter{xs: elems})
	case 1:
		ctx.Set("it", elems)
	default:
		var arr [3]interface{}
		copy(arr[:], elems)
		if n == 3 {
			ctx.Set("it", arr)
		} else {
			ctx.Set("it", elems)
		}
	}
	in := "[<%= for (i, v) in it { %>(<%= i %>:<%= if (v) { %>t<% } else { %>f<% } %>)<% } %>]"
	vrt.Note("input", in)
	got, err := plush.Render(in, ctx)
	vrt.Note("got", got)
	vrt.Assert(err == nil, "a loop over elements of any kind renders")
	vrt.Assert(got == "["+want+"]", "every element is visited once, in order, whatever its kind (only the untyped nil ends an iterator)")
	vrt.Cover("done")
}

// ---- the iterable is an expression: whatever form it has, the { after it opens
// the loop's body (a call the iterable ends in does not take it as its block)
type boxI struct{ xs []int }

func (b boxI) Self() boxI        { return b }
func (b boxI) Items(n int) []int { return b.xs[:n] }

func IterableExpressions() {
	a, b := vrt.Int(), vrt.Int()
	ctx := plush.NewContext()
	o := boxI{xs: []int{a, b, 9}}
	ctx.Set("o", o)
	ctx.Set("objs", []boxI{o})
	ctx.Set("m", map[string]boxI{"k": o})
	ctx.Set("xs", []int{a})
	ctx.Set("one", func() int { return b })
	ctx.Set("pick", func(n int) []int { return o.xs[:n] })
	its := []string{
		"o.Items(2)", "o.Self().Items(2)", "objs[0].Items(2)", "m[\"k\"].Self().Items(2)", "xs + one()",
		"pick(2)", "pick(len(xs) + 1)", "o.Self().Self().Items(2)", "objs[0].Self().Items(2)", "(pick(2))", "[a0, one()]",
	}
	ctx.Set("a0", a)
	it := its[vrt.Choice(len(its))]
	var in string
	if vrt.Choice(2) == 0 {
		in = "[<%= for (v) in " + it + " { %>(<%= v %>)<% } %>]"
	} else {
		in = "[<%= for (i, v) in " + it + " { %>(<%= v %>)<% } %>]"
	}
	vrt.Note("input", in)
	got, err := plush.Render(in, ctx)
	vrt.Assert(err == nil, "a loop over an iterable written as any expression renders: "+it)
	vrt.Assert(got == "[("+itoa(a)+")("+itoa(b)+")]", "the body is rendered once per element of the value of the iterable expression: "+it)
	vrt.Cover("done")
}

// ---- break / continue "are accepted anywhere inside a loop body, however nested":
// here inside the block of a helper that is called in the loop body. plush accepts
// them and the block ends there (the helper receives what the block rendered so
// far), but the exit does not travel through the Go helper: the iteration goes on
// after the helper call. A recorded finding (known_findings.json, DESIGN.md 6.2):
// the first assertion bounds what is tolerated to exactly that behaviour, the
// second states the property.
func wrapBlk(help plush.HelperContext) (template.HTML, error) {
	s, err := help.Block()
	return template.HTML(s), err
}

func ExitInsideHelperBlock() {
	x := vrt.Int()
	ctx := plush.NewContext()
	ctx.Set("x", x)
	ctx.Set("wrap", wrapBlk)
	X := itoa(x)
	exits := []string{"break", "continue"}
	e := vrt.Choice(2)
	var in, want, plushNow string
	switch vrt.Choice(3) {
	case 0:
		in = "<%= for (v) in [1, 2] { %><%= wrap() { %>A<%= x %><% " + exits[e] + " %>B<% } %>C<% } %>"
		want = []string{"A" + X, "A" + X + "A" + X}[e]
		plushNow = "A" + X + "CA" + X + "C"
	case 1:
		in = "<%= for (v) in [1, 2] { %><%= wrap() { %><%= if (v == 1) { %>A<% " + exits[e] + " %><% } %>B<% } %>C<% } %>"
		want = []string{"A", "ABC"}[e]
		plushNow = "ACBC"
	default: // control: outside a helper block the same exits work
		in = "<%= for (v) in [1, 2] { %>A<%= x %><% " + exits[e] + " %>B<% } %>"
		want = []string{"A" + X, "A" + X + "A" + X}[e]
		plushNow = want
	}
	vrt.Note("input", in)
	got, err := plush.Render(in, ctx)
	vrt.Note("got", got)
	vrt.Assert(err == nil, "break / continue inside the block of a helper in a loop body are accepted")
	vrt.Assert(got == want || got == plushNow, "an exit inside a helper's block ends the iteration / the loop, or (plush) only the block; nothing else")
	vrt.Assert(got == want, "break / continue inside the block of a helper called in a loop body end the loop / the iteration")
	vrt.Cover("done")
}
