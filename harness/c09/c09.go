// Package c09: names bound inside for / function / partial / contentOf / block
// helper scopes never leak or clobber.
package c09

import (
	"html/template"
	"strconv"

	plush "github.com/gobuffalo/plush/v5"

	"verifharness/gen"
	"verifharness/vrt"
)

func init() {
	vrt.Register("C09_nestings", Nestings)
	vrt.Register("C09_top_level_let", TopLevelLet)
	vrt.Register("C09_use_in_other_scope", UseInOtherScope)
	vrt.Register("C09_repeated_use", RepeatedUse)
	vrt.Register("C09_construct_ended_by_fault", EndedByFault)
	vrt.Register("C09_data_value_reused", DataValueReused)
}

func itoa(n int) string { return strconv.Itoa(n) }

// own: a block helper that renders its block in a fresh child context
func own(help plush.HelperContext) (template.HTML, error) {
	s, err := help.BlockWith(help.New())
	return template.HTML(s), err
}

// gen builds the template for level k (1-based) and what it must render to.
// Environment-chain reference: inside construct k the visible `a` is first the
// enclosing one, after `let a = Ak` it is Ak; b_k is set inside only; after the
// construct the enclosing `a` is back and b_k (and the construct's own name) are unset.
type world struct {
	A, B, P  []int // A[k], B[k], P[k]: values bound at level k
	partials map[string]string
	depth    int
	choice   []int
}

func probeUnset(name string) string {
	return "<%= if (" + name + ") { %>S<% } else { %>U<% } %>"
}

// level returns (template text, expected output) of construct k placed where `a` is A[k-1].
func (w *world) level(k int) (string, string) {
	if k > w.depth {
		return "", ""
	}
	ks := itoa(k)
	innerT, innerE := w.level(k + 1)
	own := ""  // template that prints the construct's own bound name
	ownE := "" // and its expected value
	ownName := ""
	switch w.choice[k] {
	case 0:
		own, ownE, ownName = "<%= v"+ks+" %>", "7", "v"+ks
	case 1:
		own, ownE, ownName = "<%= p"+ks+" %>", itoa(w.P[k]), "p"+ks
	case 2, 3:
		own, ownE, ownName = "<%= q"+ks+" %>", itoa(w.P[k]), "q"+ks
	}
	body := "(" + own + ";<%= a %>;<% let a = A" + ks + " %><% let b" + ks + " = B" + ks + " %><%= a %>,<%= b" + ks + " %>;" +
		innerT + ";<%= a %>" + ")"
	bodyE := "(" + ownE + ";" + itoa(w.A[k-1]) + ";" + itoa(w.A[k]) + "," + itoa(w.B[k]) + ";" + innerE + ";" + itoa(w.A[k]) + ")"
	var t string
	switch w.choice[k] {
	case 0:
		t = "<%= for (v" + ks + ") in one { %>" + body + "<% } %>"
	case 1:
		t = "<% let f" + ks + " = fn(p" + ks + ") { %>" + body + "<% } %><%= f" + ks + "(P" + ks + ") %>"
	case 2:
		w.partials["part"+ks] = body
		t = "<%= partial(\"part" + ks + "\", {q" + ks + ": P" + ks + "}) %>"
	case 3:
		t = "<% contentFor(\"c" + ks + "\") { %>" + body + "<% } %><%= contentOf(\"c" + ks + "\", {q" + ks + ": P" + ks + "}) %>"
	default:
		t = "<%= own() { %>" + body + "<% } %>"
	}
	// after the construct: enclosing a is back; b_k and the construct's own name are gone
	after := "|<%= a %>" + probeUnset("b"+ks)
	afterE := "|" + itoa(w.A[k-1]) + "U"
	if ownName != "" {
		after += probeUnset(ownName)
		afterE += "U"
	}
	return t + after, bodyE + afterE
}

func Nestings() {
	d := vrt.IntRange(1, 2+vrt.Tier())
	w := &world{depth: d, partials: map[string]string{}}
	ctx := plush.NewContext()
	for k := 0; k <= d; k++ {
		w.A = append(w.A, vrt.Int())
		w.B = append(w.B, vrt.Int())
		w.P = append(w.P, vrt.Int())
		w.choice = append(w.choice, vrt.Choice(5))
		ctx.Set("A"+itoa(k), w.A[k])
		ctx.Set("B"+itoa(k), w.B[k])
		ctx.Set("P"+itoa(k), w.P[k])
	}
	ctx.Set("one", []int{7})
	ctx.Set("own", own)
	ctx.Set("partialFeeder", func(name string) (string, error) { return w.partials[name], nil })
	t, e := w.level(1)
	in := "<% let a = A0 %>" + t + "#<%= a %>"
	want := e + "#" + itoa(w.A[0])
	vrt.Note("input", in)
	got, err := plush.Render(in, ctx)
	vrt.Note("got", got)
	vrt.Assert(err == nil, "nested scopes render")
	vrt.Assert(got == want, "inner names are invisible after their construct and same-named outer variables are unchanged; outer variables are readable inside")
	vrt.Cover("done")
}

// top-level let persists for the following tags of the same render, and is
// visible inside later constructs
func TopLevelLet() {
	x, y := vrt.Int(), vrt.Int()
	ctx := plush.NewContext()
	ctx.Set("X", x)
	ctx.Set("Y", y)
	ctx.Set("one", []int{7})
	in := "<% let a = X %>[<%= a %>]<% let a = Y %>[<%= a %>]<%= for (v) in one { %>{<%= a %>}<% } %><% let g = fn() { return a } %>(<%= g() %>)"
	got, err := plush.Render(in, ctx)
	vrt.Assert(err == nil, "top-level lets render")
	vrt.Assert(got == "["+itoa(x)+"]["+itoa(y)+"]{"+itoa(y)+"}("+itoa(y)+")", "top-level let persists for the following tags and is readable inside scopes")
	vrt.Cover("done")
}

// a stored block / a function / a block helper used from a scope other than the
// one it was defined in: the rest of the using scope is unaffected
func UseInOtherScope() {
	a0, a1, q := vrt.Int(), vrt.Int(), vrt.Int()
	ctx := plush.NewContext()
	ctx.Set("A0", a0)
	ctx.Set("A1", a1)
	ctx.Set("Q", q)
	ctx.Set("one", []int{7})
	ctx.Set("own", own)
	// what is used inside the nested scope
	var def, use, useE string
	switch vrt.Choice(4) {
	case 0:
		def = "<% contentFor(\"c\") { %>{<%= q %>}<% let a = 5 %><% let z = 6 %><% } %>"
		use, useE = "<%= contentOf(\"c\", {q: Q}) %>", "{"+itoa(q)+"}"
	case 1:
		def = "<% let g = fn(q) { %>{<%= q %>}<% let a = 5 %><% let z = 6 %><% } %>"
		use, useE = "<%= g(Q) %>", "{"+itoa(q)+"}"
	case 2:
		def = ""
		use, useE = "<%= own() { %>{<%= v %>}<% let a = 5 %><% let z = 6 %><% } %>", "{7}"
	default:
		def = "<% contentFor(\"c\") { %>{<%= a %>}<% let z = 6 %><% } %>"
		use, useE = "<%= contentOf(\"c\") %>", "{"+itoa(a0)+"}"
	}
	// the nested scope in which it is used
	var pre, post string
	switch vrt.Choice(3) {
	case 0:
		pre, post = "<%= for (v) in one { %>", "<% } %>"
	case 1:
		pre, post = "<% let h = fn(v) { %>", "<% } %><%= h(7) %>"
	default:
		pre, post = "<%= own() { %><% let v = 7 %>", "<% } %>"
	}
	in := "<% let a = A0 %>" + def + pre + "<% let a = A1 %><% let w = 8 %>" + use + ";<%= a %>;<%= v %>;<%= w %>" + post +
		"|<%= a %>" + probeUnset("w") + probeUnset("z") + probeUnset("q")
	want := useE + ";" + itoa(a1) + ";7;8|" + itoa(a0) + "UUU"
	vrt.Note("input", in)
	got, err := plush.Render(in, ctx)
	vrt.Note("got", got)
	vrt.Assert(err == nil, "using a stored block / function / block helper inside another scope renders")
	vrt.Assert(got == want, "the using scope keeps its own names after the use; nothing leaks out of either scope")
	vrt.Cover("done")
}

// names bound during one use of a stored block / function / partial / block
// helper are invisible in the next use of the same thing
func RepeatedUse() {
	n0, q1 := vrt.Int(), vrt.Int()
	ctx := plush.NewContext()
	ctx.Set("N0", n0)
	ctx.Set("Q1", q1)
	ctx.Set("own", own)
	ctx.Set("partialFeeder", func(string) (string, error) {
		return "(<%= n %><% let n = 7 %><% let fresh = 1 %>" + probeUnset("q") + ")", nil
	})
	body := "(<%= n %><% let n = 7 %><% let fresh = 1 %>" + probeUnset("q") + ")"
	bodyE := "(" + itoa(n0) + "U)"
	bodyQ := "(" + itoa(n0) + "S)"
	var in, want string
	switch vrt.Choice(5) {
	case 0: // contentOf three times; the first passes data the others omit
		in = "<% contentFor(\"c\") { %>" + body + "<% } %><%= contentOf(\"c\", {q: Q1}) %><%= contentOf(\"c\") %><%= contentOf(\"c\") %>"
		want = bodyQ + bodyE + bodyE
	case 1:
		in = "<% let g = fn() { %>" + body + "<% } %><%= g() %><%= g() %>"
		want = bodyE + bodyE
	case 2:
		in = "<%= partial(\"p\", {q: Q1}) %><%= partial(\"p\") %>"
		want = bodyQ + bodyE
	case 3:
		in = "<%= for (i) in [1, 2] { %><%= own() { %>" + body + "<% } %><% } %>"
		want = bodyE + bodyE
	default:
		in = "<% contentFor(\"c\") { %>" + body + "<% } %><%= for (i) in [1, 2] { %><%= contentOf(\"c\") %><% } %>"
		want = bodyE + bodyE
	}
	in = "<% let n = N0 %>" + in + "|<%= n %>" + probeUnset("fresh")
	want += "|" + itoa(n0) + "U"
	vrt.Note("input", in)
	got, err := plush.Render(in, ctx)
	vrt.Note("got", got)
	vrt.Assert(err == nil, "repeated use renders")
	vrt.Assert(got == want, "each use starts from the defining / calling scope: nothing bound in an earlier use is visible")
	vrt.Cover("done")
}

// a function scope that ends through a tolerated fault (unknown identifier in the
// body, call under if / ! / == / &&) is over like any other: parameters and lets
// are invisible afterwards, the same-named outer variable is unchanged, and a
// later top-level let still reaches the following tags
func EndedByFault() {
	A, B, C := vrt.Int(), vrt.Int(), vrt.Int()
	vrt.Assume(A != C)
	vrt.Assume(A != B)
	ctx := plush.NewContext()
	ctx.Set("A", A)
	ctx.Set("B", B)
	ctx.Set("C", C)
	sites := []string{
		"<%= if (f(C)) { %>T<% } %>",
		"<%= if (!f(C)) { %>F<% } %>",
		"<%= if (f(C) == 1) { %>T<% } %>",
		"<%= if (f(C) || false) { %>T<% } %>",
		"<%= for (i) in [1] { %><%= if (f(C)) { %>T<% } %><% } %>",
	}
	k := vrt.Choice(len(sites))
	site := sites[k]
	pre := ""
	if k == 1 {
		pre = "F"
	}
	in := "<% let p = A %><% let f = fn(p) { let q = B\n let p = B\n return missing } %>" + site +
		"[<%= p %>]" + probeUnset("q") + "<% let r = C %><%= r %>"
	vrt.Note("input", in)
	got, err := plush.Render(in, ctx)
	vrt.Note("got", got)
	if err != nil {
		// the unknown name is met inside the called function, not as the condition
		// itself: by C05 a failure of the render (plush tolerated it until 8857fdf,
		// and this harness was written against that). Should it render, the
		// scopes must be intact.
		vrt.Cover("done")
		return
	}
	vrt.Assert(got == pre+"["+itoa(A)+"]U"+itoa(C), "parameters and lets of the ended function are gone and the outer variable is unchanged")
	vrt.Cover("done")
}

// ---- scopes enumerated from a grammar, checked against the reference
// interpreter of package gen: a loop (or a function) whose variables and lets
// may be named like outer names, with an observer after the construct
func init() {
	vrt.Register("C09_generated_loop_scopes", GeneratedLoopScopes)
	vrt.Register("C09_generated_function_scopes", GeneratedFunctionScopes)
	vrt.Register("C09_generated_loop_entered_again", GeneratedLoopEnteredAgain)
}

func observers(g *gen.G) []*gen.Stmt {
	switch vrt.Choice(5) {
	case 0:
		return []*gen.Stmt{gen.Out(gen.Var("x"))}
	case 1:
		return []*gen.Stmt{gen.Out(gen.Var("v"))}
	case 2:
		return []*gen.Stmt{gen.Out(gen.Var("x")), gen.Out(gen.Var("v"))}
	case 3:
		return []*gen.Stmt{gen.Out(gen.Var("e"))} // the loop variable / parameter is gone
	}
	return []*gen.Stmt{gen.IfElse(true, gen.Var("e"), []*gen.Stmt{gen.Text("T")}, []*gen.Stmt{gen.Text("F")}), gen.Out(gen.Var("x"))}
}

func outerLet() []*gen.Stmt {
	switch vrt.Choice(3) {
	case 1:
		return []*gen.Stmt{gen.Let("v", gen.Var("x"))}
	case 2:
		return []*gen.Stmt{gen.Let("v", gen.Lit(3))}
	}
	return nil
}

func GeneratedLoopScopes() {
	p := gen.Profile{Lets: true, Shadow: true, Ctl: true, NoKey: true, Conds: 2, Vals: 2, Pres: 2, Posts: 3, Leafs: 2, Iters: 1}
	if vrt.Tier() > 0 {
		p = gen.Profile{Lets: true, Shadow: true, Assigns: true, Ctl: true, Ifs: true, Loops: true, Conds: 3, Vals: 3, Iters: 4}
	}
	g := &gen.G{P: p}
	var prog []*gen.Stmt
	prog = append(prog, outerLet()...)
	prog = append(prog, gen.Text("<"), g.For(gen.Cx{Inner: "x"}, vrt.Tier()), gen.Text(">"))
	prog = append(prog, observers(g)...)
	gen.Check(prog, gen.NewData(2), "names bound inside a loop")
}

func GeneratedFunctionScopes() {
	p := gen.Profile{Lets: true, Shadow: true, Ctl: true, Conds: 2, Vals: 2, Pres: 2}
	if vrt.Tier() > 0 {
		p.Assigns, p.Conds, p.Vals, p.Pres = true, 3, 0, 0
	}
	g := &gen.G{P: p}
	param := "p"
	if vrt.Choice(2) == 1 {
		param = "x" // a parameter named like an outer variable
	}
	var prog []*gen.Stmt
	prog = append(prog, outerLet()...)
	prog = append(prog, gen.Fn("f", []string{param}, g.FnBody(param, 0, "")))
	arg := gen.Var("x")
	switch vrt.Choice(4) {
	case 0:
		prog = append(prog, gen.Out(gen.Call("f", arg)))
	case 3:
		prog = append(prog, gen.Out(gen.Call("f", gen.Add(gen.Var("x"), gen.Lit(1)))))
	case 1:
		// called from inside a loop: the callee must not see or disturb the loop's names
		prog = append(prog, gen.For("", "e", gen.Var("xs"), []*gen.Stmt{gen.Out(gen.Call("f", gen.Var("e"))), gen.Out(gen.Var("e"))}))
	default:
		prog = append(prog, gen.Out(gen.Call("f", arg)), gen.Out(gen.Call("f", gen.Lit(2))))
	}
	switch vrt.Choice(4) {
	case 0:
		prog = append(prog, gen.Out(gen.Var("x")))
	case 1:
		prog = append(prog, gen.Out(gen.Var("v")))
	case 2:
		prog = append(prog, gen.Out(gen.Var("p"))) // the parameter is gone
	default:
		prog = append(prog, gen.Out(gen.Var("x")), gen.Out(gen.Var("v")))
	}
	gen.Check(prog, gen.NewData(2), "names bound inside a function")
}

// an inner loop entered once per outer iteration: what its body binds must be
// gone when it is entered again (a "first element" flag tested before it is set)
func GeneratedLoopEnteredAgain() {
	p := gen.Profile{Lets: true, LetConds: true, Ifs: true, NoKey: true, Conds: 2, Vals: 2, Pres: 2, Posts: 3, Leafs: 1, Iters: 1}
	if vrt.Tier() > 0 {
		p = gen.Profile{Lets: true, LetConds: true, Ifs: true, Ctl: true, Shadow: true, Conds: 4, Vals: 3, Iters: 3}
	}
	g := &gen.G{P: p}
	inner := g.For(gen.Cx{Loop: true, Inner: "e"}, 0)
	outer := gen.For("", "e", gen.Arr(gen.Var("x"), gen.Lit(7), gen.Var("t")), []*gen.Stmt{gen.Text("("), inner, gen.Text(")")})
	var prog []*gen.Stmt
	prog = append(prog, outerLet()...)
	prog = append(prog, gen.Text("<"), outer, gen.Text(">"))
	prog = append(prog, observers(g)...)
	gen.Check(prog, gen.NewData(2), "an inner loop entered again")
}

// ---- the data a partial (a content block) is given lives in a variable and is used
// for a second call: names the first call bound inside are gone, the variable
// still holds what it held, an outer variable of the same name is readable again
func DataValueReused() {
	A, B := vrt.Int(), vrt.Int()
	ctx := plush.NewContext()
	ctx.Set("A", A)
	ctx.Set("B", B)
	ctx.Set("gomap", map[string]interface{}{"a": A})
	body := probeUnset("z") + "<%= a %>;<% let z = 1 %><% let a = B %>"
	ctx.Set("partialFeeder", func(string) (string, error) { return body, nil })
	a, b := itoa(A), itoa(B)
	_ = b
	var in, want string
	switch vrt.Choice(5) {
	case 0:
		in = "<% let opts = {a: A} %><%= partial(\"p\", opts) %><%= partial(\"p\", opts) %>|<%= opts[\"a\"] %>|" + probeUnset("z")
		want = "U" + a + ";U" + a + ";|" + a + "|U"
	case 1:
		in = "<%= partial(\"p\", gomap) %><%= partial(\"p\", gomap) %>|<%= gomap[\"a\"] %>|" + probeUnset("z")
		want = "U" + a + ";U" + a + ";|" + a + "|U"
	case 2:
		in = "<% let opts = {a: A} %><%= for (i) in [1, 2] { %><%= partial(\"p\", opts) %><% } %>|<%= opts[\"a\"] %>"
		want = "U" + a + ";U" + a + ";|" + a
	case 3:
		in = "<% contentFor(\"c\") { %>" + body + "<% } %><% let opts = {a: A} %><%= contentOf(\"c\", opts) %><%= contentOf(\"c\", opts) %>|<%= opts[\"a\"] %>"
		want = "U" + a + ";U" + a + ";|" + a
	default:
		in = "<% let z = 7 %><% let opts = {a: A} %><%= partial(\"q\", opts) %><%= z %>"
		ctx.Set("partialFeeder", func(string) (string, error) { return "<% let z = 1 %><%= a %>;", nil })
		want = a + ";7"
	}
	vrt.Note("input", in)
	got, err := plush.Render(in, ctx)
	vrt.Note("got", got)
	vrt.Assert(err == nil, "partials and content blocks given their data through a variable render")
	vrt.Assert(got == want, "names bound inside end with the call; the data variable and outer variables are what they were")
	vrt.Cover("done")
}
