// Package c10: plush.Context behaves as a chain of scopes for every history.
package c10

import (
	plush "github.com/gobuffalo/plush/v5"

	"verifharness/vrt"
)

func init() {
	vrt.Register("C10_histories", Histories)
	vrt.Register("C10_step", Step)
	vrt.Register("C10_builtin_override", BuiltinOverride)
	vrt.Register("C10_deep_chains", DeepChains)
}

// ---- reference model: a tree of association maps

type builtin struct{}

type mctx struct {
	data   map[string]interface{}
	parent int
}

func mvalue(cs []mctx, i int, k string) interface{} {
	for i >= 0 {
		if v, ok := cs[i].data[k]; ok {
			return v
		}
		i = cs[i].parent
	}
	return nil
}

// same: a value returned by plush equals a model value (built-ins are functions).
func same(got interface{}, want interface{}) bool {
	switch w := want.(type) {
	case nil:
		return got == nil
	case builtin:
		if got == nil {
			return false
		}
		_, isInt := got.(int)
		return !isInt
	case int:
		g, ok := got.(int)
		if !ok {
			return false
		}
		return g == w
	}
	return false
}

// isHelper: k is the name of a built-in helper.
func isHelper(k string) bool {
	_, ok := plush.Helpers.All()[k]
	return ok
}

// withBuiltins: the root scope holds every built-in that the user data does not define.
func withBuiltins(m map[string]interface{}) map[string]interface{} {
	for k := range plush.Helpers.All() {
		if _, ok := m[k]; !ok {
			m[k] = builtin{}
		}
	}
	return m
}

func histLen() int {
	if vrt.Tier() > 0 {
		return 4
	}
	return 3
}

// pickKey: two symbolic one-byte keys (they may or may not be equal: the solver
// decides) and the name of a built-in helper.
func pickKey(k1, k2 string) string {
	switch vrt.Choice(3) {
	case 0:
		return k1
	case 1:
		return k2
	}
	return "len"
}

// pickVal: an arbitrary int, or nil - also under the name of a built-in helper:
// a name bound to nil is bound (the built-in must not come back in later
// children; this case was once excluded as unspecified, a sub-agent hunting on
// the unchanged tree argued convincingly that the chain-of-scopes statement
// does fix it, and plush was repaired: 78fba3a).
func pickVal(key string) interface{} {
	if vrt.Bool() {
		return nil
	}
	return vrt.Int()
}

func checkAll(real []*plush.Context, model []mctx, keys []string) {
	for i := range real {
		for _, k := range keys {
			want := mvalue(model, i, k)
			got := real[i].Value(k)
			vrt.Assert(same(got, want), "Value(k) is the binding of the nearest scope that has k")
			vrt.Assert(real[i].Has(k) == (want != nil), "Has(k) is true exactly when Value(k) is non-nil")
		}
	}
}

// Histories of L operations over a tree of up to 4 contexts.
func Histories() {
	k1, k2 := vrt.Bytes(1), vrt.Bytes(1)
	keys := []string{k1, k2, "len"}
	var real []*plush.Context
	var model []mctx
	if vrt.Bool() {
		real = append(real, plush.NewContext())
		model = append(model, mctx{data: withBuiltins(map[string]interface{}{}), parent: -1})
	} else {
		// user data supplied at construction, possibly under a built-in name
		k := pickKey(k1, k2)
		v := vrt.Int()
		real = append(real, plush.NewContextWith(map[string]interface{}{k: v}))
		model = append(model, mctx{data: withBuiltins(map[string]interface{}{k: v}), parent: -1})
	}
	L := histLen()
	for step := 0; step < L; step++ {
		ci := vrt.Choice(len(real))
		if vrt.Choice(2) == 0 {
			if len(real) >= 4 {
				vrt.Assume(false)
			}
			c := real[ci].New().(*plush.Context)
			real = append(real, c)
			model = append(model, mctx{data: map[string]interface{}{}, parent: ci})
		} else {
			k := pickKey(k1, k2)
			v := pickVal(k)
			real[ci].Set(k, v)
			model[ci].data[k] = v
		}
		checkAll(real, model, keys)
	}
	vrt.Cover("done")
}

// One operation from an arbitrary symbolic pre-state (the inductive step).
// Pre-state: chain root <- c1 <- c2 (thorough: plus a sibling of c1). Each scope
// is empty or binds one key of a pool {kA: 1 arbitrary byte, kB: 3 arbitrary
// bytes - may spell a built-in such as "len" or "raw"} to an arbitrary int or
// nil; the scopes are handed to plush through its exported constructors.
// Operation: Set(k, v) on any context, or New() followed by a Set on the child,
// with k from the pool or a third arbitrary 1-byte key.
func Step() {
	kA, kB := vrt.Bytes(1), vrt.Bytes(3)
	pool := []string{kA, kB}
	mk := func() (map[string]interface{}, map[string]interface{}) {
		real, model := map[string]interface{}{}, map[string]interface{}{}
		c := vrt.Choice(len(pool) + 1)
		if c < len(pool) {
			k := pool[c]
			v := pickVal(k)
			real[k] = v
			model[k] = v
		}
		return real, model
	}
	r0, m0 := mk()
	root := plush.NewContextWith(r0)
	withBuiltins(m0)
	r1, m1 := mk()
	c1 := plush.NewContextWithOuter(r1, root)
	r2, m2 := mk()
	c2 := plush.NewContextWithOuter(r2, c1)
	real := []*plush.Context{root, c1, c2}
	model := []mctx{{m0, -1}, {m1, 0}, {m2, 1}}
	if vrt.Tier() > 0 {
		r3, m3 := mk()
		real = append(real, plush.NewContextWithOuter(r3, root))
		model = append(model, mctx{m3, 0})
	}
	keys := []string{kA, kB, "len"}
	checkAll(real, model, keys)
	ci := vrt.Choice(len(real))
	opKeys := pool
	if vrt.Tier() > 0 {
		kC := vrt.Bytes(1)
		opKeys = []string{kA, kB, kC}
		keys = append(keys, kC)
	}
	k := opKeys[vrt.Choice(len(opKeys))]
	if vrt.Bool() {
		v := pickVal(k)
		real[ci].Set(k, v)
		model[ci].data[k] = v
	} else {
		c := real[ci].New().(*plush.Context)
		real = append(real, c)
		model = append(model, mctx{data: map[string]interface{}{}, parent: ci})
		checkAll(real, model, keys)
		v := pickVal(k)
		c.Set(k, v)
		model[len(model)-1].data[k] = v
	}
	checkAll(real, model, keys)
	vrt.Cover("done")
}

// A user value under a built-in name wins in that context and all descendants,
// for every built-in name.
func BuiltinOverride() {
	names := []string{"len", "raw", "partial", "contentFor", "truncate", "range", "json", "htmlEscape"}
	name := names[vrt.Choice(len(names))]
	v := vrt.Int()
	var root *plush.Context
	if vrt.Bool() {
		root = plush.NewContextWith(map[string]interface{}{name: v})
	} else {
		root = plush.NewContext()
		_, isInt := root.Value(name).(int)
		vrt.Assert(root.Has(name), "built-in helpers are present by default")
		vrt.Assert(!isInt, "built-in helpers are functions")
		root.Set(name, v)
	}
	child := root.New().(*plush.Context)
	grand := child.New().(*plush.Context)
	vrt.Assert(same(root.Value(name), v), "user value wins over the built-in (same context)")
	vrt.Assert(same(child.Value(name), v), "user value wins over the built-in (child)")
	vrt.Assert(same(grand.Value(name), v), "user value wins over the built-in (grandchild)")
	vrt.Cover("done")
}

// ---- long chains and siblings under a deep parent: a chain of D scopes (D up
// to 12 / 17), a key set on the root and on two arbitrary levels - one of them
// only after every scope exists -, two sibling leaves under the deepest scope
// that both set the key; every scope must see the nearest binding above it
// and neither sibling the other's
func DeepChains() {
	maxD := 12
	if vrt.Tier() > 0 {
		maxD = 17
	}
	D := 2 + vrt.Choice(maxD-1) // 2..maxD scopes in the chain
	chain := make([]*plush.Context, D)
	chain[0] = plush.NewContext()
	v0, v1, v2, va, vb := vrt.Int(), vrt.Int(), vrt.Int(), vrt.Int(), vrt.Int()
	chain[0].Set("k", v0)
	early := vrt.Choice(D) // set before the scopes below it exist
	late := vrt.Choice(D)  // set after all scopes exist
	for i := 1; i < D; i++ {
		chain[i] = chain[i-1].New().(*plush.Context)
		if i == early {
			chain[i].Set("k", v1)
		}
	}
	if early == 0 {
		chain[0].Set("k", v1)
	}
	a := chain[D-1].New().(*plush.Context)
	b := chain[D-1].New().(*plush.Context)
	chain[late].Set("k", v2)
	// the model: nearest binding at or above level i
	want := func(i int) int {
		for j := i; j >= 0; j-- {
			if j == late {
				return v2
			}
			if j == early {
				return v1
			}
		}
		return v0
	}
	obs := vrt.Choice(D)
	got, _ := chain[obs].Value("k").(int)
	vrt.Assert(chain[obs].Has("k"), "deep chain: a bound key is seen from every level")
	vrt.Assert(got == want(obs), "deep chain: Value is the nearest binding on the path to the root")
	ga, _ := a.Value("k").(int)
	gb, _ := b.Value("k").(int)
	vrt.Assert(ga == want(D-1) && gb == want(D-1), "deep chain: leaves see the nearest binding above them")
	a.Set("k", va)
	b.Set("k", vb)
	ga, _ = a.Value("k").(int)
	gb, _ = b.Value("k").(int)
	vrt.Assert(ga == va, "siblings under a deep parent: each sees its own binding")
	vrt.Assert(gb == vb, "siblings under a deep parent: each sees its own binding")
	gp, _ := chain[D-1].Value("k").(int)
	vrt.Assert(gp == want(D-1), "a Set on a child never changes what its parent observes")
	// a user value under the name of a built-in, set late on a middle scope, wins in all descendants
	chain[late].Set("len", v2)
	gl, ok := a.Value("len").(int)
	vrt.Assert(ok && gl == v2, "deep chain: a user value under a built-in's name wins in every descendant")
	vrt.Cover("done")
}
