package c10

// The evaluator's own scopes (loops, calls, chained calls, partials, blocks) are
// contexts in the same tree: the Sets they perform must not change what the
// context the template was rendered with - their ancestor - observes, except for
// names bound by a top-level let.

import (
	plush "github.com/gobuffalo/plush/v5"

	"verifharness/vrt"
)

func init() {
	vrt.Register("C10_evaluator_scopes", EvaluatorScopes)
}

type user struct {
	Name string
	N    int
}

func (u user) Self() user    { return u }
func (u *user) Ptr() *user   { return u }
func (u user) Twice() []user { return []user{u, u} }

func EvaluatorScopes() {
	a, b := vrt.Int(), vrt.Int()
	u := user{Name: "n", N: a}
	ctx := plush.NewContext()
	ctx.Set("a", a)
	ctx.Set("b", b)
	ctx.Set("xs", []int{a, b})
	ctx.Set("u", u)
	ctx.Set("up", &u)
	ctx.Set("current", func() user { return u })
	ctx.Set("mk", func(n int) *user { return &user{N: n} })
	parent := ctx
	child := ctx
	if vrt.Bool() {
		child = ctx.New().(*plush.Context) // render on a child: then neither the child nor the parent may change
	}
	type prog struct {
		src  string
		lets []string // names legitimately bound afterwards (top-level let)
	}
	A := "<%= a %>"
	progs := []prog{
		{"<%= current().N %>|<%= current().N %>", nil},
		{"<%= current().Self().N %>", nil},
		{"<%= u.Self().N %>|<%= up.Ptr().N %>|<%= u.Self().N %>", nil},
		{"<%= mk(b).N %>|<%= mk(a).N %>", nil},
		{"<%= u.Twice()[1].N %>", nil},
		{"<%= for (i, v) in xs { %><%= v %>,<% } %>", nil},
		{"<%= for (v) in u.Twice() { %><%= v.N %>,<% } %>", nil},
		{"<% let f = fn(p, q) { let r = p\n return r } %><%= f(a, b) %>", []string{"f"}},
		{"<% let f = fn(p) { return current().N } %><%= f(a) %>|<%= current().N %>", []string{"f"}},
		{"<%= if (current()) { %>" + A + "<% } %>", nil},
		{"<% let t = current().N %><%= t %>", []string{"t"}},
	}
	k := vrt.Choice(len(progs))
	p := progs[k]
	vrt.Note("input", p.src)
	keys := []string{"a", "b", "xs", "u", "up", "current", "mk", "i", "v", "p", "q", "r", "f", "t", "u.Self", "up.Ptr", "u.Twice", "current.Self", "N", "Self"}
	type obs struct {
		has  bool
		kind int
		n    int
	}
	look := func(c *plush.Context, key string) obs {
		v := c.Value(key)
		o := obs{has: c.Has(key)}
		switch x := v.(type) {
		case nil:
			o.kind = 0
		case int:
			o.kind, o.n = 1, x
		case []int:
			o.kind, o.n = 2, len(x)
		case user:
			o.kind, o.n = 3, x.N
		case *user:
			o.kind = 4
		case func() user:
			o.kind = 5
		case func(int) *user:
			o.kind = 6
		default:
			o.kind = 7
		}
		return o
	}
	var before, beforeP []obs
	for _, key := range keys {
		before = append(before, look(child, key))
		beforeP = append(beforeP, look(parent, key))
	}
	_, err := plush.Render(p.src, child)
	vrt.Assert(err == nil, "the program renders")
	for i, key := range keys {
		licensed := false
		for _, l := range p.lets {
			if l == key {
				licensed = true
			}
		}
		after := look(parent, key)
		if child != parent || !licensed {
			vrt.Assert(after == beforeP[i], "evaluation does not change what the render context's parent observes")
		}
		if !licensed {
			vrt.Assert(look(child, key) == before[i], "evaluation binds nothing in the render context except top-level lets")
		}
	}
	vrt.Cover("done")
}
