// Package c11: path access returns exactly what Go navigation would, or fails; never another element.
package c11

import (
	"strconv"

	plush "github.com/gobuffalo/plush/v5"

	"verifharness/vrt"
)

func init() {
	vrt.Register("C11_paths", Paths)
	vrt.Register("C11_variable_index", VariableIndex)
	vrt.Register("C11_failures", Failures)
	vrt.Register("C11_uses", Uses)
	vrt.Register("C11_method_chains", MethodChains)
	vrt.Register("C11_more_shapes", MoreShapes)
	vrt.Register("C11_index_of_another_type", IndexOfAnotherType)
	vrt.Register("C11_narrow_integer_keys", NarrowIntegerKeys)
	vrt.Register("C11_receiver_forms", ReceiverForms)
	vrt.Register("C11_repeated_names", RepeatedNames)
	vrt.Register("C11_methods_on_pointees", MethodsOnPointees)
	vrt.Register("C11_pointee_bound_to_a_name", PointeeBoundToAName)
}

type T struct {
	Name   string
	N      int
	Kids   []T
	Arr    [2]U
	M      map[string]T
	Ptr    *T
	secret int
}

// U is the element type of the array field (a struct cannot contain an array of itself).
type U struct {
	Name string
	N    int
}

func (t T) Get() string { return t.Name }
func (t T) Self() T     { return t }
func (t T) Next() *T    { return t.Ptr }
func (t *T) PName() string {
	if t == nil {
		return "nilrecv"
	}
	return t.Name
}
func (t T) Kid(i int) T {
	if i < 0 || i >= len(t.Kids) {
		return T{Name: "none"}
	}
	return t.Kids[i]
}
func (t T) Pick(k string) string { return t.Name + k }

const alpha = "abcdefghijklmnopqrstuvwxyz"

// leaf: every leaf of the graph is its own arbitrary value, so "equals the
// right leaf for all values" can only hold if the right leaf is returned.
func leaf() string { return vrt.BytesIn(1, alpha) }

func mkT(depth int) T {
	t := T{Name: leaf(), N: vrt.Int()}
	if depth > 0 {
		t.Kids = []T{mkT(depth - 1), mkT(depth - 1)}
		t.Arr = [2]U{{Name: leaf()}, {Name: leaf(), N: vrt.Int()}}
		t.M = map[string]T{"k": mkT(0), "j": {Name: leaf(), Kids: []T{{Name: leaf()}}}}
		p := mkT(0)
		p.Kids = []T{{Name: leaf()}}
		t.Ptr = &p
	}
	return t
}

func itoa(n int) string { return strconv.Itoa(n) }

type pathCase struct {
	expr string
	want func(t T) string
}

var pathCases = []pathCase{
	{"t.Name", func(t T) string { return t.Name }},
	{"t.N", func(t T) string { return itoa(t.N) }},
	{"t.Kids[0].Name", func(t T) string { return t.Kids[0].Name }},
	{"t.Kids[1].Name", func(t T) string { return t.Kids[1].Name }},
	{"t.Kids[1].N", func(t T) string { return itoa(t.Kids[1].N) }},
	{"t.Kids[0].Kids[1].Name", func(t T) string { return t.Kids[0].Kids[1].Name }},
	{"t.Kids[1].Kids[0].Name", func(t T) string { return t.Kids[1].Kids[0].Name }},
	{"t.Kids[1].Kids[0].N", func(t T) string { return itoa(t.Kids[1].Kids[0].N) }},
	{"t.Arr[0].Name", func(t T) string { return t.Arr[0].Name }},
	{"t.Arr[1].Name", func(t T) string { return t.Arr[1].Name }},
	{"t.Arr[1].N", func(t T) string { return itoa(t.Arr[1].N) }},
	{"t.M[\"k\"].Name", func(t T) string { return t.M["k"].Name }},
	{"t.M[\"j\"].Name", func(t T) string { return t.M["j"].Name }},
	{"t.M[\"j\"].Kids[0].Name", func(t T) string { return t.M["j"].Kids[0].Name }},
	{"t.Ptr.Name", func(t T) string { return t.Ptr.Name }},
	{"t.Ptr.N", func(t T) string { return itoa(t.Ptr.N) }},
	{"t.Ptr.Kids[0].Name", func(t T) string { return t.Ptr.Kids[0].Name }},
	{"t.Get()", func(t T) string { return t.Get() }},
	{"t.Ptr.Get()", func(t T) string { return t.Ptr.Get() }},
	{"t.Ptr.PName()", func(t T) string { return t.Ptr.PName() }},
	{"t.PName()", func(t T) string { return t.PName() }},
	{"t.Self().Name", func(t T) string { return t.Self().Name }},
	{"t.Next().Name", func(t T) string { return t.Next().Name }},
	{"t.Kid(1).Name", func(t T) string { return t.Kid(1).Name }},
	{"t.Kid(0).N", func(t T) string { return itoa(t.Kid(0).N) }},
	{"t.Kids[1].Get()", func(t T) string { return t.Kids[1].Get() }},
	{"t.Kids[0].Kid(1).Name", func(t T) string { return t.Kids[0].Kid(1).Name }},
	{"t.Pick(\"z\")", func(t T) string { return t.Pick("z") }},
	{"t.Kids[1].Pick(t.Name)", func(t T) string { return t.Kids[1].Pick(t.Name) }},
	{"ts[0].Name", func(t T) string { return t.Kids[0].Name }},
	{"ts[1].Kids[0].Name", func(t T) string { return t.Kids[1].Kids[0].Name }},
	{"ts[1].Get()", func(t T) string { return t.Kids[1].Get() }},
	{"m[\"k\"].Name", func(t T) string { return t.M["k"].Name }},
	{"m[\"j\"].Kids[0].Name", func(t T) string { return t.M["j"].Kids[0].Name }},
	{"p.Name", func(t T) string { return t.Ptr.Name }},
	{"p.Kids[0].Name", func(t T) string { return t.Ptr.Kids[0].Name }},
	{"p.PName()", func(t T) string { return t.Ptr.PName() }},
	{"t.Next().Kids[0].Name", func(t T) string { return t.Next().Kids[0].Name }},
	{"t.Self().Kids[1].Name", func(t T) string { return t.Self().Kids[1].Name }},
	{"t.Self().Self().Name", func(t T) string { return t.Self().Self().Name }},
	{"t.Kid(1).Kid(0).Name", func(t T) string { return t.Kid(1).Kid(0).Name }},
	{"t.Kids[0].Kids[1].Get()", func(t T) string { return t.Kids[0].Kids[1].Get() }},
	{"t.M[\"j\"].Kids[0].Get()", func(t T) string { return t.M["j"].Kids[0].Get() }},
	{"t.Kids[1].Kids[0].Pick(\"q\")", func(t T) string { return t.Kids[1].Kids[0].Pick("q") }},
	{"t.Kids[1].Kids[0].Kid(0).Name", func(t T) string { return t.Kids[1].Kids[0].Kid(0).Name }},
	{"t.Ptr.Kids[0].Get()", func(t T) string { return t.Ptr.Kids[0].Get() }},
	{"ts[1].Kids[0].Get()", func(t T) string { return t.Kids[1].Kids[0].Get() }},
	{"t.Next().Next()", func(t T) string { return "" }},
	// a field path between an index / a call and a method call (49f0ea2)
	{"t.Kids[0].Ptr.Get()", func(t T) string { return t.Kids[0].Ptr.Get() }},
	{"t.Kids[1].Ptr.PName()", func(t T) string { return t.Kids[1].Ptr.PName() }},
	{"t.Kids[1].Ptr.Pick(t.Name)", func(t T) string { return t.Kids[1].Ptr.Pick(t.Name) }},
	{"t.Kids[0].Ptr.Kids[0].Get()", func(t T) string { return t.Kids[0].Ptr.Kids[0].Get() }},
	{"ts[1].Ptr.Get()", func(t T) string { return t.Kids[1].Ptr.Get() }},
	{"t.Self().Ptr.Get()", func(t T) string { return t.Self().Ptr.Get() }},
	{"t.Kid(0).Ptr.Get()", func(t T) string { return t.Kid(0).Ptr.Get() }},
	{"t.Kid(1).Ptr.Kid(0).Name", func(t T) string { return t.Kid(1).Ptr.Kid(0).Name }},
	{"t.Kids[0].Ptr.Self().Name", func(t T) string { return t.Kids[0].Ptr.Self().Name }},
	{"t.Self().Ptr.Kids[0].Get()", func(t T) string { return t.Self().Ptr.Kids[0].Get() }},
}

type nilEmb struct {
	*Base
	Own string
}

func ctxFor(t T) *plush.Context {
	ctx := plush.NewContext()
	ctx.Set("ne", nilEmb{Own: "own"})
	ctx.Set("nep", &nilEmb{Own: "own"})
	ctx.Set("t", t)
	ctx.Set("ts", t.Kids)
	ctx.Set("m", t.M)
	ctx.Set("p", t.Ptr)
	return ctx
}

func render(in string, ctx *plush.Context) (string, error) {
	vrt.Note("input", in)
	out, err := plush.Render(in, ctx)
	vrt.Note("got", out)
	return out, err
}

func Paths() {
	t := mkT(2)
	pc := pathCases[vrt.Choice(len(pathCases))]
	got, err := render("<%= "+pc.expr+" %>", ctxFor(t))
	vrt.Assert(err == nil, "a path that Go can navigate renders: "+pc.expr)
	vrt.Assert(got == pc.want(t), "the path yields exactly the value of the same navigation in Go: "+pc.expr)
	vrt.Cover("done")
}

// variable indexes (every int) and variable map keys
func VariableIndex() {
	t := mkT(2)
	i, j := vrt.Int(), vrt.Int()
	key := vrt.BytesIn(1, "jkx")
	ctx := ctxFor(t)
	ctx.Set("i", i)
	ctx.Set("j", j)
	ctx.Set("key", key)
	in := func(n, l int) bool {
		if n < 0 {
			return false
		}
		return n < l
	}
	var expr, want string
	ok := false
	switch vrt.Choice(8) {
	case 0:
		expr = "t.Kids[i].Name"
		if in(i, 2) {
			want, ok = t.Kids[i].Name, true
		}
	case 1:
		expr = "t.Kids[i].Kids[j].Name"
		if in(i, 2) {
			if in(j, 2) {
				want, ok = t.Kids[i].Kids[j].Name, true
			}
		}
	case 2:
		expr = "t.Arr[i].Name"
		if in(i, 2) {
			want, ok = t.Arr[i].Name, true
		}
	case 3:
		expr = "ts[i].N"
		if in(i, 2) {
			want, ok = itoa(t.Kids[i].N), true
		}
	case 4:
		expr = "t.M[key].Name"
		if v, hit := t.M[key]; hit {
			want, ok = v.Name, true
		}
	case 5:
		expr = "m[key].Name"
		if v, hit := t.M[key]; hit {
			want, ok = v.Name, true
		}
	case 6:
		expr = "t.Kids[i].Get()"
		if in(i, 2) {
			want, ok = t.Kids[i].Get(), true
		}
	default:
		expr = "t.Kid(i).Name"
		want, ok = t.Kid(i).Name, true
	}
	got, err := render("<%= "+expr+" %>", ctx)
	if ok {
		vrt.Assert(err == nil, "a path that Go can navigate renders: "+expr)
		vrt.Assert(got == want, "variable index/key: exactly the addressed element: "+expr)
	} else {
		vrt.Assert(err != nil || got == "", "out of range / missing key: an error or empty output, never another element")
	}
	vrt.Cover("done")
}

// navigation that cannot be completed
func Failures() {
	t := mkT(1)
	exprs := []string{
		"t.Kids[5].Name", "t.Kids[2].Name", "t.Arr[2].Name", "t.M[\"nope\"].Name", "t.Ptr.Ptr.Name", "t.Ptr.Ptr.Ptr.Name",
		"t.secret", "t.Missing", "t.Kids[0].Missing", "t.Missing.Name", "t.Name.Name", "t.Nope()", "t.Kids[0].Nope()",
		"ts[9].Name", "m[\"zz\"].Kids[0].Name", "t.Kids[0].secret", "t.Ptr.Ptr.Get()", "t.N.Name", "t.Kids.Name",
		// a pointer receiver without such a method (also a field name used as a method); a field promoted through a nil embedded pointer
		"p.Nope()", "t.Ptr.Nope()", "p.Name()", "t.Ptr.Nope(t.Name)", "ne.BName", "ne.Tag()", "nep.BName",
		// ... and nothing can be read through the result of such a call
		"p.Nope().Name", "t.Ptr.Nope().Name", "p.Nope(t.Missing).Kids[0].Name",
	}
	// the result of a failed navigation bound with let: nothing can be read through the name
	lets := []string{"p.Nope()", "t.Ptr.Nope(1)", "t.Kids[0].Nope()", "ne.Tag()"}
	k := vrt.Choice(len(exprs) + len(lets))
	if k >= len(exprs) {
		e := lets[k-len(exprs)]
		got, err := render("<% let q = "+e+" %>[<%= q.Name %><%= q.Kids[0].Name %>]", ctxFor(t))
		vrt.Assert(err != nil || got == "[]", "navigation that cannot be completed, bound with let: an error or nothing, never a value: "+e)
		vrt.Cover("done")
		return
	}
	e := exprs[k]
	got, err := render("[<%= "+e+" %>]", ctxFor(t))
	vrt.Assert(err != nil || got == "[]", "navigation that cannot be completed: an error or empty output, never a value: "+e)
	vrt.Cover("done")
}

// the same paths in let bindings and loop iterables
func Uses() {
	t := mkT(2)
	ctx := ctxFor(t)
	var in, want string
	switch vrt.Choice(7) {
	case 0:
		in = "<% let x = t.Kids[1].Name %>[<%= x %>]"
		want = "[" + t.Kids[1].Name + "]"
	case 1:
		in = "<% let x = t.Kids[1] %>[<%= x.Name %>]"
		want = "[" + t.Kids[1].Name + "]"
	case 2:
		in = "[<%= for (k) in t.Kids { %><%= k.Name %>,<% } %>]"
		want = "[" + t.Kids[0].Name + "," + t.Kids[1].Name + ",]"
	case 3:
		in = "[<%= for (k) in t.Kids[1].Kids { %><%= k.Name %>,<% } %>]"
		want = "[" + t.Kids[1].Kids[0].Name + "," + t.Kids[1].Kids[1].Name + ",]"
	case 4:
		in = "[<%= for (k) in t.M[\"j\"].Kids { %><%= k.Name %>,<% } %>]"
		want = "[" + t.M["j"].Kids[0].Name + ",]"
	case 5:
		in = "[<%= for (k) in t.Kids { %><%= k.Kids[0].Name %><%= k.Get() %>,<% } %>]"
		want = "[" + t.Kids[0].Kids[0].Name + t.Kids[0].Name + "," + t.Kids[1].Kids[0].Name + t.Kids[1].Name + ",]"
	default:
		in = "[<%= for (i, k) in t.Kids { %><%= t.Kids[i].Name %><%= k.Name %>,<% } %>]"
		want = "[" + t.Kids[0].Name + t.Kids[0].Name + "," + t.Kids[1].Name + t.Kids[1].Name + ",]"
	}
	got, err := render(in, ctx)
	vrt.Assert(err == nil, "a path used in a let binding or as loop iterable renders")
	vrt.Assert(got == want, "let / loop use: exactly the value of the Go navigation")
	vrt.Cover("done")
}

// a linked list with distinct leaves: chains of the same / alternating method names
type Node struct {
	Name string
	next *Node
}

func (n *Node) Next() *Node { return n.next }
func (n *Node) Self() *Node { return n }
func (n Node) Val() Node    { return n }

func MethodChains() {
	n4 := &Node{Name: leaf()}
	n3 := &Node{Name: leaf(), next: n4}
	n2 := &Node{Name: leaf(), next: n3}
	n1 := &Node{Name: leaf(), next: n2}
	n0 := &Node{Name: leaf(), next: n1}
	ctx := plush.NewContext()
	ctx.Set("n", n0)
	ctx.Set("ns", []*Node{n0, n2})
	type cs struct {
		expr string
		want string
	}
	cases := []cs{
		{"n.Next().Name", n1.Name},
		{"n.Next().Next().Name", n2.Name},
		{"n.Next().Next().Next().Name", n3.Name},
		{"n.Next().Next().Next().Next().Name", n4.Name},
		{"n.Self().Next().Self().Next().Name", n2.Name},
		{"n.Next().Self().Next().Self().Next().Name", n3.Name},
		{"ns[0].Next().Next().Name", n2.Name},
		{"ns[1].Next().Next().Name", n4.Name},
		{"ns[1].Next().Name", n3.Name},
		{"n.Val().Name", n0.Name},
		{"n.Next().Val().Name", n1.Name},
		{"n.Next().Next().Val().Val().Name", n2.Name},
	}
	c := cases[vrt.Choice(len(cases))]
	var in, want string
	switch vrt.Choice(2) {
	case 0:
		in, want = "[<%= "+c.expr+" %>]", "["+c.want+"]"
	default:
		in, want = "<% let x = "+c.expr+" %>[<%= x %>]", "["+c.want+"]"
	}
	got, err := render(in, ctx)
	vrt.Assert(err == nil, "a chain of method calls renders: "+c.expr)
	vrt.Assert(got == want, "a chain of method calls yields the value of the same chain in Go: "+c.expr)
	vrt.Cover("done")
}

// further shapes of data graphs: embedded structs (promoted fields and methods),
// interface-typed fields, slices of pointers, maps with int keys, maps of maps,
// maps of slices, pointers to slices
type Base struct {
	BName string
	ID    int
}

func (b Base) Tag() string { return b.BName }

type Rich struct {
	Base
	Title string
	Any   interface{}
	Ptrs  []*Rich
	ByID  map[int]Base
	Deep  map[string]map[string]string
	Lists map[string][]Base
	PS    *[]Base
}

func MoreShapes() {
	mk := func() Base { return Base{BName: leaf(), ID: vrt.Int()} }
	child := &Rich{Base: mk(), Title: leaf()}
	bs := []Base{mk(), mk()}
	r := Rich{
		Base:  mk(),
		Title: leaf(),
		Any:   mk(),
		Ptrs:  []*Rich{child, nil},
		ByID:  map[int]Base{1: mk(), 7: mk()},
		Deep:  map[string]map[string]string{"a": {"b": leaf()}, "c": {"d": leaf()}},
		Lists: map[string][]Base{"l": {mk(), mk()}},
		PS:    &bs,
	}
	ctx := plush.NewContext()
	ctx.Set("r", r)
	ctx.Set("rp", &r)
	n := vrt.Int()
	ctx.Set("n", n)
	type cs struct {
		expr string
		want string
		ok   bool
	}
	inb := func(i, l int) bool {
		if i < 0 {
			return false
		}
		return i < l
	}
	byID, hit := r.ByID[n]
	cases := []cs{
		{"r.BName", r.BName, true},
		{"r.ID", itoa(r.ID), true},
		{"r.Base.BName", r.Base.BName, true},
		{"r.Tag()", r.Tag(), true},
		{"rp.BName", r.BName, true},
		{"rp.Tag()", r.Tag(), true},
		{"r.Title", r.Title, true},
		{"r.Any.BName", r.Any.(Base).BName, true},
		{"r.Ptrs[0].Title", child.Title, true},
		{"r.Ptrs[0].BName", child.BName, true},
		{"r.Ptrs[0].Tag()", child.Tag(), true},
		{"r.Ptrs[1].Title", "", false},
		{"r.ByID[1].BName", r.ByID[1].BName, true},
		{"r.ByID[7].ID", itoa(r.ByID[7].ID), true},
		{"r.ByID[n].BName", byID.BName, hit},
		{"r.ByID[2].BName", "", false},
		{"r.Deep[\"a\"][\"b\"]", r.Deep["a"]["b"], true},
		{"r.Deep[\"c\"][\"d\"]", r.Deep["c"]["d"], true},
		{"r.Deep[\"a\"][\"d\"]", "", false},
		{"r.Lists[\"l\"][1].BName", r.Lists["l"][1].BName, true},
		{"r.Lists[\"l\"][0].Tag()", r.Lists["l"][0].Tag(), true},
		{"r.PS[1].BName", bs[1].BName, true},
		{"r.PS[n].BName", "", false},
	}
	c := cases[vrt.Choice(len(cases))]
	if c.expr == "r.PS[n].BName" {
		if inb(n, 2) {
			c.want, c.ok = bs[n].BName, true
		}
	}
	got, err := render("[<%= "+c.expr+" %>]", ctx)
	if c.ok {
		vrt.Assert(err == nil, "a path that Go can navigate renders: "+c.expr)
		vrt.Assert(got == "["+c.want+"]", "the path yields exactly the value of the same navigation in Go: "+c.expr)
	} else {
		vrt.Assert(err != nil || got == "[]", "navigation that cannot be completed: an error or empty output, never a value: "+c.expr)
	}
	vrt.Cover("done")
}

// an index or key whose type is not the container's index/key type does not
// navigate anywhere in Go; it must not silently resolve to some element
// (float -> int truncation, int -> string code point, numeric string -> int ...)
func IndexOfAnotherType() {
	im := map[int]string{1: leaf(), 2: leaf(), 65: leaf()}
	sm := map[string]string{"A": leaf(), "1": leaf(), "": leaf()}
	xs := []string{leaf(), leaf(), leaf()}
	ctx := plush.NewContext()
	ctx.Set("im", im)
	ctx.Set("sm", sm)
	ctx.Set("xs", xs)
	ctx.Set("f", 1.5)
	ctx.Set("g", 1.0)
	ctx.Set("n", 65)
	ctx.Set("one", "1")
	ctx.Set("t", true)
	ctx.Set("i8", int8(1))
	ctx.Set("u", uint(2))
	exprs := []string{
		"im[1.5]", "im[f]", "im[g]", "im[\"1\"]", "im[one]", "im[t]", "im[nil]",
		"sm[65]", "sm[n]", "sm[1]", "sm[1.0]", "sm[t]",
		"xs[1.5]", "xs[f]", "xs[\"1\"]", "xs[one]", "xs[t]",
	}
	e := exprs[vrt.Choice(len(exprs))]
	got, err := render("[<%= "+e+" %>]", ctx)
	vrt.Assert(err != nil || got == "[]", "an index of another type: an error or empty output, never some element: "+e)
	// integer kinds other than int: refused, or the element with the numerically equal index
	exprs2 := []string{"im[i8]", "xs[i8]", "im[u]", "xs[u]"}
	wants := []string{im[1], xs[1], im[2], xs[2]}
	k := vrt.Choice(len(exprs2))
	got, err = render("[<%= "+exprs2[k]+" %>]", ctx)
	vrt.Assert(err != nil || got == "[]" || got == "["+wants[k]+"]", "an index of another integer kind: refused, or the numerically equal element: "+exprs2[k])
	vrt.Cover("done")
}

// ---- maps and slices indexed with an arbitrary int where the key type is a
// narrower, an unsigned or a named integer type: the lookup is refused, or it
// yields the entry whose key is numerically equal to the index - never the
// entry an out-of-range index wraps around to
type ID int

func NarrowIntegerKeys() {
	i := vrt.Int()
	l1, l2, l3 := leaf(), leaf(), leaf()
	ctx := plush.NewContext()
	ctx.Set("i", i)
	ctx.Set("u8", map[uint8]string{1: l1, 2: l2, 255: l3})
	ctx.Set("i8", map[int8]string{1: l1, -1: l2, 127: l3})
	ctx.Set("u16", map[uint16]string{1: l1, 65535: l2, 256: l3})
	ctx.Set("i64", map[int64]string{1: l1, -1: l2, 2: l3})
	ctx.Set("u", map[uint]string{1: l1, 2: l2, 3: l3})
	ctx.Set("id", map[ID]string{1: l1, 2: l2, 3: l3})
	ctx.Set("i32", map[int32]string{1: l1, -2: l2, 3: l3})
	type cs struct {
		expr string
		hit  func(i int) (string, bool)
	}
	cases := []cs{
		{"u8[i]", func(i int) (string, bool) {
			switch i {
			case 1:
				return l1, true
			case 2:
				return l2, true
			case 255:
				return l3, true
			}
			return "", false
		}},
		{"i8[i]", func(i int) (string, bool) {
			switch i {
			case 1:
				return l1, true
			case -1:
				return l2, true
			case 127:
				return l3, true
			}
			return "", false
		}},
		{"u16[i]", func(i int) (string, bool) {
			switch i {
			case 1:
				return l1, true
			case 65535:
				return l2, true
			case 256:
				return l3, true
			}
			return "", false
		}},
		{"i64[i]", func(i int) (string, bool) {
			switch i {
			case 1:
				return l1, true
			case -1:
				return l2, true
			case 2:
				return l3, true
			}
			return "", false
		}},
		{"u[i]", func(i int) (string, bool) {
			switch i {
			case 1:
				return l1, true
			case 2:
				return l2, true
			case 3:
				return l3, true
			}
			return "", false
		}},
		{"id[i]", func(i int) (string, bool) {
			switch i {
			case 1:
				return l1, true
			case 2:
				return l2, true
			case 3:
				return l3, true
			}
			return "", false
		}},
		{"i32[i]", func(i int) (string, bool) {
			switch i {
			case 1:
				return l1, true
			case -2:
				return l2, true
			case 3:
				return l3, true
			}
			return "", false
		}},
	}
	c := cases[vrt.Choice(len(cases))]
	got, err := render("[<%= "+c.expr+" %>]", ctx)
	want, hit := c.hit(i)
	if hit {
		vrt.Assert(err != nil || got == "[]" || got == "["+want+"]", "an int index on a map with another integer key type: refused, or the numerically equal entry: "+c.expr)
	} else {
		vrt.Assert(err != nil || got == "[]", "an int index that equals no key of the map: an error or empty output, never some entry: "+c.expr)
	}
	vrt.Cover("done")
}

// ---- the same method reached through a value and through a pointer of one
// type, in both orders, in one render and across renders: a type whose pointer
// method set interleaves pointer-receiver methods (Audit, Zed) with the value
// methods (Owner, Token), so that positions in the two method tables differ
type Acct struct {
	O, T, A, Z string
}

func (a *Acct) Audit() string { return a.A }
func (a Acct) Owner() string  { return a.O }
func (a Acct) Token() string  { return a.T }
func (a *Acct) Zed() string   { return a.Z }

func ReceiverForms() {
	v := Acct{O: leaf(), T: leaf(), A: leaf(), Z: leaf()}
	w := Acct{O: leaf(), T: leaf(), A: leaf(), Z: leaf()}
	ctx := plush.NewContext()
	ctx.Set("v", v)
	ctx.Set("p", &w)
	ctx.Set("mixed", []interface{}{&w, v, &w})
	type cs struct{ in, want string }
	cases := []cs{
		{"<%= p.Owner() %>|<%= v.Owner() %>", w.O + "|" + v.O},
		{"<%= v.Owner() %>|<%= p.Owner() %>", v.O + "|" + w.O},
		{"<%= p.Token() %>|<%= v.Token() %>|<%= p.Owner() %>", w.T + "|" + v.T + "|" + w.O},
		{"<%= p.Audit() %>|<%= p.Token() %>|<%= v.Token() %>|<%= v.Owner() %>", w.A + "|" + w.T + "|" + v.T + "|" + v.O},
		{"<%= p.Zed() %>|<%= v.Token() %>|<%= p.Token() %>", w.Z + "|" + v.T + "|" + w.T},
		{"<%= for (a) in mixed { %><%= a.Owner() %>,<% } %>", w.O + "," + v.O + "," + w.O + ","},
		{"<%= for (a) in mixed { %><%= a.Token() %>,<% } %>", w.T + "," + v.T + "," + w.T + ","},
		{"<%= v.Token() %>|<%= v.Audit() %>", v.T + "|" + v.A}, // a pointer method on a value: plush calls it on a copy
	}
	c := cases[vrt.Choice(len(cases))]
	// optionally an earlier render that resolves the methods through the other form first
	switch vrt.Choice(3) {
	case 1:
		plush.Render("<%= p.Owner() %><%= p.Token() %>", ctx)
	case 2:
		plush.Render("<%= v.Owner() %><%= v.Token() %>", ctx)
	}
	got, err := render(c.in, ctx)
	vrt.Assert(err == nil, "a method reachable in Go renders through a value and through a pointer: "+c.in)
	vrt.Assert(got == c.want, "each call runs the method it names on the receiver it names: "+c.in)
	vrt.Cover("done")
}

// ---- the same field / key name on consecutive levels of a path, up to five
// levels deep, through slices and maps, ending in a field, a method or an
// index: every level must resolve against the element reached so far, never
// against an outer level of the same name
type Nd struct {
	Name string
	Kids []Nd
	Sub  map[string]Nd
	Grid [][]string // cells named after the node and their position
}

func (n Nd) Get() string { return n.Name }

// every node is named after its own position in the tree, so no two nodes
// print alike (121 nodes: concrete names keep the solver out of it)
func mkNd(name string, depth int) Nd {
	n := Nd{Name: name}
	n.Grid = [][]string{{name + ".g00", name + ".g01"}, {name + ".g10", name + ".g11"}}
	if depth > 0 {
		n.Kids = []Nd{mkNd(name+"0", depth-1), mkNd(name+"1", depth-1)}
		n.Sub = map[string]Nd{"k": mkNd(name+"k", depth-1)}
	}
	return n
}

func RepeatedNames() {
	r := mkNd("n", 4)
	ctx := plush.NewContext()
	ctx.Set("x", []Nd{r})
	ctx.Set("r", r)
	ctx.Set("tree", map[string]Nd{"r": r})
	// a context variable named like the field: a collection like the field itself, or one element
	if vrt.Choice(2) == 0 {
		ctx.Set("Kids", []Nd{mkNd("outer0", 2), mkNd("outer1", 2)})
	} else {
		ctx.Set("Kids", mkNd("outer", 2))
	}
	type cs struct {
		expr string
		want string
	}
	cases := []cs{
		{"x[0].Kids[1].Name", r.Kids[1].Name},
		{"x[0].Kids[1].Kids[0].Name", r.Kids[1].Kids[0].Name},
		{"x[0].Kids[1].Kids[0].Kids[1].Name", r.Kids[1].Kids[0].Kids[1].Name},
		{"x[0].Kids[1].Kids[0].Kids[1].Kids[0].Name", r.Kids[1].Kids[0].Kids[1].Kids[0].Name},
		{"x[0].Kids[0].Kids[0].Kids[0].Name", r.Kids[0].Kids[0].Kids[0].Name},
		{"r.Kids[1].Kids[0].Kids[1].Name", r.Kids[1].Kids[0].Kids[1].Name},
		{"r.Kids[0].Kids[1].Kids[0].Kids[1].Name", r.Kids[0].Kids[1].Kids[0].Kids[1].Name},
		{"x[0].Kids[1].Kids[0].Kids[1].Get()", r.Kids[1].Kids[0].Kids[1].Get()},
		{"tree[\"r\"].Sub[\"k\"].Sub[\"k\"].Sub[\"k\"].Name", r.Sub["k"].Sub["k"].Sub["k"].Name},
		{"tree[\"r\"].Sub[\"k\"].Kids[1].Sub[\"k\"].Kids[0].Name", r.Sub["k"].Kids[1].Sub["k"].Kids[0].Name},
		{"x[0].Kids[1].Sub[\"k\"].Kids[0].Name", r.Kids[1].Sub["k"].Kids[0].Name},
		{"r.Sub[\"k\"].Sub[\"k\"].Kids[1].Name", r.Sub["k"].Sub["k"].Kids[1].Name},
	}
	// a member indexed twice after an index: plush may refuse the form (a syntax error is
	// a failure, which the property allows), but what it yields is that cell
	ctx.Set("Grid", [][]string{{"outer", "outer"}, {"outer", "outer"}})
	twoD := []cs{
		{"x[0].Grid[1][0]", r.Grid[1][0]},
		{"x[0].Kids[1].Grid[1][0]", r.Kids[1].Grid[1][0]},
		{"x[0].Kids[1].Kids[0].Grid[0][1]", r.Kids[1].Kids[0].Grid[0][1]},
		{"x[0].Kids[1].Kids[0].Kids[1].Grid[1][1]", r.Kids[1].Kids[0].Kids[1].Grid[1][1]},
		{"tree[\"r\"].Sub[\"k\"].Sub[\"k\"].Grid[0][1]", r.Sub["k"].Sub["k"].Grid[0][1]},
		{"r.Kids[1].Kids[0].Grid[1][0]", r.Kids[1].Kids[0].Grid[1][0]},
		{"r.Grid[1][0]", r.Grid[1][0]},
	}
	k := vrt.Choice(len(cases) + len(twoD))
	if k >= len(cases) {
		c := twoD[k-len(cases)]
		got, err := render("<%= "+c.expr+" %>", ctx)
		vrt.Assert(err != nil || got == c.want, "a member indexed twice is that cell of the element reached so far, or a failure: "+c.expr)
		vrt.Cover("done")
		return
	}
	c := cases[k]
	got, err := render("<%= "+c.expr+" %>", ctx)
	vrt.Assert(err == nil, "a path with a repeated field name renders: "+c.expr)
	vrt.Assert(got == c.want, "every level of a path resolves against the element reached so far: "+c.expr)
	vrt.Cover("done")
}

// ---- a method with a pointer receiver, reached through a pointer field, runs on the
// object the field points to (as h.P.Inc() does in Go), not on a copy of it
type counterP struct{ N int }

func (c *counterP) Inc() int { c.N++; return c.N }
func (c *counterP) Get() int { return c.N }

type holderP struct {
	P    *counterP
	Next *holderP
	PP   **counterP
}

func MethodsOnPointees() {
	n := vrt.Int()
	vrt.Assume(n < 1<<62)
	inner := &holderP{P: &counterP{N: n}}
	h := &holderP{P: &counterP{N: n}, Next: inner}
	ctx := plush.NewContext()
	ctx.Set("h", h)
	ctx.Set("hv", *h)
	ctx.Set("hs", []*holderP{h})
	ctx.Set("m", map[string]*holderP{"k": h})
	h.PP = &h.P
	cases := []struct {
		in   string
		obj  *counterP
		want string
	}{
		{"<%= h.P.Inc() %>,<%= h.P.Inc() %>,<%= h.P.Get() %>,<%= h.P.N %>", h.P, itoa(n+1) + "," + itoa(n+2) + "," + itoa(n+2) + "," + itoa(n+2)},
		{"<%= hv.P.Inc() %>,<%= hv.P.Inc() %>", h.P, itoa(n+1) + "," + itoa(n+2)},
		{"<%= h.Next.P.Inc() %>,<%= h.Next.P.Inc() %>,<%= h.Next.P.N %>", inner.P, itoa(n+1) + "," + itoa(n+2) + "," + itoa(n+2)},
		{"<%= hs[0].P.Inc() %>,<%= hs[0].P.Inc() %>", h.P, itoa(n+1) + "," + itoa(n+2)},
		{"<%= m[\"k\"].P.Inc() %>,<%= h.P.Inc() %>", h.P, itoa(n+1) + "," + itoa(n+2)},
		{"<%= for (i) in [1, 2] { %><%= h.P.Inc() %>,<% } %>", h.P, itoa(n+1) + "," + itoa(n+2) + ","},
		{"<%= h.PP.Inc() %>,<%= h.PP.Inc() %>", h.P, itoa(n+1) + "," + itoa(n+2)}, // a pointer to a pointer
	}
	c := cases[vrt.Choice(len(cases))]
	got, err := render(c.in, ctx)
	vrt.Assert(err == nil, "a pointer-receiver method reached through a pointer field is callable")
	vrt.Assert(got == c.want, "the method runs on the object the path leads to: every call sees what the earlier ones did")
	vrt.Assert(c.obj.N == n+2, "the object the path leads to is the one the method ran on")
	vrt.Cover("done")
}

// ---- the same object reached through a name: let p = h.P, a parameter, a loop
// variable. plush hands a pointer field on as a COPY of what it points to (only
// the receiver of a method call keeps the pointer, e4fe5fb), so p.Inc() runs on
// the copy: every call sees the initial state and the object is unchanged. A
// recorded finding (known_findings.json, DESIGN.md 6.2): the first assertion
// bounds what is tolerated to exactly that, the second states the property.
func PointeeBoundToAName() {
	n := vrt.Int()
	vrt.Assume(n < 1<<62)
	h := &holderP{P: &counterP{N: n}}
	ctx := plush.NewContext()
	ctx.Set("h", h)
	var in string
	switch vrt.Choice(3) {
	case 0:
		in = "<% let p = h.P %><%= p.Inc() %>,<%= p.Inc() %>,<%= h.P.N %>"
	case 1:
		in = "<% let f = fn(p) { return p.Inc() } %><%= f(h.P) %>,<%= f(h.P) %>,<%= h.P.N %>"
	default:
		in = "<% let p = h.P %><%= for (i) in [1, 2] { %><%= p.Inc() %>,<% } %><%= h.P.N %>"
	}
	got, err := render(in, ctx)
	vrt.Assert(err == nil, "a pointer-receiver method called through a name bound to a pointer field renders")
	want := itoa(n+1) + "," + itoa(n+2) + "," + itoa(n+2)
	plushNow := itoa(n+1) + "," + itoa(n+1) + "," + itoa(n)
	vrt.Assert(got == want || got == plushNow, "the calls run on the object (Go) or each on a copy of it (plush); nothing else")
	vrt.Assert(got == want, "a method reached through a name bound to a pointer field runs on the object the field points to")
	vrt.Cover("done")
}
