// Package c12: Go helpers receive exactly the supplied arguments, in order, or are not called.
package c12

import (
	"errors"
	"html/template"
	"strconv"
	"strings"

	plush "github.com/gobuffalo/plush/v5"
	"github.com/gobuffalo/plush/v5/helpers/hctx"

	"verifharness/vrt"
)

func init() {
	vrt.Register("C12_fixed", Fixed)
	vrt.Register("C12_auto_supplied", AutoSupplied)
	vrt.Register("C12_variadic", Variadic)
	vrt.Register("C12_callee_expressions", CalleeExpressions)
	vrt.Register("C12_rejected", Rejected)
	vrt.Register("C12_results", Results)
	vrt.Register("C12_evaluation_order", EvaluationOrder)
	vrt.Register("C12_nested_calls", NestedCalls)
	vrt.Register("C12_error_result_positions", ErrorResultPositions)
	vrt.Register("C12_fresh_options_per_call", FreshOptionsPerCall)
	vrt.Register("C12_chained_calls", ChainedCalls)
	vrt.Register("C12_receiver_arguments", ReceiverArguments)
	vrt.Register("C12_stored_block_as_argument", StoredBlockAsArgument)
}

func itoa(n int) string { return strconv.Itoa(n) }

func b2s(b bool) string {
	if b {
		return "true"
	}
	return "false"
}

// rec records every helper invocation with the arguments it received.
type rec struct{ log []string }

func (r *rec) fnone() string { r.log = append(r.log, "fnone()"); return "rnone" }
func (r *rec) fint(n int) string {
	r.log = append(r.log, "fint("+itoa(n)+")")
	return "rint"
}
func (r *rec) fstr(s string) string {
	r.log = append(r.log, "fstr("+s+")")
	return "rstr"
}
func (r *rec) fany(v interface{}) string {
	r.log = append(r.log, "fany("+show(v)+")")
	return "rany"
}
func (r *rec) ftri(n int, s string, b bool) string {
	r.log = append(r.log, "ftri("+itoa(n)+","+s+","+b2s(b)+")")
	return "rtri"
}
func (r *rec) fpair(a, b string) string {
	r.log = append(r.log, "fpair("+a+","+b+")")
	return a + "|" + b
}
func (r *rec) fidstr(s string) string {
	r.log = append(r.log, "fidstr("+s+")")
	return s
}
func (r *rec) fhtml(h template.HTML) string {
	r.log = append(r.log, "fhtml("+string(h)+")")
	return "rhtml"
}
func (r *rec) fp(p *rec, m map[string]int, xs []int) string {
	r.log = append(r.log, "fp("+b2s(p == nil)+","+b2s(m == nil)+","+b2s(xs == nil)+")")
	return "rp"
}
func (r *rec) fm(n int, m map[string]interface{}) string {
	r.log = append(r.log, "fm("+itoa(n)+","+showMap(m)+")")
	return "rm"
}
func (r *rec) fh(n int, help plush.HelperContext) (string, error) {
	s := "noblock"
	if help.HasBlock() {
		b, err := help.Block()
		if err != nil {
			return "", err
		}
		s = "block:" + b
	}
	r.log = append(r.log, "fh("+itoa(n)+","+s+")")
	return "rh", nil
}
func (r *rec) fhi(n int, help hctx.HelperContext) (string, error) {
	s := "noblock"
	if help.HasBlock() {
		b, err := help.Block()
		if err != nil {
			return "", err
		}
		s = "block:" + b
	}
	r.log = append(r.log, "fhi("+itoa(n)+","+s+")")
	return "rhi", nil
}
func (r *rec) fmh(n int, m map[string]interface{}, help plush.HelperContext) string {
	s := "noblock"
	if help.HasBlock() {
		b, _ := help.Block()
		s = "block:" + b
	}
	r.log = append(r.log, "fmh("+itoa(n)+","+showMap(m)+","+s+")")
	return "rmh"
}
func (r *rec) fv(ns ...int) string {
	s := "fv("
	for i, n := range ns {
		if i > 0 {
			s += ","
		}
		s += itoa(n)
	}
	r.log = append(r.log, s+")")
	return "rv"
}
func (r *rec) fsv(s string, rest ...string) string {
	r.log = append(r.log, "fsv("+s+";"+strings.Join(rest, ",")+")")
	return "rsv"
}
func (r *rec) fiv(rest ...interface{}) string {
	s := "fiv("
	for i, v := range rest {
		if i > 0 {
			s += ","
		}
		s += show(v)
	}
	r.log = append(r.log, s+")")
	return "riv"
}

func show(v interface{}) string {
	switch x := v.(type) {
	case nil:
		return "nil"
	case int:
		return "int:" + itoa(x)
	case string:
		return "string:" + x
	case bool:
		return "bool:" + b2s(x)
	case []interface{}:
		out := "list["
		for i, e := range x {
			if i > 0 {
				out += " "
			}
			out += show(e)
		}
		return out + "]"
	case []int:
		return "ints:" + itoa(len(x))
	}
	return "other"
}

func showMap(m map[string]interface{}) string {
	if m == nil {
		return "nilmap"
	}
	if len(m) == 0 {
		return "{}"
	}
	if v, ok := m["k"]; ok {
		if len(m) == 1 {
			return "{k:" + show(v) + "}"
		}
	}
	return "{...}"
}

const alpha = "abcxyz"

func ctxWith(r *rec) *plush.Context {
	ctx := plush.NewContext()
	ctx.Set("fnone", r.fnone)
	ctx.Set("fint", r.fint)
	ctx.Set("fstr", r.fstr)
	ctx.Set("fany", r.fany)
	ctx.Set("ftri", r.ftri)
	ctx.Set("fp", r.fp)
	ctx.Set("fpair", r.fpair)
	ctx.Set("fidstr", r.fidstr)
	ctx.Set("fhtml", r.fhtml)
	ctx.Set("fm", r.fm)
	ctx.Set("fh", r.fh)
	ctx.Set("fhi", r.fhi)
	ctx.Set("fmh", r.fmh)
	ctx.Set("fv", r.fv)
	ctx.Set("fsv", r.fsv)
	ctx.Set("fiv", r.fiv)
	return ctx
}

func render(in string, ctx *plush.Context) (string, error) {
	vrt.Note("input", in)
	out, err := plush.Render(in, ctx)
	vrt.Note("got", out)
	return out, err
}

// expectCall: the helper ran exactly once with exactly this record, and its
// first result is the value of the call.
func expectCall(r *rec, out string, err error, wantLog, wantOut string) {
	vrt.Assert(err == nil, "a well-formed helper call renders")
	vrt.Assert(len(r.log) == 1, "the helper is invoked exactly once")
	vrt.Assert(r.log[0] == wantLog, "the helper receives exactly the supplied arguments, positionally, values unchanged")
	vrt.Assert(out == "["+wantOut+"]", "the first result is the value of the call")
}

// fixed parameters: values arrive unchanged, nil becomes the zero value
func Fixed() {
	r := &rec{}
	ctx := ctxWith(r)
	n := vrt.Int()
	s := vrt.BytesIn(vrt.IntRange(0, 2), alpha)
	b := vrt.Bool()
	ctx.Set("n", n)
	ctx.Set("s", s)
	ctx.Set("b", b)
	var in, wantLog, wantOut string
	switch vrt.Choice(13) {
	case 0:
		in, wantLog, wantOut = "fnone()", "fnone()", "rnone"
	case 1:
		in, wantLog, wantOut = "fint(n)", "fint("+itoa(n)+")", "rint"
	case 2:
		in, wantLog, wantOut = "fstr(s)", "fstr("+s+")", "rstr"
	case 3:
		in, wantLog, wantOut = "fany(n)", "fany(int:"+itoa(n)+")", "rany"
	case 4:
		in, wantLog, wantOut = "fany(s)", "fany(string:"+s+")", "rany"
	case 5:
		in, wantLog, wantOut = "fany(b)", "fany(bool:"+b2s(b)+")", "rany"
	case 6:
		in, wantLog, wantOut = "fany(nil)", "fany(nil)", "rany"
	case 7:
		in, wantLog, wantOut = "ftri(n, s, b)", "ftri("+itoa(n)+","+s+","+b2s(b)+")", "rtri"
	case 8:
		in, wantLog, wantOut = "ftri(nil, nil, nil)", "ftri(0,,false)", "rtri"
	case 9:
		in, wantLog, wantOut = "ftri(7, \"lit\", true)", "ftri(7,lit,true)", "rtri"
	case 10:
		in, wantLog, wantOut = "fint(nil)", "fint(0)", "rint"
	case 11:
		in, wantLog, wantOut = "fp(nil, nil, nil)", "fp(true,true,true)", "rp"
	default:
		in, wantLog, wantOut = "ftri(n + 1, s + \"q\", !b)", "ftri("+itoa(n+1)+","+s+"q,"+b2s(!b)+")", "rtri"
	}
	out, err := render("[<%= "+in+" %>]", ctx)
	expectCall(r, out, err, wantLog, wantOut)
	vrt.Cover("done")
}

// omitted trailing options map and/or helper context are supplied automatically;
// the helper context carries the call's block
func AutoSupplied() {
	r := &rec{}
	ctx := ctxWith(r)
	n := vrt.Int()
	v := vrt.Int()
	ctx.Set("n", n)
	ctx.Set("v", v)
	var in, wantLog, wantOut string
	switch vrt.Choice(11) {
	case 0:
		in, wantLog, wantOut = "fm(n)", "fm("+itoa(n)+",{})", "rm"
	case 1:
		in, wantLog, wantOut = "fm(n, {k: v})", "fm("+itoa(n)+",{k:int:"+itoa(v)+"})", "rm"
	case 2:
		in, wantLog, wantOut = "fh(n)", "fh("+itoa(n)+",noblock)", "rh"
	case 3:
		in, wantLog, wantOut = "fh(n) { %>B<%= v %><% }", "fh("+itoa(n)+",block:B"+itoa(v)+")", "rh"
	case 4:
		in, wantLog, wantOut = "fhi(n)", "fhi("+itoa(n)+",noblock)", "rhi"
	case 5:
		in, wantLog, wantOut = "fhi(n) { %>B<%= v %><% }", "fhi("+itoa(n)+",block:B"+itoa(v)+")", "rhi"
	case 6:
		in, wantLog, wantOut = "fmh(n)", "fmh("+itoa(n)+",{},noblock)", "rmh"
	case 7:
		in, wantLog, wantOut = "fmh(n, {k: v})", "fmh("+itoa(n)+",{k:int:"+itoa(v)+"},noblock)", "rmh"
	case 8:
		in, wantLog, wantOut = "fmh(n) { %>B<% }", "fmh("+itoa(n)+",{},block:B)", "rmh"
	case 9:
		in, wantLog, wantOut = "fmh(n, {k: v}) { %>B<% }", "fmh("+itoa(n)+",{k:int:"+itoa(v)+"},block:B)", "rmh"
	default:
		in, wantLog, wantOut = "fm(n, nil)", "fm("+itoa(n)+",nilmap)", "rm"
	}
	out, err := render("[<%= "+in+" %>]", ctx)
	expectCall(r, out, err, wantLog, wantOut)
	vrt.Cover("done")
}

// variadic parameters receive all remaining arguments
func Variadic() {
	r := &rec{}
	ctx := ctxWith(r)
	a, b, c := vrt.Int(), vrt.Int(), vrt.Int()
	s, t := vrt.BytesIn(1, alpha), vrt.BytesIn(1, alpha)
	ctx.Set("a", a)
	ctx.Set("b", b)
	ctx.Set("c", c)
	ctx.Set("s", s)
	ctx.Set("t", t)
	var in, wantLog, wantOut string
	ctx.Set("lst", []interface{}{a, s})
	ctx.Set("ns", []int{a, b})
	switch vrt.Choice(18) {
	case 12: // a lone slice in the variadic position is ONE argument, not the argument list
		in, wantLog, wantOut = "fiv([a, s, true])", "fiv(list[int:"+itoa(a)+" string:"+s+" bool:true])", "riv"
	case 13:
		in, wantLog, wantOut = "fiv([])", "fiv(list[])", "riv"
	case 14:
		in, wantLog, wantOut = "fiv(lst)", "fiv(list[int:"+itoa(a)+" string:"+s+"])", "riv"
	case 15:
		in, wantLog, wantOut = "fiv(ns)", "fiv(ints:2)", "riv"
	case 16:
		in, wantLog, wantOut = "fiv(lst, lst)", "fiv(list[int:"+itoa(a)+" string:"+s+"],list[int:"+itoa(a)+" string:"+s+"])", "riv"
	case 17:
		in, wantLog, wantOut = "fiv([a])", "fiv(list[int:"+itoa(a)+"])", "riv"
	case 0:
		in, wantLog, wantOut = "fv()", "fv()", "rv"
	case 1:
		in, wantLog, wantOut = "fv(a)", "fv("+itoa(a)+")", "rv"
	case 2:
		in, wantLog, wantOut = "fv(a, b, c)", "fv("+itoa(a)+","+itoa(b)+","+itoa(c)+")", "rv"
	case 3:
		in, wantLog, wantOut = "fv(c, b, a, a)", "fv("+itoa(c)+","+itoa(b)+","+itoa(a)+","+itoa(a)+")", "rv"
	case 4:
		in, wantLog, wantOut = "fsv(s)", "fsv("+s+";)", "rsv"
	case 5:
		in, wantLog, wantOut = "fsv(s, t)", "fsv("+s+";"+t+")", "rsv"
	case 6:
		in, wantLog, wantOut = "fsv(s, t, s)", "fsv("+s+";"+t+","+s+")", "rsv"
	case 7:
		in, wantLog, wantOut = "fiv()", "fiv()", "riv"
	case 8:
		in, wantLog, wantOut = "fiv(a, s, true)", "fiv(int:"+itoa(a)+",string:"+s+",bool:true)", "riv"
	case 9:
		in, wantLog, wantOut = "fiv(nil)", "fiv(nil)", "riv"
	case 10:
		in, wantLog, wantOut = "fiv(a, nil, s)", "fiv(int:"+itoa(a)+",nil,string:"+s+")", "riv"
	default:
		in, wantLog, wantOut = "fv(a, nil)", "fv("+itoa(a)+",0)", "rv"
	}
	out, err := render("[<%= "+in+" %>]", ctx)
	expectCall(r, out, err, wantLog, wantOut)
	vrt.Cover("done")
}

// too many arguments / an argument not assignable to its parameter: an error
// that names the call, and the function is not invoked
func Rejected() {
	r := &rec{}
	ctx := ctxWith(r)
	ctx.Set("n", vrt.Int())
	ctx.Set("s", vrt.BytesIn(1, alpha))
	type rc struct{ call, name string }
	cases := []rc{
		{"fnone(n)", "fnone"}, {"fint(n, n)", "fint"}, {"fint(s)", "fint"}, {"fstr(n)", "fstr"}, {"ftri(n, n, true)", "ftri"}, {"ftri(n, s, s)", "ftri"},
		{"ftri(n, s, true, n)", "ftri"}, {"fm(n, s)", "fm"}, {"fm(n, {k: 1}, n)", "fm"}, {"fh(n, n)", "fh"}, {"fhi(n, s)", "fhi"},
		{"fmh(n, n)", "fmh"}, {"fmh(n, {k: 1}, n)", "fmh"}, {"fv(s)", "fv"}, {"fv(n, s)", "fv"}, {"fsv(n)", "fsv"}, {"fsv(s, n)", "fsv"},
		{"fint(1.5)", "fint"}, {"fint(true)", "fint"}, {"fint([1])", "fint"}, {"fp(n, nil, nil)", "fp"},
		// an argument that is not there is not made up: only a trailing options map and / or helper context is supplied
		{"fint()", "fint"}, {"fstr()", "fstr"}, {"ftri(n)", "ftri"}, {"ftri(n, s)", "ftri"}, {"ftri()", "ftri"}, {"fh()", "fh"}, {"fmh()", "fmh"}, {"fhi()", "fhi"},
	}
	c := cases[vrt.Choice(len(cases))]
	out, err := render("[<%= "+c.call+" %>]", ctx)
	vrt.Assert(err != nil, "too many arguments / a missing argument / an unassignable argument is an error: "+c.call)
	vrt.Assert(len(r.log) == 0, "the function is not invoked when its arguments are rejected: "+c.call)
	vrt.Assert(out == "", "an error comes with empty output")
	if err != nil {
		vrt.Assert(strings.Contains(err.Error(), c.name), "the error names the call: "+c.call)
	}
	vrt.Cover("done")
}

var errBoom = errors.New("boom")

type res struct{ ran int }

func (r *res) none()                     { r.ran++ }
func (r *res) one(n int) int             { r.ran++; return n + 1 }
func (r *res) two(n int) (int, error)    { r.ran++; return n + 2, nil }
func (r *res) twoErr(n int) (int, error) { r.ran++; return n + 2, errBoom }
func (r *res) onlyErr(fail bool) error {
	r.ran++
	if fail {
		return errBoom
	}
	return nil
}

// result shapes (), (T), (T, error), (error)
func Results() {
	r := &res{}
	ctx := plush.NewContext()
	ctx.Set("none", r.none)
	ctx.Set("one", r.one)
	ctx.Set("two", r.two)
	ctx.Set("twoErr", r.twoErr)
	ctx.Set("onlyErr", r.onlyErr)
	n := vrt.Int()
	fail := vrt.Bool()
	ctx.Set("n", n)
	ctx.Set("fail", fail)
	switch vrt.Choice(5) {
	case 0:
		out, err := render("[<%= none() %>]", ctx)
		vrt.Assert(err == nil && out == "[]", "a helper without results yields nothing")
	case 1:
		out, err := render("[<%= one(n) %>]", ctx)
		vrt.Assert(err == nil && out == "["+itoa(n+1)+"]", "(T): the result is the value")
	case 2:
		out, err := render("[<%= two(n) %>]", ctx)
		vrt.Assert(err == nil && out == "["+itoa(n+2)+"]", "(T, nil): the first result is the value")
	case 3:
		out, err := render("[<%= twoErr(n) %>]", ctx)
		vrt.Assert(err != nil, "(T, error): a non-nil error result fails the render")
		vrt.Assert(errors.Is(err, errBoom), "the helper's error is wrapped")
		vrt.Assert(out == "", "an error comes with empty output")
	default:
		out, err := render("[<%= onlyErr(fail) %>]", ctx)
		if fail {
			vrt.Assert(err != nil, "(error): a non-nil error result fails the render")
			vrt.Assert(out == "", "an error comes with empty output")
		} else {
			vrt.Assert(err == nil, "(error): a nil error result does not fail the render")
		}
	}
	vrt.Assert(r.ran == 1, "the helper is invoked exactly once")
	vrt.Cover("done")
}

type order struct{ log []int }

func (o *order) arg(i int) int { o.log = append(o.log, i); return i * 10 }

// each supplied argument is evaluated once, left to right
func EvaluationOrder() {
	o := &order{}
	r := &rec{}
	ctx := ctxWith(r)
	ctx.Set("arg", o.arg)
	var in, wantLog string
	k := 0
	switch vrt.Choice(4) {
	case 0:
		in, wantLog, k = "fv(arg(0), arg(1), arg(2))", "fv(0,10,20)", 3
	case 1:
		in, wantLog, k = "ftri(arg(0), \"s\", arg(1) == 10)", "ftri(0,s,true)", 2
	case 2:
		in, wantLog, k = "fiv(arg(0), arg(1))", "fiv(int:0,int:10)", 2
	default:
		in, wantLog, k = "fmh(arg(0), {k: arg(1)}) { %><%= arg(2) %><% }", "fmh(0,{k:int:10},block:20)", 3
	}
	_, err := render("[<%= "+in+" %>]", ctx)
	vrt.Assert(err == nil, "a call with argument expressions renders")
	vrt.Assert(len(r.log) == 1, "the helper is invoked exactly once")
	vrt.Assert(r.log[0] == wantLog, "arguments arrive in order")
	vrt.Assert(len(o.log) == k, "each argument expression is evaluated exactly once")
	for i := 0; i < len(o.log); i++ {
		vrt.Assert(o.log[i] == i, "arguments are evaluated left to right")
	}
	vrt.Cover("done")
}

// Go calls as arguments of Go calls, in any position, after earlier calls of the same render
func NestedCalls() {
	r := &rec{}
	ctx := ctxWith(r)
	a, b, c := vrt.BytesIn(1, alpha), vrt.BytesIn(1, alpha), vrt.BytesIn(1, alpha)
	n := vrt.Int()
	ctx.Set("a", a)
	ctx.Set("b", b)
	ctx.Set("c", c)
	ctx.Set("n", n)
	var in, want string
	var wantLog []string
	switch vrt.Choice(6) {
	case 0:
		in = "<%= fpair(a, b) %>;<%= fpair(a, fidstr(b)) %>"
		want = a + "|" + b + ";" + a + "|" + b
		wantLog = []string{"fpair(" + a + "," + b + ")", "fidstr(" + b + ")", "fpair(" + a + "," + b + ")"}
	case 1:
		in = "<%= ftri(n, a, true) %>;<%= fpair(fidstr(a), fidstr(b)) %>"
		want = "rtri;" + a + "|" + b
		wantLog = []string{"ftri(" + itoa(n) + "," + a + ",true)", "fidstr(" + a + ")", "fidstr(" + b + ")", "fpair(" + a + "," + b + ")"}
	case 2:
		in = "<%= for (x) in [a, b] { %><%= fpair(c, fidstr(x)) %>;<% } %>"
		want = c + "|" + a + ";" + c + "|" + b + ";"
		wantLog = []string{"fidstr(" + a + ")", "fpair(" + c + "," + a + ")", "fidstr(" + b + ")", "fpair(" + c + "," + b + ")"}
	case 3:
		in = "<%= fpair(a, fpair(b, fidstr(c))) %>"
		want = a + "|" + b + "|" + c
		wantLog = []string{"fidstr(" + c + ")", "fpair(" + b + "," + c + ")", "fpair(" + a + "," + b + "|" + c + ")"}
	case 4:
		in = "<%= fmh(n, {k: 1}) %>;<%= fpair(a, fidstr(b)) { %>blk<% } %>"
		want = "rmh;" + a + "|" + b
		wantLog = []string{"fmh(" + itoa(n) + ",{k:int:1},noblock)", "fidstr(" + b + ")", "fpair(" + a + "," + b + ")"}
	default:
		in = "<%= fv(1, 2, 3) %>;<%= fsv(a, fidstr(b), fidstr(c)) %>"
		want = "rv;rsv"
		wantLog = []string{"fv(1,2,3)", "fidstr(" + b + ")", "fidstr(" + c + ")", "fsv(" + a + ";" + b + "," + c + ")"}
	}
	out, err := render(in, ctx)
	vrt.Assert(err == nil, "nested helper calls render")
	vrt.Assert(out == want, "nested helper calls: every call yields its own result")
	vrt.Assert(len(r.log) == len(wantLog), "every helper is invoked exactly once per call")
	for i := 0; i < len(wantLog); i++ {
		if i < len(r.log) {
			vrt.Assert(r.log[i] == wantLog[i], "each helper receives exactly its own arguments, inner calls first")
		}
	}
	vrt.Cover("done")
}

type errHelpers struct{ ran int }

func (e *errHelpers) plain() (string, error) { e.ran++; return "", errBoom }
func (e *errHelpers) wrapsUnknown() (string, error) {
	e.ran++
	return "", errors.Join(errBoom, &plush.ErrUnknownIdentifier{ID: "inner"})
}
func (e *errHelpers) isUnknown() (string, error) {
	e.ran++
	return "", &plush.ErrUnknownIdentifier{ID: "inner"}
}
func (e *errHelpers) renders(help plush.HelperContext) (string, error) {
	e.ran++
	return help.Render("<%= undefinedName %>")
}

// a non-nil trailing error result fails the render wherever the call is written,
// also where an unknown *identifier* would be tolerated
func ErrorResultPositions() {
	h := &errHelpers{}
	ctx := plush.NewContext()
	ctx.Set("plain", h.plain)
	ctx.Set("wrapsUnknown", h.wrapsUnknown)
	ctx.Set("renders", h.renders)
	calls := []string{"plain()", "wrapsUnknown()", "renders()"}
	c := calls[vrt.Choice(len(calls))]
	pos := []string{
		"<%= X %>", "<%= if (X) { %>a<% } else { %>b<% } %>", "<%= if (false) { %>a<% } else if (X) { %>b<% } %>",
		"<%= !X %>", "<%= X == nil %>", "<%= nil != X %>", "<%= X && true %>", "<%= false || X %>", "<% let z = X %>",
	}
	in := ""
	tpl := pos[vrt.Choice(len(pos))]
	for i := 0; i < len(tpl); i++ {
		if tpl[i] == 'X' {
			in += c
		} else {
			in += tpl[i : i+1]
		}
	}
	out, err := render(in, ctx)
	vrt.Assert(h.ran == 1, "the helper is invoked exactly once")
	vrt.Assert(err != nil, "a non-nil trailing error result fails the render: "+c)
	vrt.Assert(out == "", "an error comes with empty output")
	vrt.Cover("done")
}

// fdef writes defaults into the options it was given, as tag helpers do
func (r *rec) fdef(n int, m map[string]interface{}) string {
	r.log = append(r.log, "fdef("+itoa(n)+","+showMap(m)+")")
	if m != nil {
		m["class"] = n
		m["k"] = "default"
	}
	return "rd"
}

// the automatically supplied options map is a fresh empty map for every call:
// what one call wrote into it is not seen by the next call, in the same render
// or a later one, of the same helper or another
func FreshOptionsPerCall() {
	r := &rec{}
	ctx := ctxWith(r)
	ctx.Set("fdef", r.fdef)
	n, v := vrt.Int(), vrt.Int()
	ctx.Set("n", n)
	ctx.Set("v", v)
	seqs := []struct{ in, log string }{
		{"<%= fdef(n) %><%= fdef(v) %>", "fdef(" + itoa(n) + ",{});fdef(" + itoa(v) + ",{})"},
		{"<%= fdef(n) %><%= fm(v) %>", "fdef(" + itoa(n) + ",{});fm(" + itoa(v) + ",{})"},
		{"<%= fdef(n) %><%= fmh(v) %>", "fdef(" + itoa(n) + ",{});fmh(" + itoa(v) + ",{},noblock)"},
		{"<%= fdef(n, {k: v}) %><%= fdef(v) %>", "fdef(" + itoa(n) + ",{k:int:" + itoa(v) + "});fdef(" + itoa(v) + ",{})"},
		{"<%= for (i) in [1, 2] { %><%= fdef(n) %><% } %>", "fdef(" + itoa(n) + ",{});fdef(" + itoa(n) + ",{})"},
	}
	s := seqs[vrt.Choice(len(seqs))]
	_, err := render(s.in, ctx)
	vrt.Assert(err == nil, "the calls render")
	vrt.Assert(strings.Join(r.log, ";") == s.log, "every call without options receives a fresh empty map")
	// and in a later render
	r.log = nil
	_, err = render("<%= fm(n) %>", ctx)
	vrt.Assert(err == nil, "the later call renders")
	vrt.Assert(strings.Join(r.log, ";") == "fm("+itoa(n)+",{})", "a later render receives a fresh empty map too")
	vrt.Cover("done")
}

// a chain head(args).Method(args) { block }: each call gets its own arguments and
// its own helper context; the block belongs to the call it follows, the head's
// context carries none
type form struct{ r *rec }

func (f form) Field(k int, help plush.HelperContext) (string, error) {
	s := "noblock"
	if help.HasBlock() {
		b, err := help.Block()
		if err != nil {
			return "", err
		}
		s = "block:" + b
	}
	f.r.log = append(f.r.log, "Field("+itoa(k)+","+s+")")
	return "rf", nil
}

func (f form) Plain(k int) string {
	f.r.log = append(f.r.log, "Plain("+itoa(k)+")")
	return "rp"
}

func (r *rec) formFor(n int, help plush.HelperContext) form {
	s := "noblock"
	if help.HasBlock() {
		s = "block"
	}
	r.log = append(r.log, "formFor("+itoa(n)+","+s+")")
	return form{r}
}

func ChainedCalls() {
	r := &rec{}
	ctx := ctxWith(r)
	ctx.Set("formFor", r.formFor)
	n, v := vrt.Int(), vrt.Int()
	ctx.Set("n", n)
	ctx.Set("v", v)
	N, V := itoa(n), itoa(v)
	cases := []struct{ in, log, out string }{
		{"formFor(n).Field(v)", "formFor(" + N + ",noblock);Field(" + V + ",noblock)", "rf"},
		{"formFor(n).Field(v) { %>B<%= n %><% }", "formFor(" + N + ",noblock);Field(" + V + ",block:B" + N + ")", "rf"},
		{"formFor(n).Plain(v)", "formFor(" + N + ",noblock);Plain(" + V + ")", "rp"},
		{"formFor(v).Field(n) { %><% }", "formFor(" + V + ",noblock);Field(" + N + ",block:)", "rf"},
	}
	c := cases[vrt.Choice(len(cases))]
	out, err := render("[<%= "+c.in+" %>]", ctx)
	vrt.Assert(err == nil, "a chained helper call renders")
	vrt.Assert(strings.Join(r.log, ";") == c.log, "each call of a chain receives its own arguments and its own block (the head none)")
	vrt.Assert(out == "["+c.out+"]", "the value of the chain is the last call's first result")
	vrt.Cover("done")
}

// ---- the arguments of a method called on an indexed element or on a call result
// are the caller's: the names the path itself starts with (the collection, the
// function) mean in them what they mean everywhere else in the tag
type elA struct{ N int }

func (e elA) Sub(o elA) int            { return e.N - o.N }
func (e elA) Len(os []elA) int         { return e.N + len(os) }
func (e elA) Kid(k int) elA            { return elA{N: e.N + k} }
func (e elA) Pick(f func(int) elA) int { return e.N - f(7).N }

func ReceiverArguments() {
	a, b := vrt.Int(), vrt.Int()
	ctx := plush.NewContext()
	xs := []elA{{N: a}, {N: b}}
	ctx.Set("xs", xs)
	ctx.Set("m", map[string]elA{"k": {N: a}, "l": {N: b}})
	ctx.Set("o", struct{ Xs []elA }{xs})
	ctx.Set("f", func(i int) elA { return elA{N: i} })
	ctx.Set("i", 1)
	cases := []struct {
		in   string
		want int
	}{
		{"xs[0].Sub(xs[1])", a - b},
		{"xs[1].Sub(xs[0])", b - a},
		{"xs[0].Len(xs)", a + 2},
		{"xs[i].Sub(xs[0])", b - a},
		{"m[\"k\"].Sub(m[\"l\"])", a - b},
		{"o.Xs[0].Sub(o.Xs[1])", a - b},
		{"xs[0].Kid(1).Sub(xs[1])", a + 1 - b},
		{"f(3).Sub(f(4))", -1},
		{"f(3).Pick(f)", -4},
		{"f(3).Kid(2).Sub(f(4))", 1},
		{"xs[0].Sub(f(4))", a - 4},
		{"f(5).Sub(xs[1])", 5 - b},
		{"f(len(xs)).Len(xs)", 4},
	}
	c := cases[vrt.Choice(len(cases))]
	got, err := render("[<%= "+c.in+" %>]", ctx)
	vrt.Assert(err == nil, "a method call on an element or a result with arguments naming the collection or the function renders: "+c.in)
	vrt.Assert(got == "["+itoa(c.want)+"]", "each argument is passed with its value unchanged: "+c.in)
	vrt.Cover("done")
}

// ---- the function is produced by an expression (an indexed slice or map of
// functions, the result of another call) whose printed form may contain a dot;
// a trailing result of a pointer type that implements error and is nil is no error
type rowP struct{ I int }

type myErr struct{}

func (*myErr) Error() string { return "myErr" }

func CalleeExpressions() {
	n := vrt.Int()
	ctx := plush.NewContext()
	ctx.Set("n", n)
	ctx.Set("p", rowP{I: 1})
	ctx.Set("fs", []func(int) int{func(x int) int { return x + 1 }, func(x int) int { return x + 2 }})
	ctx.Set("m", map[string]func(int) int{"a.b": func(x int) int { return x + 3 }, "ab": func(x int) int { return x + 4 }})
	ctx.Set("curry", func(f float64) func(int) int { return func(x int) int { return x + int(f) } })
	ctx.Set("okp", func() (int, *myErr) { return n, nil })
	ctx.Set("badp", func() (int, *myErr) { return n, &myErr{} })
	ctx.Set("oke", func() (int, error) { return n, nil })
	type cs struct {
		in   string
		want string
		fail bool
	}
	cases := []cs{
		{"fs[0](n)", itoa(n + 1), false},
		{"fs[p.I](n)", itoa(n + 2), false},
		{"m[\"ab\"](n)", itoa(n + 4), false},
		{"m[\"a.b\"](n)", itoa(n + 3), false},
		{"curry(1.5)(n)", itoa(n + 1), false},
		{"curry(2.0)(n)", itoa(n + 2), false},
		{"okp()", itoa(n), false},
		{"oke()", itoa(n), false},
		{"badp()", "", true},
	}
	c := cases[vrt.Choice(len(cases))]
	got, err := render("[<%= "+c.in+" %>]", ctx)
	if c.fail {
		vrt.Assert(err != nil, "a non-nil trailing error result fails the render: "+c.in)
	} else {
		vrt.Assert(err == nil, "a function produced by an expression is called; a nil trailing error is no error: "+c.in)
		vrt.Assert(got == "["+c.want+"]", "the function's first result is the call's value: "+c.in)
	}
	vrt.Cover("done")
}

// ---- an argument is the result of rendering a stored block (contentOf) or of a helper
// that runs its block, and that block itself calls Go functions: the pending
// call still receives the arguments that were evaluated before it, unchanged
func StoredBlockAsArgument() {
	a, b := vrt.BytesIn(1, alpha), vrt.BytesIn(1, alpha)
	n := vrt.Int()
	var log []string
	ctx := plush.NewContext()
	ctx.Set("a", a)
	ctx.Set("b", b)
	ctx.Set("n", n)
	ctx.Set("f3", func(p, q string, h interface{}) string {
		log = append(log, "f3("+p+","+q+")")
		return p + q
	})
	ctx.Set("g2", func(x, y int) string {
		log = append(log, "g2("+itoa(x)+","+itoa(y)+")")
		return "g"
	})
	ctx.Set("wrap", func(help plush.HelperContext) (template.HTML, error) {
		s, err := help.Block()
		return template.HTML(s), err
	})
	var in, want string
	var wantLog []string
	N := itoa(n)
	switch vrt.Choice(4) {
	case 0:
		in = "<% contentFor(\"c\") { %><%= g2(n, 8) %><% } %>[<%= f3(a, b, contentOf(\"c\")) %>]"
		want, wantLog = "["+a+b+"]", []string{"g2(" + N + ",8)", "f3(" + a + "," + b + ")"}
	case 1:
		in = "<% contentFor(\"c\") { %><%= g2(n, 8) %><%= g2(9, n) %><% } %>[<%= f3(a, b, contentOf(\"c\")) %>|<%= f3(b, a, contentOf(\"c\")) %>]"
		want = "[" + a + b + "|" + b + a + "]"
		wantLog = []string{"g2(" + N + ",8)", "g2(9," + N + ")", "f3(" + a + "," + b + ")", "g2(" + N + ",8)", "g2(9," + N + ")", "f3(" + b + "," + a + ")"}
	case 2:
		in = "[<%= f3(a, b, wrap() { %><%= g2(n, 8) %><% }) %>]"
		want, wantLog = "["+a+b+"]", []string{"g2(" + N + ",8)", "f3(" + a + "," + b + ")"}
	default:
		in = "<% contentFor(\"c\") { %><%= f3(b, b, 1) %><% } %>[<%= f3(a, f3(a, b, contentOf(\"c\")), 2) %>]"
		want = "[" + a + a + b + "]"
		wantLog = []string{"f3(" + b + "," + b + ")", "f3(" + a + "," + b + ")", "f3(" + a + "," + a + b + ")"}
	}
	out, err := render(in, ctx)
	vrt.Assert(err == nil, "a call with a rendered block among its arguments renders")
	vrt.Assert(out == want, "the pending call yields its own result")
	vrt.Assert(len(log) == len(wantLog), "every function is invoked exactly once per call")
	for i := 0; i < len(wantLog); i++ {
		if i < len(log) {
			vrt.Assert(log[i] == wantLog[i], "each function receives exactly its own arguments, also when a block that calls functions is rendered between the evaluation of the arguments and the call")
		}
	}
	vrt.Cover("done")
}
