// Package c13: rendering is a deterministic function of template and data; templates are immutable.
package c13

import (
	"html/template"
	"strconv"

	plush "github.com/gobuffalo/plush/v5"

	"verifharness/vrt"
)

func init() {
	vrt.Register("C13_repeat", Repeat)
	vrt.Register("C13_same_context_again", SameContextAgain)
	vrt.Register("C13_hash_order", HashOrder)
	vrt.Register("C13_frozen_program", FrozenProgram)
	vrt.Register("C13_cache_key", CacheKey)
	vrt.Register("C13_map_loop", MapLoop)
	vrt.Register("C13_faulty_template_repeat", FaultyTemplateRepeat)
	vrt.Register("C13_after_faulty_parses", AfterFaultyParses)
	vrt.Register("C13_earlier_renders", EarlierRenders)
}

func itoa(n int) string { return strconv.Itoa(n) }

type recorder struct{ log []int }

func (r *recorder) note(i int) int { r.log = append(r.log, i); return i }

func blk(help plush.HelperContext) (template.HTML, error) {
	s, err := help.Block()
	return template.HTML(s), err
}

type S struct {
	Name string
	Kids []S
}

func (s S) Get() string { return s.Name }

// programs covering every node type
var programs = []string{
	"a<%= x %>b<%= y + 1 %>",
	"<%= if (x < y) { %>lt<% } else if (x == y) { %>eq<% } else { %>gt<% } %>",
	"<%= for (i, v) in xs { %><%= i %>:<%= v %>,<% } %>",
	"<% let f = fn(p, q) { if (p < q) { return p } return q } %>[<%= f(x, y) %>]",
	"<%= {a: x, b: y}[\"a\"] %>|<%= {a: x, b: y}[\"b\"] %>",
	"<%= {a: note(1), b: note(2), c: note(3)}[\"b\"] %>",
	"<%= [x, \",\", y, \"s\"] %>",
	"<%= s.Kids[0].Name %><%= s.Get() %><%= s.Kids[1].Get() %>",
	"<% let z = [1, \":\", 2] %><% z[0] = x %><%= z %>",
	"<%= blk() { %>in<%= x %><% } %>",
	"<% contentFor(\"c\") { %>C<%= v %><% } %><%= contentOf(\"c\", {v: x}) %><%= contentOf(\"c\", {v: y}) %>",
	"<%= partial(\"p\", {v: x, w: y}) %>",
	"<%= !(x == y) && true || false %>",
	"<%= for (v) in xs { %><% if (v == x) { continue } %><%= v %>;<% } %>",
	"<%= nope %>",
	"<%= x / (y - y) %>",
	"<%= truncate(\"abcdefgh\", {size: 5, trail: \"..\"}) %>;<%= len(xs) %>",
	"<%# comment %><%= raw(\"<b>\") %><% x = 5 %><%= x %>",
	"<%= for (v) in range(1, 3) { %><%= v %>;<% } %>",
	"<%= xs[x] %>",
	"<%= {b: x, a: y}[\"a\"] %>|<%= {c: 1, b: 2, a: 3}[\"c\"] %>",
	"<% let g = fn() { return {z: note(1), m: note(2), a: note(3)} } %><%= g()[\"m\"] %>",
	"<%= tag() %>|<%= tag({id: x}) %>|<%= tag() %>",
	"<%= tagh() { %>b<% } %>|<%= tagh() %>",
	// option hashes made of literals only, handed to callees that write into them
	"<%= tag({id: 1}) %>|<%= tag({}) %>|<%= tag({id: 1, k: \"s\", t: true}) %>",
	"<%= for (v) in xs { %><%= tag({a: 1, b: \"s\"}) %>,<% } %>",
	"<% let bump = fn(o) { o[\"n\"] = o[\"n\"] + 1 return o[\"n\"] } %><%= bump({n: 1}) %>;<%= bump({n: 1}) %>",
	"<% let h = {n: 1} %><% h[\"n\"] = x %><%= h[\"n\"] %>|<%= {n: 1}[\"n\"] %>",
	// a function value gives no way into the parsed program
	"<% let f = fn(p, q) { return p } %><% f.Parameters[0] = f.Parameters[1] %>[<%= f(x, y) %>]",
	"<% let f = fn(p) { if (p) { return 1 } return 2 } %><% f.Block.Statements[0] = f.Block.Statements[1] %>[<%= f(true) %>]",
	// a + x is a value of its own: the data it was computed from is as it was
	"<%= whole[3] %><% let longer = part + x %>|<%= whole[3] %>|<%= longer[3] %>",
	"<% let a = [1, 2, 3] %><% let b = a + x %><% let c = a + y %><%= b[3] %>|<%= c[3] %>|<%= len(a) %>",
}

// tag: a helper of the usual "fill in the defaults" kind: it writes into the options it was given
func tag(opts map[string]interface{}) string {
	n := len(opts)
	if _, ok := opts["class"]; !ok {
		opts["class"] = "btn"
	}
	opts["seen"] = n
	return "tag" + itoa(n)
}

func tagh(opts map[string]interface{}, help plush.HelperContext) string {
	n := len(opts)
	opts["block"] = help.HasBlock()
	return "tagh" + itoa(n)
}

func newCtx(x, y int, r *recorder) *plush.Context {
	ctx := plush.NewContext()
	ctx.Set("x", x)
	ctx.Set("y", y)
	ctx.Set("xs", []int{x, y, 3})
	backing := []int{1, 2, 3, 9}
	ctx.Set("part", backing[:3])
	ctx.Set("whole", backing)
	ctx.Set("s", S{Name: "r", Kids: []S{{Name: "a"}, {Name: "b"}}})
	ctx.Set("note", r.note)
	ctx.Set("blk", blk)
	ctx.Set("tag", tag)
	ctx.Set("tagh", tagh)
	ctx.Set("partialFeeder", func(string) (string, error) { return "P<%= v %>,<%= w %>", nil })
	return ctx
}

type result struct {
	out string
	err error
	log []int
}

func same(a, b result) {
	vrt.Assert((a.err == nil) == (b.err == nil), "same template and data: both runs succeed or both fail")
	vrt.Assert(a.out == b.out, "same template and data: same output")
	if a.err != nil {
		if b.err != nil {
			vrt.Assert(a.err.Error() == b.err.Error(), "same template and data: same error")
		}
	}
	vrt.Assert(len(a.log) == len(b.log), "same template and data: same helper calls")
	for i := 0; i < len(a.log); i++ {
		if i < len(b.log) {
			vrt.Assert(a.log[i] == b.log[i], "same template and data: helper calls in the same order")
		}
	}
}

// the same text with equal data rendered along two of: one parsed template twice,
// a fresh parse, a Clone, Render with the cache off / cold / warm
func Repeat() {
	prog := programs[vrt.Choice(len(programs))]
	x, y := vrt.Int(), vrt.Int()
	vrt.Note("input", prog)
	t, perr := plush.NewTemplate(prog)
	vrt.Assert(perr == nil, "the catalogue programs parse")
	r1 := &recorder{}
	vrt.MapOrderNondet(true)
	o1, e1 := t.Exec(newCtx(x, y, r1))
	first := result{o1, e1, r1.log}
	r2 := &recorder{}
	var o2 string
	var e2 error
	switch vrt.Choice(5) {
	case 0: // same parsed template again
		o2, e2 = t.Exec(newCtx(x, y, r2))
	case 1: // fresh parse
		t2, _ := plush.NewTemplate(prog)
		o2, e2 = t2.Exec(newCtx(x, y, r2))
	case 2: // clone
		o2, e2 = t.Clone().Exec(newCtx(x, y, r2))
	case 3: // Render with the cache on (cold, then warm)
		plush.CacheEnabled = true
		o2, e2 = plush.Render(prog, newCtx(x, y, r2))
		r3 := &recorder{}
		o3, e3 := plush.Render(prog, newCtx(x, y, r3))
		plush.CacheEnabled = false
		same(result{o2, e2, r2.log}, result{o3, e3, r3.log})
	default: // Render with the cache off
		o2, e2 = plush.Render(prog, newCtx(x, y, r2))
	}
	vrt.MapOrderNondet(false)
	same(first, result{o2, e2, r2.log})
	vrt.Cover("done")
}

// programs that compute new values from the data without assigning to it: the data is as it
// was afterwards, so one context serves a second execution with the same result
var pureOfData = []string{
	"<%= whole[3] %><% let longer = part + x %>|<%= whole[3] %>|<%= longer[3] %>",
	"<% let a = [1, 2, 3] %><% let b = a + x %><% let c = a + y %><%= b[3] %>|<%= c[3] %>|<%= len(a) %>",
	"<% let b = part + x %><% let c = part + y %><%= b[3] %>|<%= c[3] %>|<%= len(part) %>|<%= whole[3] %>",
	"<%= for (v) in part + y { %><%= v %>,<% } %>|<%= whole[3] %>",
	"<% let f = fn(l) { return l + x } %><%= f(part)[3] %>|<%= f(part)[3] %>|<%= whole[3] %>",
}

// one context used for two executions
func SameContextAgain() {
	k := vrt.Choice(len(pureOfData))
	prog := pureOfData[k]
	x, y := vrt.Int(), vrt.Int()
	vrt.Note("input", prog)
	t, perr := plush.NewTemplate(prog)
	vrt.Assert(perr == nil, "the catalogue programs parse")
	ctx := newCtx(x, y, &recorder{})
	o1, e1 := t.Exec(ctx)
	o2, e2 := t.Exec(ctx)
	same(result{o1, e1, nil}, result{o2, e2, nil})
	vrt.Assert(e1 == nil, "these programs render")
	sx, sy := strconv.Itoa(x), strconv.Itoa(y)
	want := ""
	switch k {
	case 0:
		want = "9|9|" + sx
	case 1:
		want = sx + "|" + sy + "|3"
	case 2:
		want = sx + "|" + sy + "|3|9"
	case 3:
		want = "1,2,3," + sy + ",|9"
	case 4:
		want = sx + "|" + sx + "|9"
	}
	vrt.Assert(o1 == want, "a + x is a value of its own: what it was computed from is unchanged")
	vrt.Cover("done")
}

// hash literals: duplicate keys and side-effecting values, every Go map iteration order
func HashOrder() {
	x, y, z := vrt.Int(), vrt.Int(), vrt.Int()
	hashes := []string{
		"{a: x, a: y}[\"a\"]",
		"{a: x, b: y, a: z}[\"a\"]",
		"{a: note(1), b: note(2)}[\"a\"]",
		"{a: note(1), b: note(2), c: note(3)}[\"c\"]",
		"{a: note(1), a: note(2)}[\"a\"]",
		"{a: {b: note(1), c: note(2)}, d: note(3)}[\"d\"]",
	}
	h := hashes[vrt.Choice(len(hashes))]
	prog := "<%= " + h + " %>"
	vrt.Note("input", prog)
	run := func() result {
		r := &recorder{}
		ctx := plush.NewContext()
		ctx.Set("x", x)
		ctx.Set("y", y)
		ctx.Set("z", z)
		ctx.Set("note", r.note)
		o, e := plush.Render(prog, ctx)
		return result{o, e, r.log}
	}
	vrt.MapOrderNondet(true)
	a := run()
	b := run()
	vrt.MapOrderNondet(false)
	same(a, b)
	vrt.Cover("done")
}

// executing a template never modifies its parsed program
func FrozenProgram() {
	prog := programs[vrt.Choice(len(programs))]
	x, y := vrt.Int(), vrt.Int()
	vrt.Note("input", prog)
	t, perr := plush.NewTemplate(prog)
	vrt.Assert(perr == nil, "the catalogue programs parse")
	vrt.Freeze(t)
	r := &recorder{}
	t.Exec(newCtx(x, y, r))
	t.Exec(newCtx(y, x, r))
	t.Clone().Exec(newCtx(x, x, r))
	vrt.CheckFrozen()
	vrt.Cover("done")
}

// a cached template is returned only for an identical text
func CacheKey() {
	n := vrt.IntRange(0, 3)
	m := vrt.IntRange(0, 3)
	s1 := vrt.BytesIn(n, "ab<%= >1")
	s2 := vrt.BytesIn(m, "ab<%= >1")
	plush.CacheEnabled = true
	t1, e1 := plush.Parse(s1)
	t2, e2 := plush.Parse(s2)
	t3, e3 := plush.Parse(s1)
	plush.CacheEnabled = false
	if e1 == nil {
		vrt.Assert(e3 == nil, "parsing the same text again gives the same verdict")
		vrt.Assert(t1.Input == s1, "the template served for s1 was parsed from s1")
		vrt.Assert(t3.Input == s1, "the cached template served for s1 was parsed from s1")
		if e2 == nil {
			vrt.Assert(t2.Input == s2, "the template served for s2 was parsed from s2")
			if t1 == t2 {
				vrt.Assert(s1 == s2, "one cached template is shared only by identical texts")
			}
		}
		vrt.Cover("parsed")
	} else {
		vrt.Assert(e3 != nil, "parsing the same text again gives the same verdict")
		vrt.Cover("error")
	}
}

// the licensed variation: a for loop over a Go map visits the entries in any order
func MapLoop() {
	x, y := vrt.Int(), vrt.Int()
	run := func() result {
		ctx := plush.NewContext()
		ctx.Set("m", map[string]int{"a": x, "b": y})
		o, e := plush.Render("<%= for (k, v) in m { %><%= k %>=<%= v %>;<% } %>", ctx)
		return result{o, e, nil}
	}
	vrt.MapOrderNondet(true)
	a := run()
	b := run()
	vrt.MapOrderNondet(false)
	ab := "a=" + itoa(x) + ";b=" + itoa(y) + ";"
	ba := "b=" + itoa(y) + ";a=" + itoa(x) + ";"
	vrt.Assert(a.err == nil && b.err == nil, "a loop over a map renders")
	vrt.Assert(a.out == ab || a.out == ba, "every entry once")
	vrt.Assert(b.out == ab || b.out == ba, "every entry once")
	vrt.Cover("done")
}

// "the same error": a template whose text does not parse gives the same error on
// every execution of the same Template value, on its Clone and on a fresh parse -
// never an output on the second try
var faulty = []string{
	"a<% if (x { %>b<% } %>",
	"<%= x + %>",
	"<% } %>",
	"head<%= for (v) in { %><% } %>",
	"<% let = 1 %>",
	"ok<%= x %><% if (x) { %>open",
	"<%= \"unterminated %>",
	"<%= 1.2.3 %>",
}

// a template gives the same output or the same error whatever the process has parsed
// before it, texts that did not parse included (a parser, a table or a flag that
// outlives a failed parse must not decide about the next text)
var brokenBefore = []string{
	"<%= for (x in xs { %><%= x %><% break %><% } %>",
	"<%= for (x) in xs %>a<% } %>",
	"<% let f = fn(a { return a } %>",
	"<%= if (x { %>a<% } %>",
	"<%= {a: } %>",
	"<%= for (x) in xs { %><% let g = fn() { %>",
	"<%# never closed",
}

var subjects = []string{
	"a<% break %>b",
	"<%= if (true) { %>a<% continue %>b<% } %>",
	"<% let f = fn() { break } %>x",
	"<%= for (v) in xs { %><%= v %><% break %><% } %>|<% continue %>",
	"a<%= x %>b",
	"<%= for (v) in xs { %><%= v %>,<% } %>",
}

func AfterFaultyParses() {
	x, y := vrt.Int(), vrt.Int()
	sub := subjects[vrt.Choice(len(subjects))]
	vrt.Note("input", sub)
	run := func() result {
		o, e := plush.Render(sub, newCtx(x, y, &recorder{}))
		return result{o, e, nil}
	}
	first := run()
	n := 1 + vrt.Choice(2)
	for i := 0; i < n; i++ {
		b := brokenBefore[vrt.Choice(len(brokenBefore))]
		plush.Render(b, newCtx(x, y, &recorder{})) // whether it is refused is C03's business
	}
	same(first, run())
	vrt.Cover("done")
}

func FaultyTemplateRepeat() {
	src := faulty[vrt.Choice(len(faulty))]
	if vrt.Bool() {
		src = vrt.BytesIn(1, "ab\n") + src
	}
	x, y := vrt.Int(), vrt.Int()
	vrt.Note("input", src)
	r := &recorder{}
	fresh, ferr := plush.NewTemplate(src)
	var o1, o2 string
	var e1, e2 error
	switch vrt.Choice(4) {
	case 0: // one Template value executed twice
		t := &plush.Template{Input: src}
		o1, e1 = t.Exec(newCtx(x, y, r))
		o2, e2 = t.Exec(newCtx(x, y, r))
	case 1: // executed, then cloned
		t := &plush.Template{Input: src}
		o1, e1 = t.Exec(newCtx(x, y, r))
		o2, e2 = t.Clone().Exec(newCtx(x, y, r))
	case 2: // the value NewTemplate returns next to its error
		if ferr == nil {
			o1, e1 = fresh.Exec(newCtx(x, y, r))
			o2, e2 = fresh.Exec(newCtx(x, y, r))
		} else {
			o1, e1 = "", ferr
			if fresh != nil {
				o2, e2 = fresh.Exec(newCtx(x, y, r))
			} else {
				o2, e2 = "", ferr
			}
		}
	default: // Render twice with the cache on
		plush.CacheEnabled = true
		o1, e1 = plush.Render(src, newCtx(x, y, r))
		o2, e2 = plush.Render(src, newCtx(x, y, r))
		plush.CacheEnabled = false
	}
	if ferr == nil {
		// an unclosed block at the end of input is accepted by the parser: then both runs must simply agree
		same(result{o1, e1, nil}, result{o2, e2, nil})
		vrt.Cover("parses")
		return
	}
	vrt.Assert(e1 != nil, "a text that does not parse is an error on first use")
	vrt.Assert(e2 != nil, "and the same error on every later use")
	vrt.Assert(o1 == "" && o2 == "", "never an output")
	if e1 != nil {
		if e2 != nil {
			vrt.Assert(e1.Error() == e2.Error(), "the same error text")
			vrt.Assert(e1.Error() == ferr.Error(), "equal to the error of a fresh parse")
		}
	}
	vrt.Cover("done")
}

// ---- the output is a function of template and data, not of what the process
// rendered before: the same template over values of look-alike types (two
// struct types with the same printed name and the same field names at other
// positions, a map and a struct with the same keys, a value and a pointer),
// in every order of earlier renders
func lookAlikeA(name string, n int) interface{} {
	type Rec struct {
		Name string
		N    int
	}
	return Rec{Name: name, N: n}
}

func lookAlikeB(name string, n int) interface{} {
	type Rec struct {
		N    int
		Pad  string
		Name string
	}
	return Rec{N: n, Pad: "pad", Name: name}
}

func EarlierRenders() {
	n1, n2 := vrt.Int(), vrt.Int()
	s1, s2 := vrt.BytesIn(1, "abc"), vrt.BytesIn(1, "xyz")
	type rec struct {
		Name string
		N    int
	}
	vals := []interface{}{
		lookAlikeA(s1, n1),
		lookAlikeB(s2, n2),
		map[string]interface{}{"Name": s2, "N": n1},
		&rec{Name: s1, N: n2},
	}
	wants := []string{s1 + "/" + itoa(n1), s2 + "/" + itoa(n2), "", s1 + "/" + itoa(n2)}
	const in = "<%= p.Name %>/<%= p.N %>"
	render := func(i int) (string, error) {
		ctx := plush.NewContext()
		ctx.Set("p", vals[i])
		return plush.Render(in, ctx)
	}
	cached := vrt.Bool()
	plush.CacheEnabled = cached
	// an arbitrary history of up to two earlier renders, then the observed one
	h := vrt.Choice(3)
	for j := 0; j < h; j++ {
		render(vrt.Choice(len(vals)))
	}
	obs := vrt.Choice(len(vals))
	got, err := render(obs)
	plush.CacheEnabled = false
	vrt.Note("got", got)
	if obs == 2 {
		// field syntax on a map: whatever plush decides, it decides it the same way after any history
		g2, e2 := render(obs)
		vrt.Assert((err == nil) == (e2 == nil) && got == g2, "the same template and data give the same result again")
	} else {
		vrt.Assert(err == nil, "a struct renders after any history of earlier renders")
		vrt.Assert(got == wants[obs], "the output depends on the template and the data only, not on what was rendered before")
	}
	vrt.Cover("done")
}
