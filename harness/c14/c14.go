// Package c14: shared templates, the cache and contexts are safe under concurrent use.
// Reduced claim (DESIGN.md C14): two logical threads, one operation each,
// mutex-only synchronisation; the schedule is the solver's variable.
package c14

import (
	"html/template"
	"strconv"

	plush "github.com/gobuffalo/plush/v5"

	"verifharness/vrt"
)

func init() {
	vrt.Register("C14_context_ops", ContextOps)
	vrt.Register("C14_exec_shared_template", ExecSharedTemplate)
	vrt.Register("C14_cache", Cache)
	vrt.Register("C14_stored_block_shared", StoredBlockShared)
}

func itoa(n int) string { return strconv.Itoa(n) }

// two operations on one shared context, one per thread
func ContextOps() {
	root := plush.NewContext()
	root.Set("a", 1)
	// the shared context may sit several levels below the root
	for d := []int{0, 2, 4}[vrt.Choice(3)]; d > 0; d-- {
		root = root.New().(*plush.Context)
	}
	c := root.New().(*plush.Context)
	c.Set("b", 2)
	x := vrt.Int()
	op := func(k int) func() {
		switch k {
		case 0:
			return func() { c.Set("a", x) }
		case 1:
			return func() { c.Set("b", x) }
		case 2:
			return func() { _ = c.Value("a") }
		case 3:
			return func() { _ = c.Value("b") }
		case 4:
			return func() { _ = c.Has("b") }
		case 5:
			return func() { _ = c.New() }
		case 6:
			return func() { _ = c.Value("zz") } // falls through to the parent
		default:
			return func() { root.Set("zz", x) } // the parent is written while the child reads through it
		}
	}
	i, j := vrt.Choice(8), vrt.Choice(8)
	vrt.Par(op(i), op(j))
	vrt.Cover("done")
}

func blk(help plush.HelperContext) (template.HTML, error) {
	s, err := help.Block()
	return template.HTML(s), err
}

var programs = []string{
	"a<%= x %>b<%= y + 1 %>",
	"<%= if (x < y) { %>lt<% } else if (x == y) { %>eq<% } else { %>gt<% } %>",
	"<%= for (i, v) in xs { %><%= i %>:<%= v %>,<% } %>",
	"<% let f = fn(p, q) { if (p < q) { return p } return q } %>[<%= f(x, y) %>]",
	"<%= {a: x, b: y}[\"a\"] %>",
	"<%= [x, \",\", y] %>",
	"<% let z = [1, \":\", 2] %><% z[0] = x %><%= z %>",
	"<%= blk() { %>in<%= x %><% } %>",
	"<% contentFor(\"c\") { %>C<%= v %><% } %><%= contentOf(\"c\", {v: x}) %>",
	"<%= partial(\"p\", {v: x}) %>",
	"<%= !(x == y) && true || false %>",
	"<%= nope %>",
	"<%= x / (y - y) %>",
	"<%= truncate(\"abcdefgh\", {size: 5}) %>;<%= len(xs) %>",
	"<%# comment %><%= raw(\"<b>\") %><% x = 5 %><%= x %>",
	"<%= for (v) in range(1, 2) { %><%= v %>;<% } %>",
	"<%= \"abc\" ~= \"b\" %>|<%= \"abc\" ~= \"^z\" %>",
	"<%= pluralize(\"box\") %>|<%= camelize(\"a_b\") %>|<%= pathFor(\"/x\") %>",
	"<%= toJSON(xs) %>|<%= debug(x) %>",
	"<%= tag() %>|<%= tag({id: x}) %>",
	"<% let r = spare + x %><%= r[1] %>|<%= len(spare) %>", // a + x must not write into a's spare capacity
}

// tag writes defaults into the options it was given, as tag helpers do; the options
// of a call belong to that call
func tag(opts map[string]interface{}) string {
	n := len(opts)
	opts["class"] = "btn"
	if n == 0 {
		return "tag0"
	}
	return "tagN"
}

func fill(ctx *plush.Context, x, y int) {
	ctx.Set("x", x)
	ctx.Set("y", y)
	ctx.Set("xs", []int{x, y})
	ctx.Set("spare", make([]int, 1, 4))
	ctx.Set("blk", blk)
	ctx.Set("tag", tag)
	ctx.Set("partialFeeder", func(string) (string, error) { return "P<%= v %>", nil })
}

// one parsed template executed from two threads: own root contexts, or children of one shared parent
func ExecSharedTemplate() {
	prog := programs[vrt.Choice(len(programs))]
	x, y := vrt.Int(), vrt.Int()
	t, err := plush.NewTemplate(prog)
	vrt.Assert(err == nil, "the catalogue programs parse")
	shared := vrt.Bool()
	var mk func(a, b int) *plush.Context
	if shared {
		parent := plush.NewContext()
		fill(parent, x, y)
		// the shared parent may itself sit some levels below the root
		depths := []int{0, 2}
		if vrt.Tier() > 0 {
			depths = []int{0, 1, 2, 4, 5, 6}
		}
		for d := depths[vrt.Choice(len(depths))]; d > 0; d-- {
			parent = parent.New().(*plush.Context)
		}
		mk = func(a, b int) *plush.Context {
			c := parent.New().(*plush.Context)
			c.Set("x", a)
			return c
		}
	} else {
		mk = func(a, b int) *plush.Context {
			c := plush.NewContext()
			fill(c, a, b)
			return c
		}
	}
	c1, c2 := mk(x, y), mk(y, y)
	var o1, o2 string
	var r1, r2 error
	// the concurrent executions come first: nothing has been warmed up by an earlier run
	vrt.Par(func() { o1, r1 = t.Exec(c1) }, func() { o2, r2 = t.Exec(c2) })
	// what each execution returns when run alone
	w1, e1 := t.Exec(mk(x, y))
	w2, e2 := t.Exec(mk(y, y))
	vrt.Assert((r1 == nil) == (e1 == nil) && (r2 == nil) == (e2 == nil), "each execution fails exactly when it fails alone")
	vrt.Assert(o1 == w1, "each execution returns what it returns when run alone (first)")
	vrt.Assert(o2 == w2, "each execution returns what it returns when run alone (second)")
	vrt.Cover("done")
}

// Parse / Render / CacheSet with the cache enabled
func Cache() {
	x := vrt.Int()
	plush.CacheEnabled = true
	ctx1, ctx2 := plush.NewContext(), plush.NewContext()
	ctx1.Set("x", x)
	ctx2.Set("x", x)
	t0, _ := plush.NewTemplate("c<%= x %>")
	var o1, o2 string
	var r1, r2 error
	a, b := "a<%= x %>", "b<%= x %>"
	switch vrt.Choice(4) {
	case 0: // the same text, cold cache
		vrt.Par(func() { o1, r1 = plush.Render(a, ctx1) }, func() { o2, r2 = plush.Render(a, ctx2) })
		vrt.Assert(r1 == nil && r2 == nil, "concurrent Render succeeds")
		vrt.Assert(o1 == "a"+itoa(x) && o2 == "a"+itoa(x), "concurrent Render returns what it returns alone")
	case 1: // different texts
		vrt.Par(func() { o1, r1 = plush.Render(a, ctx1) }, func() { o2, r2 = plush.Render(b, ctx2) })
		vrt.Assert(r1 == nil && r2 == nil, "concurrent Render succeeds")
		vrt.Assert(o1 == "a"+itoa(x) && o2 == "b"+itoa(x), "concurrent Render returns what it returns alone")
	case 2: // warm cache
		plush.Render(a, ctx1)
		vrt.Par(func() { o1, r1 = plush.Render(a, ctx1) }, func() { o2, r2 = plush.Render(a, ctx2) })
		vrt.Assert(r1 == nil && r2 == nil, "concurrent Render succeeds")
		vrt.Assert(o1 == "a"+itoa(x) && o2 == "a"+itoa(x), "concurrent Render returns what it returns alone")
	default: // Parse against CacheSet
		vrt.Par(func() { _, r1 = plush.Parse(a) }, func() { plush.CacheSet("k", t0) })
		vrt.Assert(r1 == nil, "concurrent Parse succeeds")
	}
	plush.CacheEnabled = false
	vrt.Cover("done")
}

// a content block defined once in a shared parent context and rendered from two
// threads with children of that parent, each with its own data
func StoredBlockShared() {
	x, y := vrt.Int(), vrt.Int()
	parent := plush.NewContext()
	_, err := plush.Render("<% contentFor(\"b\") { %>[<%= who %>]<% } %>", parent)
	vrt.Assert(err == nil, "the defining template renders")
	uses := []string{
		"<%= contentOf(\"b\", {who: n}) %>",
		"<%= contentOf(\"b\", {who: n}) %>|<%= contentOf(\"b\", {who: n}) %>",
		"<%= for (i) in [1] { %><%= contentOf(\"b\", {who: n}) %><% } %>",
	}
	t, perr := plush.NewTemplate(uses[vrt.Choice(len(uses))])
	vrt.Assert(perr == nil, "the using template parses")
	mk := func(n int) *plush.Context {
		c := parent.New().(*plush.Context)
		c.Set("n", n)
		return c
	}
	c1, c2 := mk(x), mk(y)
	var o1, o2 string
	var r1, r2 error
	vrt.Par(func() { o1, r1 = t.Exec(c1) }, func() { o2, r2 = t.Exec(c2) })
	w1, e1 := t.Exec(mk(x))
	w2, e2 := t.Exec(mk(y))
	vrt.Assert(r1 == nil && r2 == nil && e1 == nil && e2 == nil, "every execution renders")
	vrt.Assert(o1 == w1, "each execution returns what it returns when run alone (first)")
	vrt.Assert(o2 == w2, "each execution returns what it returns when run alone (second)")
	vrt.Cover("done")
}
