package c14

import (
	"testing"

	"verifharness/vrt"
)

func TestReplay(t *testing.T) {
	if vrt.Main() != 0 {
		t.Fail()
	}
}
