// Package c15: every template error names the line of the failing tag; shifting is exact.
package c15

import (
	"html/template"
	"errors"
	"strconv"
	"strings"

	plush "github.com/gobuffalo/plush/v5"

	"verifharness/vrt"
)

func init() {
	vrt.Register("C15_line_of_failing_tag", LineOfFailingTag)
	vrt.Register("C15_shift", Shift)
	vrt.Register("C15_positions", Positions)
	vrt.Register("C15_input_ends_in_tag", InputEndsInTag)
	vrt.Register("C15_first_line_of_multiline_tag", FirstLineOfMultilineTag)
	vrt.Register("C15_two_faulty_tags", TwoFaultyTags)
	vrt.Register("C15_after_a_block_has_run", AfterABlockHasRun)
	vrt.Register("C15_later_line_of_multiline_tag", LaterLineOfMultilineTag)
}

func itoa(n int) string { return strconv.Itoa(n) }

var errBoom = errors.New("boom")

func failing() (string, error) { return "", errBoom }

func newCtx() *plush.Context {
	ctx := plush.NewContext()
	ctx.Set("fail", failing)
	ctx.Set("xs", []int{1, 2})
	ctx.Set("one", 1)
	return ctx
}

// failing statements, each written on one line
var failingTags = []string{
	"<%= foo %>",
	"<%= fail() %>",
	"<%= 1 + \"a\" %>",
	"<%= xs[9] %>",
	"<%= 1 / 0 %>",
	"<%= -1 %>",
	"<%= if (1 { %>",
	"<%= for (n in xs { %>",
	"<% break %>",
	"<%= 1.2.3 %>",
	"<%= (n) in xs { %>",
	"<%= if ( %>",
	"<% let = 3 %>",
	"<%= one.Nope %>",
	"<% nope = 1 %>",
	"<%= [1, %>",
	"<%= fail(\"a\" \"b\") %>",
	"<%= {\"a\" 1} %>",
	"<%= [`a` 1] %>",
	"<%= \"a\" \"b\" ) %>",
	"<%= 99999999999999999999 %>",
	"<%= 1" + strings.Repeat("0", 400) + ".0 %>",
}

const fillerAlphabet = "\n\r x"

func filler(max int) string {
	return vrt.BytesIn(vrt.IntRange(0, max), fillerAlphabet)
}

func newlines(s string) int {
	n := 0
	for i := 0; i < len(s); i++ {
		if s[i] == '\n' {
			n++
		}
	}
	return n
}

// preamble: text, tags, multi-line strings and comments before the failing tag
func preamble(max int) string {
	switch vrt.Choice(8) {
	case 0:
		return filler(max)
	case 1:
		return filler(max) + "<%= 1 %>" + filler(max)
	case 2:
		return "<% let s = \"" + filler(max) + "\" %>" + filler(1)
	case 3:
		return "<% let s = `" + filler(max) + "` %>" + filler(1)
	case 4:
		return "<%# " + filler(max) + " %>" + filler(1)
	case 5: // a line comment ends at the first line break
		end := "\n"
		if vrt.Bool() {
			end = "\r\n" // one line break, not two
		}
		return "<% # " + vrt.BytesIn(vrt.IntRange(0, max), " x#") + end + " let q = 1 %>" + filler(1)
	case 6: // white space inside a code tag
		ws := func() string { return vrt.BytesIn(vrt.IntRange(0, max), "\n\r ") }
		return "<%" + ws() + " let q = 1 " + ws() + "%>" + filler(1)
	default:
		ws := func() string { return vrt.BytesIn(vrt.IntRange(0, 1), "\n\r ") }
		return "<%= if (true) {" + ws() + "%>a" + filler(1) + "<% }" + ws() + "%>" + filler(1)
	}
}

// lineOf: the "line N:" prefix of an error message, -1 if there is none.
func lineOf(msg string) (int, string) {
	if !strings.HasPrefix(msg, "line ") {
		return -1, msg
	}
	rest := msg[5:]
	i := strings.Index(rest, ":")
	if i <= 0 {
		return -1, msg
	}
	n, err := strconv.Atoi(rest[:i])
	if err != nil {
		return -1, msg
	}
	return n, rest[i:]
}

func render(in string) error {
	vrt.Note("input", in)
	_, err := plush.Render(in, newCtx())
	return err
}

// (a)+(b): the error starts with "line N:" and N is the line on which the failing tag begins
func LineOfFailingTag() {
	max := 2 + vrt.Tier()
	pre := preamble(max)
	tag := failingTags[vrt.Choice(len(failingTags))]
	suffix := vrt.BytesIn(vrt.IntRange(0, 1), fillerAlphabet)
	err := render(pre + tag + suffix)
	vrt.Assert(err != nil, "a faulty template is an error")
	msg := err.Error()
	vrt.Note("error", msg)
	n, _ := lineOf(msg)
	vrt.Assert(n >= 1, "the error starts with 'line N:'")
	vrt.Assert(n == 1+newlines(pre), "N is the 1-based line on which the tag containing the failing statement begins")
	vrt.Cover("done")
}

// (c): k newlines of literal text before the template add exactly k to every line number and change nothing else
func Shift() {
	max := 1 + vrt.Tier()
	pre := preamble(max)
	tag := failingTags[vrt.Choice(len(failingTags))]
	tmpl := pre + tag
	k := vrt.IntRange(1, 2+2*vrt.Tier())
	shift := ""
	for i := 0; i < k; i++ {
		shift += "\n"
	}
	if vrt.Bool() {
		shift = "x" + shift
	}
	e0 := render(tmpl)
	ek := render(shift + tmpl)
	vrt.Assert(e0 != nil, "a faulty template is an error")
	vrt.Assert(ek != nil, "a faulty template is an error after shifting")
	m0 := strings.Split(e0.Error(), "\n")
	mk := strings.Split(ek.Error(), "\n")
	vrt.Assert(len(m0) == len(mk), "shifting changes nothing but the line numbers")
	for i := 0; i < len(m0); i++ {
		if i < len(mk) {
			n0, r0 := lineOf(m0[i])
			nk, rk := lineOf(mk[i])
			if n0 >= 0 {
				vrt.Assert(nk == n0+k, "inserting k newlines increases N by exactly k")
			}
			vrt.Assert(r0 == rk, "shifting changes nothing else in the error")
		}
	}
	vrt.Cover("done")
}

// failing statements inside if / for / function / helper-block bodies, each tag on its own line
func Positions() {
	ti := vrt.Choice(len(failingTags))
	tag := failingTags[ti]
	a, b := filler(1), filler(1)
	var pre, post string
	pos := vrt.Choice(4)
	if pos == 1 {
		vrt.Assume(ti != 8) // break inside a loop is not a fault
	}
	switch pos {
	case 0:
		pre, post = "<%= if (true) { %>"+a+"\n", "\n<% } %>"
	case 1:
		pre, post = "<%= for (v) in xs { %>"+a+"\n", "\n<% } %>"
	case 2:
		pre, post = "<% let f = fn() { %>"+a+"\n", "\n<% } %>"+b+"<%= f() %>"
	default:
		pre, post = "<%= htmlEscape(\"\") { %>"+a+"\n", "\n<% } %>"
	}
	err := render(pre + tag + post)
	vrt.Assert(err != nil, "a faulty template is an error")
	msg := err.Error()
	vrt.Note("error", msg)
	n, _ := lineOf(msg)
	vrt.Assert(n >= 1, "the error starts with 'line N:'")
	vrt.Assert(n == 1+newlines(pre), "inside a block: N is the line on which the failing tag begins")
	vrt.Cover("done")
}

// the input ends inside the failing tag
func InputEndsInTag() {
	pre := preamble(1 + vrt.Tier())
	ends := []string{"<%= 1 + ", "<%= foo(", "<% let x = ", "<%= [1, 2", "<%= \"a\" + "}
	tag := ends[vrt.Choice(len(ends))]
	err := render(pre + tag)
	vrt.Assert(err != nil, "a template that ends inside a tag is an error")
	msg := err.Error()
	vrt.Note("error", msg)
	n, _ := lineOf(msg)
	vrt.Assert(n >= 1, "the error starts with 'line N:'")
	vrt.Assert(n == 1+newlines(pre), "N is the line on which the unfinished tag begins")
	vrt.Cover("done")
}

// a tag that continues over further lines: when the failing statement stands on
// the tag's first line, that line is N under either reading of the statement
// (line of the tag / line of the statement), also when the failing token is the
// last thing before the line break
var failingStatements = []string{
	"let v = foo", "let v = fail()", "let v = 1 + \"a\"", "let v = xs[9]", "let v = 1 / 0", "let v = 1.2.3", "let v = .1.2",
	"let v = one.Nope", "nope = 1", "let = 3", "foo", "fail()", "let v = 1.2.3 ", "let v = fail( )",
}

func FirstLineOfMultilineTag() {
	pre := filler(2)
	if vrt.Tier() > 0 {
		pre = preamble(1)
	}
	st := failingStatements[vrt.Choice(len(failingStatements))]
	seps := []string{"\n", "\r\n", "\n\n", "\n   ", ";\n"}
	sep := seps[vrt.Choice(len(seps))]
	rests := []string{"let w = 2", "let w = 2\n let u = 3", "# note\n let w = 2"}
	rest := rests[vrt.Choice(len(rests))]
	open := "<% "
	if vrt.Bool() {
		open = "<%= "
	}
	err := render(pre + open + st + sep + rest + " %>")
	vrt.Assert(err != nil, "a faulty template is an error")
	msg := err.Error()
	vrt.Note("error", msg)
	n, _ := lineOf(msg)
	vrt.Assert(n >= 1, "the error starts with 'line N:'")
	vrt.Assert(n == 1+newlines(pre), "a failing statement on the first line of a multi-line tag: N is that line")
	vrt.Cover("done")
}

// ---- two syntactically faulty tags far apart: what is reported carries the line
// of its tag and shifts exactly, also when the line numbers have different numbers of digits (1 and
// 10, 9 and 99, 2 and 21 ...) and when the shift moves one of them across such
// a boundary
var syntaxFaults = []string{
	"<%= if (1 { %>",
	"<%= 1.2.3 %>",
	"<% let = 3 %>",
	"<%= [1, %>",
	"<%= {\"a\" 1} %>",
	"<%= \"a\" \"b\" ) %>",
}

func nl(n int) string { return strings.Repeat("\n", n) }

func TwoFaultyTags() {
	first := []int{1, 2, 9, 10}
	gap := []int{1, 8, 9, 10, 19, 89, 90, 98}
	a := first[vrt.Choice(len(first))]
	g := gap[vrt.Choice(len(gap))]
	ta := syntaxFaults[vrt.Choice(len(syntaxFaults))]
	tb := syntaxFaults[vrt.Choice(2+4*vrt.Tier())]
	tmpl := nl(a-1) + ta + "x" + nl(g) + tb
	k := 1 + vrt.Choice(2)
	e0 := render(tmpl)
	ek := render(nl(k) + tmpl)
	vrt.Assert(e0 != nil, "a faulty template is an error")
	vrt.Assert(ek != nil, "a faulty template is an error after shifting")
	m0 := strings.Split(e0.Error(), "\n")
	mk := strings.Split(ek.Error(), "\n")
	// (how many of the problems are reported is not prescribed; what is reported carries the line of its tag)
	for _, m := range m0 {
		n, _ := lineOf(m)
		vrt.Assert(n >= 1, "every message of a faulty template starts with 'line N:'")
		vrt.Assert(n == a || n == a+g, "N is the line of one of the faulty tags")
	}
	vrt.Assert(len(m0) == len(mk), "shifting changes nothing but the line numbers")
	for i := 0; i < len(m0); i++ {
		if i < len(mk) {
			n0, r0 := lineOf(m0[i])
			nk, rk := lineOf(mk[i])
			vrt.Assert(nk == n0+k, "inserting k newlines increases N by exactly k")
			vrt.Assert(r0 == rk, "shifting changes nothing else in the error")
		}
	}
	vrt.Cover("done")
}

// ---- the failing statement comes after a function body, a helper block, a
// loop or an if has run (on earlier lines, or on later lines of its own tag):
// the error names the line of the tag with the failing statement, not a line
// inside what ran before
func AfterABlockHasRun() {
	pre := preamble(1)
	gap := nl(vrt.IntRange(1, 3))
	type cs struct {
		before string // runs first, spans lines
		fail   string // one-line failing tag
	}
	cases := []cs{
		{"<% let f = fn() {\n return 1\n } %>", "<%= f() / 0 %>"},
		{"<% let f = fn(x) { return x } %>", "<%= f(1) + nope %>"},
		{"<% let f = fn() {\n return 1\n } %>", "<%= [f(), nope] %>"},
		{"<%= blk() { %>\n\nb<% } %>", "<%= fail() %>"},
		{"<%= for (v) in xs { %>\n<%= v %>\n<% } %>", "<%= xs[9] %>"},
		{"<%= if (true) { %>\n\n<% } %>", "<%= 1 / 0 %>"},
		{"<% let f = fn() { return 1 } %>", "<%= if (f() == 1) { %>x<% } %><%= one.Nope %>"},
	}
	c := cases[vrt.Choice(len(cases))]
	var in string
	want := 0
	switch vrt.Choice(2) {
	case 0: // the failing tag on its own later line
		in = pre + c.before + gap + c.fail
		want = 1 + newlines(pre) + newlines(c.before) + newlines(gap)
	default: // the failing tag first uses what ran before on the same line
		in = pre + c.before + c.fail + gap + "tail"
		want = 1 + newlines(pre) + newlines(c.before)
	}
	ctx := newCtx()
	ctx.Set("blk", func(help plush.HelperContext) (template.HTML, error) {
		s, err := help.Block()
		return template.HTML(s), err
	})
	vrt.Note("input", in)
	_, err := plush.Render(in, ctx)
	vrt.Assert(err != nil, "a faulty template is an error")
	msg := err.Error()
	vrt.Note("error", msg)
	n, _ := lineOf(msg)
	vrt.Assert(n == want, "N is the line of the tag with the failing statement, whatever ran before it")
	vrt.Cover("done")
}

// ---- the failing statement (or the token the parser stands on) is on a LATER line
// of a multi-line tag. The statement asks for the line on which the tag begins.
// plush reports the line of the failing statement's first token (run-time errors in
// <% %> tags) or of the token the parser stands on (syntax errors): a recorded
// finding (known_findings.json, DESIGN.md 6.2), so the first assertion bounds what is
// tolerated to exactly that behaviour and the second one states the property.
func LaterLineOfMultilineTag() {
	pre := filler(2)
	k := 1 + vrt.Choice(2) // lines between the tag's first line and the failing statement
	gap := strings.Repeat("\n", k)
	var in string
	syntax := false
	switch vrt.Choice(6) {
	case 0:
		in = "<% let a = 1" + gap + "let b = one.Nope %>"
	case 1:
		in = "<%" + gap + "one.Nope %>"
	case 2:
		in = "<% let a = 1" + gap + "return fail() %>"
	case 3:
		in = "<% let a = 1" + gap + "let b = 1 / 0" + "\nlet c = 2 %>"
	case 4:
		in, syntax = "<%= foo(" + gap + "1 2) %>", true
	default:
		in, syntax = "<%" + gap + "let = 1 %>", true
	}
	err := render(pre + in)
	vrt.Assert(err != nil, "a faulty template is an error")
	msg := err.Error()
	vrt.Note("error", msg)
	n, _ := lineOf(msg)
	tagLine := 1 + newlines(pre)
	vrt.Assert(n >= 1, "the error starts with 'line N:'")
	vrt.Assert(n == tagLine || n == tagLine+k, "a failing statement on a later line of a multi-line tag: N is the tag's line or the statement's, nothing else")
	if syntax {
		vrt.Assert(n == tagLine, "a syntax error on a later line of a multi-line tag: N is the line the tag begins on")
	} else {
		vrt.Assert(n == tagLine, "a failing statement on a later line of a multi-line tag: N is the line the tag begins on")
	}
	vrt.Cover("done")
}
