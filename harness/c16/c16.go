// Package c16: user-defined functions bind parameters to argument values and
// return the value of the first return reached.
package c16

import (
	"strconv"

	plush "github.com/gobuffalo/plush/v5"

	"verifharness/gen"
	"verifharness/vrt"
)

func init() {
	vrt.Register("C16_decision_chain", DecisionChain)
	vrt.Register("C16_argument_scope", ArgumentScope)
	vrt.Register("C16_result_uses", ResultUses)
	vrt.Register("C16_first_class", FirstClass)
	vrt.Register("C16_recursion", Recursion)
	vrt.Register("C16_arity", Arity)
	vrt.Register("C16_nil_argument", NilArgument)
	vrt.Register("C16_nested_calls", NestedCalls)
	vrt.Register("C16_failed_call", FailedCall)
}

func itoa(n int) string { return strconv.Itoa(n) }

func b2s(b bool) string {
	if b {
		return "true"
	}
	return "false"
}

// the decision chain used throughout: thresholds t, u are arbitrary
const chainDef = "<% let f = fn(a, b) { if (a < b) { return 1 } if (a == t) { return 2 } if (b == u && a > b) { return 3 } return 4; return 5 } %>"

func chainRef(a, b, t, u int) int {
	if a < b {
		return 1
	}
	if a == t {
		return 2
	}
	if b == u {
		if a > b {
			return 3
		}
	}
	return 4
}

func render(in string, ctx *plush.Context) (string, error) {
	vrt.Note("input", in)
	out, err := plush.Render(in, ctx)
	vrt.Note("got", out)
	return out, err
}

// all argument tuples, all thresholds
func DecisionChain() {
	x, y, t, u := vrt.Int(), vrt.Int(), vrt.Int(), vrt.Int()
	ctx := plush.NewContext()
	ctx.Set("x", x)
	ctx.Set("y", y)
	ctx.Set("t", t)
	ctx.Set("u", u)
	got, err := render(chainDef+"[<%= f(x, y) %>]", ctx)
	vrt.Assert(err == nil, "calling a user function renders")
	vrt.Assert(got == "["+itoa(chainRef(x, y, t, u))+"]", "the value of the first return reached, statements after it skipped")
	vrt.Cover("done")
}

// arguments are evaluated in the caller's scope, also when caller variables
// are named like the parameters
func ArgumentScope() {
	a, b, t, u := vrt.Int(), vrt.Int(), vrt.Int(), vrt.Int()
	ctx := plush.NewContext()
	ctx.Set("a", a)
	ctx.Set("b", b)
	ctx.Set("t", t)
	ctx.Set("u", u)
	var call string
	var want int
	switch vrt.Choice(6) {
	case 0:
		call, want = "f(a, b)", chainRef(a, b, t, u)
	case 1:
		call, want = "f(b, a)", chainRef(b, a, t, u)
	case 2:
		call, want = "f(a + b, a)", chainRef(a+b, a, t, u)
	case 3:
		call, want = "f(b, b)", chainRef(b, b, t, u)
	case 4:
		call, want = "f(b - a, a - b)", chainRef(b-a, a-b, t, u)
	default:
		call, want = "f(7, a)", chainRef(7, a, t, u)
	}
	got, err := render(chainDef+"[<%= "+call+" %>][<%= a %>,<%= b %>]", ctx)
	vrt.Assert(err == nil, "calling a user function renders")
	vrt.Assert(got == "["+itoa(want)+"]["+itoa(a)+","+itoa(b)+"]", "each parameter is bound to the caller-scope value of its argument; caller variables unchanged")
	vrt.Cover("done")
}

func id(v interface{}) interface{} { return v }

// the result can be emitted, tested, compared and passed on like any other value
func ResultUses() {
	x, y, t, u := vrt.Int(), vrt.Int(), vrt.Int(), vrt.Int()
	ctx := plush.NewContext()
	ctx.Set("x", x)
	ctx.Set("y", y)
	ctx.Set("t", t)
	ctx.Set("u", u)
	ctx.Set("id", id)
	r := chainRef(x, y, t, u)
	var use, want string
	switch vrt.Choice(12) {
	case 0:
		use, want = "<%= f(x, y) + 1 %>", itoa(r+1)
	case 1:
		use, want = "<%= 1 + f(x, y) %>", itoa(1+r)
	case 2:
		use, want = "<%= f(x, y) == 2 %>", b2s(r == 2)
	case 3:
		use, want = "<%= if (f(x, y) == 2) { %>T<% } else { %>F<% } %>", "F"
		if r == 2 {
			want = "T"
		}
	case 4:
		use, want = "<%= if (f(x, y)) { %>T<% } else { %>F<% } %>", "T"
	case 5:
		use, want = "<%= !f(x, y) %>", "false"
	case 6:
		use, want = "<%= id(f(x, y)) %>", itoa(r)
	case 7:
		use, want = "<%= f(f(x, y), y) %>", itoa(chainRef(r, y, t, u))
	case 8:
		use, want = "<% let z = f(x, y) %><%= z + 1 %>", itoa(r+1)
	case 9:
		use, want = "<%= f(x, y) * f(y, x) %>", itoa(r*chainRef(y, x, t, u))
	case 10:
		use, want = "<%= f(x, y) < 3 %>", b2s(r < 3)
	default:
		use, want = "<%= \"v\" + f(x, y) %>", "v"+itoa(r)
	}
	got, err := render(chainDef+"["+use+"]", ctx)
	vrt.Assert(err == nil, "using the result of a user function renders")
	vrt.Assert(got == "["+want+"]", "the result is usable like any other value")
	vrt.Cover("done")
}

// functions are first class: stored, passed and called through parameters
func FirstClass() {
	x, t := vrt.Int(), vrt.Int()
	ctx := plush.NewContext()
	ctx.Set("x", x)
	ctx.Set("t", t)
	inc := "<% let inc = fn(n) { return n + 1 } %>"
	var in, want string
	switch vrt.Choice(6) {
	case 0:
		in = inc + "<% let ap = fn(g, v) { return g(v) } %>[<%= ap(inc, x) %>]"
		want = itoa(x + 1)
	case 1:
		in = inc + "<% let h = inc %>[<%= h(x) %>]"
		want = itoa(x + 1)
	case 2:
		in = inc + "<% let twice = fn(g, v) { return g(g(v)) } %>[<%= twice(inc, x) %>]"
		want = itoa(x + 2)
	case 3: // no return reached: empty result
		in = "<% let g = fn(n) { if (n == t) { return 1 } } %>[<%= g(x) %>]"
		want = ""
		if x == t {
			want = "1"
		}
	case 4: // body is template text
		in = "<% let g = fn(n) { %>n=<%= n %>;<% } %>[<%= g(x) %>]"
		want = "n=" + itoa(x) + ";"
	default: // zero parameters, reads the caller's variables
		in = "<% let g = fn() { return x + 1 } %>[<%= g() %>]"
		want = itoa(x + 1)
	}
	got, err := render(in, ctx)
	vrt.Assert(err == nil, "first-class use of a user function renders")
	vrt.Assert(got == "["+want+"]", "functions can be stored, passed and called through parameters")
	vrt.Cover("done")
}

// functions may call themselves (concrete depth, arbitrary data)
func Recursion() {
	d := vrt.IntRange(0, 3)
	x := vrt.Int()
	ctx := plush.NewContext()
	ctx.Set("d", d)
	ctx.Set("x", x)
	var in, want string
	switch vrt.Choice(3) {
	case 0:
		in = "<% let f = fn(n) { if (n == 0) { return x } return f(n - 1) } %>[<%= f(d) %>]"
		want = itoa(x)
	case 1:
		in = "<% let f = fn(n) { if (n == 0) { return 0 } return n + f(n - 1) } %>[<%= f(d) %>]"
		want = itoa(d * (d + 1) / 2)
	default:
		in = "<% let f = fn(n, acc) { if (n == 0) { return acc } return f(n - 1, acc + x) } %>[<%= f(d, 0) %>]"
		want = itoa(d * x)
	}
	got, err := render(in, ctx)
	vrt.Assert(err == nil, "a self-recursive function renders")
	vrt.Assert(got == "["+want+"]", "recursion yields the value of the reached return at every depth")
	vrt.Cover("done")
}

// 0..4 parameters, each bound to its own argument
func Arity() {
	n := vrt.IntRange(0, 4)
	vals := []int{vrt.Int(), vrt.Int(), vrt.Int(), vrt.Int()}
	names := []string{"p", "q", "r", "s"}
	ctx := plush.NewContext()
	params, args, body, want := "", "", "\"\"", ""
	for i := 0; i < n; i++ {
		if i > 0 {
			params += ", "
			args += ", "
		}
		params += names[i]
		ctx.Set("v"+itoa(i), vals[i])
		// arguments in reverse order of the caller's variables
		args += "v" + itoa(n-1-i)
		body += " + " + names[i] + " + \";\""
		want += itoa(vals[n-1-i]) + ";"
	}
	in := "<% let f = fn(" + params + ") { return " + body + " } %>[<%= f(" + args + ") %>]"
	got, err := render(in, ctx)
	vrt.Assert(err == nil, "functions of 0-4 parameters render")
	vrt.Assert(got == "["+want+"]", "parameter i is bound to argument i")
	vrt.Cover("done")
}

// a nil argument binds the parameter to nil, also when the caller (or an outer
// activation of the same function) has a non-nil variable of the parameter's name
func NilArgument() {
	x := vrt.Int()
	ctx := plush.NewContext()
	ctx.Set("a", x)
	ctx.Set("z", nil)
	def := "<% let f = fn(a) { if (a) { return \"set\" } return \"nil\" } %>"
	var in, want string
	switch vrt.Choice(4) {
	case 0:
		in, want = def+"[<%= f(nil) %>|<%= f(a) %>]", "[nil|set]"
	case 1:
		in, want = def+"[<%= f(nil) %>|<%= a %>]", "[nil|"+itoa(x)+"]"
	case 2: // recursion: the inner activation gets nil while the outer holds a value
		in = "<% let g = fn(a, n) { if (n == 0) { if (a) { return \"set\" } return \"nil\" } return g(nil, n - 1) } %>[<%= g(1, 1) %>]"
		want = "[nil]"
	default:
		in, want = def+"<% let h = fn(a) { return f(nil) } %>[<%= h(5) %>]", "[nil]"
	}
	got, err := render(in, ctx)
	vrt.Assert(err == nil, "calling a user function with a nil argument renders")
	vrt.Assert(got == want, "a parameter bound to nil is nil inside the function")
	vrt.Cover("done")
}

// user-function calls as arguments of user-function calls, in any position, after earlier calls
func NestedCalls() {
	x, y, z := vrt.Int(), vrt.Int(), vrt.Int()
	ctx := plush.NewContext()
	ctx.Set("x", x)
	ctx.Set("y", y)
	ctx.Set("z", z)
	defs := "<% let id = fn(v) { return v } %><% let pair = fn(p, q) { return \"\" + p + \"/\" + q } %><% let pick = fn(c, p, q) { if (c) { return p } return q } %>"
	var in, want string
	switch vrt.Choice(6) {
	case 0:
		in, want = "<%= id(x) %>;<%= pair(x, id(y)) %>", itoa(x)+";"+itoa(x)+"/"+itoa(y)
	case 1:
		in, want = "<%= pair(x, y) %>;<%= pair(id(x), id(y)) %>;<%= pair(x, id(y)) %>", itoa(x)+"/"+itoa(y)+";"+itoa(x)+"/"+itoa(y)+";"+itoa(x)+"/"+itoa(y)
	case 2:
		in, want = "<%= id(z) %>;<%= pick(true, x, pick(false, y, z)) %>", itoa(z)+";"+itoa(x)
	case 3:
		in, want = "<%= id(z) %>;<%= pick(false, x, pick(false, y, z)) %>", itoa(z)+";"+itoa(z)
	case 4:
		in, want = "<%= for (i) in [1, 2] { %><%= pair(x, id(y)) %>;<% } %>", itoa(x)+"/"+itoa(y)+";"+itoa(x)+"/"+itoa(y)+";"
	default:
		in, want = "<%= id(x) %>;<%= pair(x, pair(y, id(z))) %>", itoa(x)+";"+itoa(x)+"/"+itoa(y)+"/"+itoa(z)
	}
	got, err := render(defs+in, ctx)
	vrt.Assert(err == nil, "nested user-function calls render")
	vrt.Assert(got == want, "each parameter is bound to its own argument value when arguments are calls themselves")
	vrt.Cover("done")
}

// a call whose body fails with a fault that the call site tolerates (an unknown
// identifier under if / ! / == / && / ||) still ends: the caller continues in its
// own scope, with its own variables, and the callee's parameters and lets are gone
func FailedCall() {
	A, B, C, D := vrt.Int(), vrt.Int(), vrt.Int(), vrt.Int()
	vrt.Assume(A != C)
	ctx := plush.NewContext()
	ctx.Set("A", A)
	ctx.Set("B", B)
	ctx.Set("C", C)
	ctx.Set("D", D)
	bodies := []string{"return nope", "let z = B\n return nope.Name", "if (x == C) { return nope }\n return 1", "let z = B\n return g(x)"}
	body := bodies[vrt.Choice(len(bodies))]
	sites := []string{
		"<%= if (f(C, D)) { %>T<% } else { %>F<% } %>",
		"<%= if (!f(C, D)) { %>F<% } %>",
		"<%= if (f(C, D) == 1) { %>T<% } else { %>F<% } %>",
		"<%= if (true && f(C, D)) { %>T<% } else { %>F<% } %>",
		"<%= if (false) { %>T<% } else if (f(C, D)) { %>T<% } else { %>F<% } %>",
	}
	site := sites[vrt.Choice(len(sites))]
	in := "<% let x = A %><% let g = fn(y) { return nope } %><% let f = fn(x, y) { " + body + " } %>" + site +
		"[<%= x %>|<%= if (y) { %>y<% } %>|<%= if (z) { %>z<% } %>]<% let w = 7 %><%= w %>"
	got, err := render(in, ctx)
	if err != nil {
		// the unknown name is met inside the called function, not as the condition
		// itself: by C05 a failure of the render (plush tolerated it until 8857fdf,
		// and this harness was written against that). Should it render, the
		// caller's scope must be intact.
		vrt.Cover("done")
		return
	}
	vrt.Assert(got == "F["+itoa(A)+"||]7", "after the failed call the caller runs in its own scope: x is the caller's, y and z do not exist")
	vrt.Assert(ctx.Value("w") == interface{}(7), "a top-level let after the failed call reaches the render's context")
	vrt.Cover("done")
}

// ---- function bodies and call sites enumerated from a grammar, checked
// against the reference interpreter of package gen
func init() {
	vrt.Register("C16_generated_functions", GeneratedFunctions)
	vrt.Register("C16_returned_collections", ReturnedCollections)
	vrt.Register("C16_names_rebound", NamesRebound)
	vrt.Register("C16_return_inside_loops", ReturnInsideLoops)
	vrt.Register("C16_results_chained", ResultsChained)
	vrt.Register("C16_return_after_text", ReturnAfterText)
}

func GeneratedFunctions() {
	p := gen.Profile{Lets: true, Ctl: true, Unknown: true, Faults: true, Conds: 3, Vals: 4, Pres: 2}
	if vrt.Tier() > 0 {
		p = gen.Profile{Lets: true, Ctl: true, Unknown: true, Faults: true, Shadow: true, Assigns: true, Conds: 0, Vals: 0}
	}
	g := &gen.G{P: p}
	ar := 1 + vrt.Choice(2)
	params := []string{"p", "q"}[:ar]
	second := ""
	if ar == 2 {
		second = "q"
	}
	var prog []*gen.Stmt
	if vrt.Choice(2) == 1 {
		// outer variables named like the parameters
		prog = append(prog, gen.Let("p", gen.Lit(9)), gen.Let("q", gen.Lit(8)))
	}
	prog = append(prog, gen.Fn("f", params, g.FnBody("p", 0, second)))
	callAs := func(name string, a *gen.Expr) *gen.Expr {
		if ar == 1 {
			return gen.Call(name, a)
		}
		return gen.Call(name, a, gen.Add(a, gen.Lit(1)))
	}
	call := func(a *gen.Expr) *gen.Expr { return callAs("f", a) }
	x := gen.Var("x")
	yn := func(c *gen.Expr) *gen.Stmt {
		return gen.IfElse(true, c, []*gen.Stmt{gen.Text("Y")}, []*gen.Stmt{gen.Text("N")})
	}
	switch vrt.Choice(10) {
	case 0:
		prog = append(prog, gen.Out(call(x)))
	case 1:
		prog = append(prog, gen.Out(call(call(x)))) // the value passed on; calls nested in both arguments
	case 2:
		prog = append(prog, gen.Let("v", call(x)), gen.Out(gen.Var("v")), gen.Out(gen.Add(gen.Var("v"), gen.Lit(1))))
	case 3:
		prog = append(prog, yn(gen.Eq(call(x), gen.Var("t"))))
	case 4:
		prog = append(prog, gen.Out(gen.Add(call(x), call(gen.Lit(2))))) // two calls in one expression
	case 5:
		prog = append(prog, gen.For("", "e", gen.Var("xs"), []*gen.Stmt{gen.Out(call(gen.Var("e")))}))
	case 6:
		prog = append(prog, gen.Out(call(gen.Nil()))) // nil argument
	case 7:
		prog = append(prog, yn(call(gen.Var("u"))), gen.Out(x)) // failing argument in a tolerant position
	case 8:
		// the call as a condition (a failing body is tolerated or fails the render), then the caller's names are read
		prog = append(prog, yn(call(x)), yn(gen.Var("p")), gen.Out(x))
	default:
		prog = append(prog, gen.Let("g", gen.Var("f")), gen.Out(callAs("g", x))) // first class
	}
	gen.Check(prog, gen.NewData(2), "user function from the grammar")
}

// ---- a function that returns a collection yields that collection: an array of
// 0, 1, 2 elements, a nested array, a hash - indexed, measured, iterated and
// passed on like the same literal bound by let
func ReturnedCollections() {
	a, b := vrt.Int(), vrt.Int()
	ctx := plush.NewContext()
	ctx.Set("a", a)
	ctx.Set("b", b)
	lits := []string{"[]", "[a]", "[a, b]", "[[a, b]]", "[[a]]", "{\"k\": a}", "[a, b, a]"}
	lit := lits[vrt.Choice(len(lits))]
	uses := []string{
		"<%= len(r) %>",
		"<%= r[0] %>",
		"<%= for (v) in r { %>(<%= v %>)<% } %>",
		"<%= len(r[0]) %>",
		"<%= r[0][0] %>",
		"<%= r[\"k\"] %>",
		"<% let g = fn(xs) { return len(xs) } %><%= g(r) %>",
		"<%= if (r) { %>T<% } else { %>F<% } %>",
	}
	use := uses[vrt.Choice(len(uses))]
	def := "<% let f = fn(p) { return " + lit + " } %><% let r = f(1) %>"
	if vrt.Choice(2) == 1 {
		// the return sits inside a block of the body
		def = "<% let f = fn(p) { if (p == 1) { return " + lit + " } return 0 } %><% let r = f(1) %>"
	}
	in := def + "[" + use + "]"
	ref := "<% let r = " + lit + " %>[" + use + "]"
	vrt.Note("input", in)
	got, err := plush.Render(in, ctx)
	vrt.Note("got", got)
	want, werr := plush.Render(ref, ctx)
	vrt.Note("want", want)
	vrt.Assert((err == nil) == (werr == nil), "a returned collection behaves like the literal: same verdict: "+lit)
	vrt.Assert(got == want, "a returned collection behaves like the literal it was returned as: "+lit)
	vrt.Cover("done")
}

// ---- a name in call position denotes whatever function is bound to it at that
// moment: the same parameter / loop variable / let name bound to different
// functions one after the other (higher-order calls repeated with other
// functions, a parameter named like a function that was already called, a loop
// over stored functions, a let that replaces a function)
func NamesRebound() {
	x := vrt.Int()
	ctx := plush.NewContext()
	ctx.Set("x", x)
	const defs = "<% let inc = fn(n) { return n + 1 } %><% let dbl = fn(n) { return n + n } %><% let neg = fn(n) { return 0 - n } %><% let apply = fn(f, v) { return f(v) } %>"
	i1, d, n := strconv.Itoa(x+1), strconv.Itoa(x+x), strconv.Itoa(0-x)
	type cs struct{ in, want string }
	cases := []cs{
		{"<%= apply(inc, x) %>;<%= apply(dbl, x) %>;<%= apply(inc, x) %>;<%= apply(neg, x) %>", i1 + ";" + d + ";" + i1 + ";" + n},
		{"<%= inc(x) %>;<% let call = fn(inc) { return inc(x) } %><%= call(dbl) %>;<%= inc(x) %>;<%= call(neg) %>", i1 + ";" + d + ";" + i1 + ";" + n},
		{"<%= for (f) in [inc, dbl, neg, inc] { %><%= f(x) %>;<% } %>", i1 + ";" + d + ";" + n + ";" + i1 + ";"},
		{"<% let f = inc %><%= f(x) %>;<% let f = dbl %><%= f(x) %>;<% f = neg %><%= f(x) %>", i1 + ";" + d + ";" + n},
		{"<% let twice = fn(g, v) { return g(g(v)) } %><%= twice(inc, x) %>;<%= twice(neg, x) %>;<%= twice(dbl, 1) %>", strconv.Itoa(x+2) + ";" + strconv.Itoa(0-(0-x)) + ";4"},
		{"<% let pick = fn(k) { if (k == 0) { return inc } return dbl } %><% let g = pick(0) %><%= g(x) %>;<% let g = pick(1) %><%= g(x) %>", i1 + ";" + d},
	}
	c := cases[vrt.Choice(len(cases))]
	in := defs + c.in
	vrt.Note("input", in)
	got, err := plush.Render(in, ctx)
	vrt.Note("got", got)
	vrt.Assert(err == nil, "functions passed on, stored and rebound render")
	vrt.Assert(got == c.want, "a call runs the function its name is bound to at that moment")
	vrt.Cover("done")
}

// ---- the first return reached is the value of the call also when it is reached
// inside a loop of the body: the rest of the loop and what follows it are skipped
func ReturnInsideLoops() {
	a, b, c, y := vrt.Int(), vrt.Int(), vrt.Int(), vrt.Int()
	ctx := plush.NewContext()
	ctx.Set("xs", []int{a, b, c})
	ctx.Set("m", map[string]int{"k": a})
	ctx.Set("y", y)
	ctx.Set("a", a)
	var seen []int
	ctx.Set("note", func(i int) int { seen = append(seen, i); return i })
	first := func(d int) int { // the first element equal to y, else d
		for _, x := range []int{a, b, c} {
			if x == y {
				return x
			}
		}
		return d
	}
	var in string
	var want int
	visits := -1
	switch vrt.Choice(9) {
	case 0:
		in, want = "<% let f = fn(l, t) { for (x) in l { if (x == t) { return x } } return 7 } %>[<%= f(xs, y) %>]", first(7)
	case 1:
		in, want = "<% let f = fn(l) { for (x) in l { return x } return 7 } %>[<%= f(xs) %>]", a
	case 2:
		in, want = "<% let f = fn(d) { for (k, v) in d { return v } return 7 } %>[<%= f(m) %>]", a
	case 3:
		vrt.Assume(a < 1<<62) // a + 2 does not wrap: the range is not empty
		in, want = "<% let f = fn() { for (v) in range(a, a + 2) { return v } return 7 } %>[<%= f() %>]", a
	case 4:
		in, want = "<% let f = fn(l, t) { for (x) in l { for (z) in l { if (z == t) { return z } } } return 7 } %>[<%= f(xs, y) %>]", first(7)
	case 5:
		in, want = "<% let f = fn(l) { for (x) in l { note(x) \n return x } note(7) \n return 7 } %>[<%= f(xs) %>]", a
		visits = 1
	case 6: // the value can be tested and computed with
		in, want = "<% let f = fn(l) { for (x) in l { return x } return 7 } %>[<%= f(xs) + 1 %>]", a+1
	case 7: // a loop that returns nothing leaves the code after it in charge
		in, want = "<% let f = fn(l, t) { for (x) in l { if (x == t) { let w = 1 } } return 7 } %>[<%= f(xs, y) %>]", 7
	default: // the caller's own loop goes on
		in = "<% let f = fn(l) { for (x) in l { return x } return 7 } %>[<%= for (i) in [1, 2] { %><%= f(xs) %>;<% } %>]"
		out, err := plush.Render(in, ctx)
		vrt.Assert(err == nil, "a function with a return inside a loop renders")
		vrt.Assert(out == "["+strconv.Itoa(a)+";"+strconv.Itoa(a)+";]", "a return inside a loop of the callee ends the call, not the caller's loop")
		vrt.Cover("done")
		return
	}
	vrt.Note("input", in)
	out, err := plush.Render(in, ctx)
	vrt.Assert(err == nil, "a function with a return inside a loop renders")
	vrt.Assert(out == "["+strconv.Itoa(want)+"]", "the first return reached is the value of the call, also inside a loop")
	if visits >= 0 {
		vrt.Assert(len(seen) == visits, "everything after the first return reached is skipped")
	}
	vrt.Cover("done")
}

// ---- the value of a call can be passed on like any other value: a path that
// hangs off the call
type userR struct {
	Name string
	Kids []userR
}

func (u userR) Hi() string { return "hi " + u.Name }
func (u userR) Kid() userR { return u.Kids[0] }

func ResultsChained() {
	n, k := vrt.BytesIn(2, "ab<"), vrt.BytesIn(2, "cd&")
	u := userR{Name: n, Kids: []userR{{Name: k}}}
	ctx := plush.NewContext()
	ctx.Set("user", u)
	cases := []struct{ in, want string }{
		{"f().Name", n},
		{"f().Hi()", "hi " + n},
		{"f().Kids[0].Name", k},
		{"f().Kid().Name", k},
		{"f().Kid().Hi()", "hi " + k},
		{"g(user).Name", n},
		{"g(user.Kids[0]).Hi()", "hi " + k},
	}
	c := cases[vrt.Choice(len(cases))]
	in := "<% let f = fn() { return user } %><% let g = fn(p) { return p } %>[<%= " + c.in + " %>]"
	ref := "[<%= w %>]"
	ctx.Set("w", c.want)
	got, err := plush.Render(in, ctx)
	want, _ := plush.Render(ref, ctx)
	vrt.Assert(err == nil, "a path hanging off the call of a template function renders: "+c.in)
	vrt.Assert(got == want, "the value of the call is passed on to the rest of the path: "+c.in)
	vrt.Cover("done")
}

// ---- a function whose body spans tags and has put out text when the return is
// reached: emitting the call emits the returned value (what the body rendered
// before it may stand in front, the statement does not say), and nothing of
// what follows the return
func ReturnAfterText() {
	v := vrt.Int()
	ctx := plush.NewContext()
	ctx.Set("v", v)
	V := strconv.Itoa(v)
	bodies := []string{
		"%>A<% return p %>Z<% ",
		"%>A<% if (p == v) { return p } %>Z<% ",
		"%>A<%= 7 %>B<% if (true) { if (true) { return p } } %>Z<% ",
		"%><td><% if (p == v) { return p } %><%= 8 %></td><% ",
		"%>A<% for (i) in [1, 2] { %>B<% return p %>Y<% } %>Z<% ",
	}
	k := vrt.Choice(len(bodies))
	body := bodies[k]
	pre := []string{"A", "A", "A7B", "<td>", "AB"}[k]
	in := "<% let f = fn(p) { " + body + "} %>[<%= f(v) %>]"
	vrt.Note("input", in)
	got, err := plush.Render(in, ctx)
	vrt.Note("got", got)
	vrt.Assert(err == nil, "a function that renders text before its return renders")
	vrt.Assert(got == "["+pre+V+"]" || got == "["+V+"]", "emitting the call emits the value of the return that was reached (after what the body rendered before it, or alone) and nothing of what follows the return")
	vrt.Cover("done")
}
