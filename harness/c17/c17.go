// Package c17: rendering via partial / layout / contentFor / block helpers equals rendering inline.
package c17

import (
	"context"
	"html/template"
	"strconv"

	plush "github.com/gobuffalo/plush/v5"

	"verifharness/vrt"
)

func init() {
	vrt.Register("C17_partial", Partial)
	vrt.Register("C17_layout", Layout)
	vrt.Register("C17_content_type", ContentType)
	vrt.Register("C17_content_for_of", ContentForOf)
	vrt.Register("C17_block_helper", BlockHelper)
	vrt.Register("C17_block_left_early", BlockLeftEarly)
	vrt.Register("C17_go_context_in_scopes", GoContextInScopes)
	vrt.Register("C17_stored_block_same_everywhere", StoredBlockSameEverywhere)
	vrt.Register("C17_nested_partials", NestedPartials)
	vrt.Register("C17_shared_data_map", SharedDataMap)
	vrt.Register("C17_content_of_in_scopes", ContentOfInScopes)
	vrt.Register("C17_same_call_site_again", SameCallSiteAgain)
}

// bodies of partials / blocks; they read v (data), c (caller's variable) and xs
var bodies = []string{
	"plain text & <b>",
	"v=<%= v %>;",
	"c=<%= c %>;v=<%= v %>;",
	"<%= for (x) in xs { %>(<%= x %>,<%= v %>)<% } %>",
	"<%= if (v == c) { %>same<% } else { %>diff:<%= v %><% } %>",
	"<% let w = v %>w=<%= w %>",
	"<%= v + c %>|<%= raw(v) %>",
}

func val() string {
	return vrt.Bytes(vrt.IntRange(0, 1+vrt.Tier()))
}

type env struct {
	v, c string
	lit  string
}

func (e env) ctx(withData bool, feeder func(string) (string, error)) *plush.Context {
	ctx := plush.NewContext()
	ctx.Set("c", e.c)
	ctx.Set("xs", []string{"1", e.lit})
	ctx.Set("V", e.v)
	if withData {
		ctx.Set("v", e.v)
	}
	if feeder != nil {
		ctx.Set("partialFeeder", feeder)
	}
	return ctx
}

func mkEnv() env {
	e := env{v: val(), c: val(), lit: vrt.Bytes(1)}
	return e
}

// inline: what the body renders to when written inline in the caller's scope extended with the data
func inline(body string, e env) (string, error) {
	return plush.Render(body, e.ctx(true, nil))
}

func Partial() {
	e := mkEnv()
	body := bodies[vrt.Choice(len(bodies))]
	feeder := func(name string) (string, error) { return body, nil }
	in := "[<%= partial(\"body\", {v: V}) %>|<%= c %>]"
	vrt.Note("input", in)
	vrt.Note("body", body)
	got, err := plush.Render(in, e.ctx(false, feeder))
	vrt.Note("got", got)
	want, werr := inline(body, e)
	vrt.Assert((err == nil) == (werr == nil), "the partial fails exactly when the inline source fails")
	if err == nil {
		cOut, _ := plush.Render("<%= c %>", e.ctx(false, nil))
		vrt.Assert(got == "["+want+"|"+cOut+"]", "partial(name, data) inserts, unescaped and exactly once, what the partial's text renders to in the caller's scope extended with data")
	}
	// the data does not leak into the caller
	_, lerr := plush.Render("<%= partial(\"body\", {v: V}) %><%= v %>", e.ctx(false, feeder))
	vrt.Assert(lerr != nil, "names set by the partial's data are unknown after it")
	vrt.Cover("done")
}

func Layout() {
	e := mkEnv()
	body := bodies[vrt.Choice(len(bodies))]
	nested := vrt.Bool()
	feeder := func(name string) (string, error) {
		switch name {
		case "lay":
			return "L[<%= yield %>]L", nil
		case "lay2":
			return "<%= partial(\"inner\", {layout: \"lay\", v: v}) %>", nil
		case "inner":
			return "I(<%= v %>)", nil
		}
		return body, nil
	}
	in := "<%= partial(\"body\", {v: V, layout: \"lay\"}) %>"
	got, err := plush.Render(in, e.ctx(false, feeder))
	vrt.Note("got", got)
	want, werr := inline(body, e)
	vrt.Assert((err == nil) == (werr == nil), "the partial fails exactly when the inline source fails")
	if err == nil {
		vrt.Assert(got == "L["+want+"]L", "with a layout the partial's result appears, unescaped and once, at the layout's yield")
	}
	if nested {
		got2, err2 := plush.Render("<%= partial(\"lay2\", {v: V}) %>", e.ctx(false, feeder))
		inner, _ := plush.Render("I(<%= v %>)", e.ctx(true, nil))
		vrt.Assert(err2 == nil, "a partial that uses a partial with a layout renders")
		vrt.Assert(got2 == "L["+inner+"]L", "nested partial with layout")
	}
	vrt.Cover("done")
}

// JavaScript escaping: only for a javascript content type and a partial name with an extension other than .js
func ContentType() {
	e := mkEnv()
	body := bodies[1+vrt.Choice(2)]
	feeder := func(name string) (string, error) { return body, nil }
	names := []string{"body", "body.js", "body.html"}
	name := names[vrt.Choice(len(names))]
	cts := []string{"", "text/html", "application/javascript"}
	ct := cts[vrt.Choice(len(cts))]
	ctx := e.ctx(false, feeder)
	if ct != "" {
		ctx.Set("contentType", ct)
	}
	got, err := plush.Render("<%= partial(\""+name+"\", {v: V}) %>", ctx)
	vrt.Note("got", got)
	want, werr := inline(body, e)
	vrt.Assert(err == nil && werr == nil, "the partial renders")
	if ct == "application/javascript" && name == "body.html" {
		vrt.Assert(got == template.JSEscapeString(want), "a non-.js partial included in a javascript response is JavaScript-escaped")
	} else {
		vrt.Assert(got == want, "no JavaScript escaping otherwise")
	}
	vrt.Cover("done")
}

func ContentForOf() {
	e := mkEnv()
	v2 := val()
	body := bodies[vrt.Choice(len(bodies))]
	ctx := e.ctx(false, nil)
	ctx.Set("V2", v2)
	def := "<% contentFor(\"c1\") { %>" + body + "<% } %>"
	e2 := e
	e2.v = v2
	w1, werr1 := inline(body, e)
	w2, werr2 := inline(body, e2)
	var in, want string
	wantErr := false
	switch vrt.Choice(8) {
	case 6: // a later use that omits a key sees the caller's value, not the earlier call's
		ctx.Set("v", v2)
		in, want = def+"[<%= contentOf(\"c1\", {v: V}) %>|<%= contentOf(\"c1\") %>]", "["+w1+"|"+w2+"]"
		wantErr = werr1 != nil || werr2 != nil
	case 7: // the other way round
		ctx.Set("v", v2)
		in, want = def+"[<%= contentOf(\"c1\") %>|<%= contentOf(\"c1\", {v: V}) %>|<%= contentOf(\"c1\") %>]", "["+w2+"|"+w1+"|"+w2+"]"
		wantErr = werr1 != nil || werr2 != nil
	case 0: // contentFor emits nothing where defined
		in, want = "["+def+"]", "[]"
	case 1:
		in, want = def+"[<%= contentOf(\"c1\", {v: V}) %>]", "["+w1+"]"
		wantErr = werr1 != nil
	case 2: // used twice with different data
		in, want = def+"[<%= contentOf(\"c1\", {v: V}) %>|<%= contentOf(\"c1\", {v: V2}) %>]", "["+w1+"|"+w2+"]"
		wantErr = werr1 != nil || werr2 != nil
	case 3: // undefined name without a default block
		in, wantErr = "[<%= contentOf(\"nope\", {v: V}) %>]", true
	case 4: // undefined name with a default block
		in, want = "[<%= contentOf(\"nope\", {v: V}) { %>"+body+"<% } %>]", "["+w1+"]"
		wantErr = werr1 != nil
	default: // defined name: the default block is not used
		in, want = def+"[<%= contentOf(\"c1\", {v: V2}) { %>default<% } %>]", "["+w2+"]"
		wantErr = werr2 != nil
	}
	vrt.Note("input", in)
	got, err := plush.Render(in, ctx)
	vrt.Note("got", got)
	if wantErr {
		vrt.Assert(err != nil, "undefined contentOf without a block, or a failing block, is an error")
	} else {
		vrt.Assert(err == nil, "contentFor / contentOf render")
		vrt.Assert(got == want, "contentFor emits nothing where defined; every contentOf emits what the stored block renders with its data added")
	}
	vrt.Cover("done")
}

type blockRec struct{ got []string }

func (b *blockRec) rec(help plush.HelperContext) (template.HTML, error) {
	s, err := help.Block()
	if err != nil {
		return "", err
	}
	b.got = append(b.got, s)
	return template.HTML("{" + s + "}"), nil
}

// a block helper receives exactly what its block renders to
func BlockHelper() {
	e := mkEnv()
	body := bodies[vrt.Choice(len(bodies))]
	r := &blockRec{}
	ctx := e.ctx(true, nil)
	ctx.Set("rec", r.rec)
	got, err := plush.Render("[<%= rec() { %>"+body+"<% } %>]", ctx)
	vrt.Note("got", got)
	want, werr := inline(body, e)
	vrt.Assert((err == nil) == (werr == nil), "the block fails exactly when the inline source fails")
	if err == nil {
		vrt.Assert(len(r.got) == 1, "the block is rendered once per Block() call")
		vrt.Assert(r.got[0] == want, "a block helper receives exactly what its block renders to")
		vrt.Assert(got == "[{"+want+"}]", "and the helper's result is inserted unescaped")
	}
	vrt.Cover("done")
}

// ... also when the block is left early: the helper is called in a loop body and its
// block reaches continue or break, or in a function body and its block reaches
// return. What the block rendered up to there is what the helper receives (what
// the statement compares with: the same source inline renders that text too).
func BlockLeftEarly() {
	e := mkEnv()
	r := &blockRec{}
	ctx := e.ctx(true, nil)
	ctx.Set("rec", r.rec)
	exits := []string{"continue", "break"}
	x := exits[vrt.Choice(len(exits))]
	body := "a<%= v %>" + e.lit + "<% " + x + " %>b<%= v %>"
	var in string
	switch vrt.Choice(3) {
	case 0:
		in = "<%= for (i) in [1] { %><%= rec() { %>" + body + "<% } %><% } %>"
	case 1:
		in = "<%= for (i) in [1] { %><%= if (true) { %><%= rec() { %>" + body + "<% } %><% } %><% } %>"
	default:
		in = "<%= for (i) in [1] { %><%= rec() { %><%= if (true) { %>" + body + "<% } %><% } %><% } %>"
	}
	vrt.Note("input", in)
	_, err := plush.Render(in, ctx)
	want, werr := plush.Render("<%= for (i) in [1] { %>"+body+"<% } %>", e.ctx(true, nil))
	vrt.Assert(werr == nil, "the inline source renders")
	vrt.Assert(err == nil, "a block that is left early renders")
	vrt.Assert(len(r.got) == 1, "the block is rendered once per Block() call")
	vrt.Assert(r.got[0] == want, "a block helper receives exactly what its block renders to, also when the block is left through continue or break")
	vrt.Cover("done")
}

// partial in partial to depth 3, each level adding data
func NestedPartials() {
	e := mkEnv()
	feeder := func(name string) (string, error) {
		switch name {
		case "p1":
			return "1(<%= v %><%= partial(\"p2\", {u: c}) %>)", nil
		case "p2":
			return "2(<%= v %><%= u %><%= partial(\"p3\", {t: \"T\"}) %>)", nil
		}
		return "3(<%= v %><%= u %><%= t %>)", nil
	}
	got, err := plush.Render("<%= partial(\"p1\", {v: V}) %>", e.ctx(false, feeder))
	vrt.Note("got", got)
	ctx := e.ctx(true, nil)
	ctx.Set("u", e.c)
	ctx.Set("t", "T")
	want, _ := plush.Render("1(<%= v %>2(<%= v %><%= u %>3(<%= v %><%= u %><%= t %>)))", ctx)
	vrt.Assert(err == nil, "nested partials render")
	vrt.Assert(got == want, "nested partials equal the inlined source; inner partials see the outer partials' data")
	vrt.Cover("done")
}

// one data map (bound with let, or supplied from Go) handed to several partial calls
func SharedDataMap() {
	e := mkEnv()
	feeder := func(name string) (string, error) {
		switch name {
		case "lay":
			return "L[<%= yield %>]L", nil
		case "a":
			return "A:<%= v %>", nil
		}
		return "B:<%= v %>", nil
	}
	ctx := e.ctx(false, feeder)
	ctx.Set("gomap", map[string]interface{}{"layout": "lay", "v": e.v})
	av, _ := plush.Render("A:<%= v %>", e.ctx(true, nil))
	bv, _ := plush.Render("B:<%= v %>", e.ctx(true, nil))
	var in, want string
	switch vrt.Choice(4) {
	case 0:
		in = "<% let opts = {layout: \"lay\", v: V} %><%= partial(\"a\", opts) %>|<%= partial(\"b\", opts) %>"
		want = "L[" + av + "]L|L[" + bv + "]L"
	case 1:
		in = "<%= partial(\"a\", gomap) %>|<%= partial(\"b\", gomap) %>|<%= partial(\"a\", gomap) %>"
		want = "L[" + av + "]L|L[" + bv + "]L|L[" + av + "]L"
	case 2:
		in = "<% let opts = {layout: \"lay\", v: V} %><%= for (i) in [1, 2] { %><%= partial(\"a\", opts) %>;<% } %>"
		want = "L[" + av + "]L;L[" + av + "]L;"
	default:
		in = "<% let opts = {v: V} %><%= partial(\"a\", opts) %>|<%= partial(\"b\", opts) %>"
		want = av + "|" + bv
	}
	vrt.Note("input", in)
	got, err := plush.Render(in, ctx)
	vrt.Note("got", got)
	vrt.Assert(err == nil, "partials sharing a data map render")
	vrt.Assert(got == want, "every partial call with the same data renders the same way: the data map is not consumed")
	vrt.Cover("done")
}

// contentOf / a block helper used inside a loop or a function body: it emits what
// the block renders to, and the rest of the enclosing body renders as if it were inline
func ContentOfInScopes() {
	e := mkEnv()
	body := bodies[1+vrt.Choice(2)]
	ctx := e.ctx(false, nil)
	ctx.Set("own", func(help plush.HelperContext) (template.HTML, error) {
		s, err := help.BlockWith(help.New())
		return template.HTML(s), err
	})
	w, werr := inline(body, e)
	vrt.Assume(werr == nil)
	def := "<% contentFor(\"c1\") { %>" + body + "<% } %>"
	cOut, _ := plush.Render("<%= c %>", e.ctx(false, nil))
	var in, want string
	switch vrt.Choice(4) {
	case 0:
		in = def + "<%= for (i, x) in xs { %>[<%= contentOf(\"c1\", {v: V}) %>|<%= i %>]<% } %>"
		want = "[" + w + "|0][" + w + "|1]"
	case 1:
		in = def + "<% let f = fn(p) { %>[<%= contentOf(\"c1\", {v: V}) %>|<%= p %>]<% } %><%= f(c) %>"
		want = "[" + w + "|" + cOut + "]"
	case 2:
		in = def + "<%= for (i, x) in xs { %><% let loc = i %>[<%= contentOf(\"c1\", {v: V}) %>|<%= loc %>]<% } %>"
		want = "[" + w + "|0][" + w + "|1]"
	default:
		in = "<%= for (i, x) in xs { %>[<%= own() { %><%= i %><% } %>|<%= i %>]<% } %>"
		want = "[0|0][1|1]"
	}
	vrt.Note("input", in)
	got, err := plush.Render(in, ctx)
	vrt.Note("got", got)
	vrt.Assert(err == nil, "contentOf / a block helper inside a loop or function renders")
	vrt.Assert(got == want, "the composed form equals the inline form also for what follows it in the same scope")
	vrt.Cover("done")
}

// ---- one textual helper call (partial, a block helper, contentOf) evaluated
// more than once under different scopes - a stored block emitted twice with
// other data, a user function called twice, an inner loop entered again by the
// outer one: each evaluation renders in the scope it is made from, as the
// inlined source does
func SameCallSiteAgain() {
	a, b, c, d := vrt.Int(), vrt.Int(), vrt.Int(), vrt.Int()
	ctx := plush.NewContext()
	ctx.Set("a", a)
	ctx.Set("b", b)
	ctx.Set("rows", [][]int{{a, b}, {c, d}})
	ctx.Set("partialFeeder", func(name string) (string, error) { return "<%= v %>", nil })
	ctx.Set("blk", func(help plush.HelperContext) (template.HTML, error) {
		s, err := help.Block()
		return template.HTML(s), err
	})
	A, B, C, D := strconv.Itoa(a), strconv.Itoa(b), strconv.Itoa(c), strconv.Itoa(d)
	type cs struct{ in, want string }
	cases := []cs{
		{"<% contentFor(\"c\") { %>[<%= partial(\"cell\") %>]<% } %><%= contentOf(\"c\", {v: a}) %><%= contentOf(\"c\", {v: b}) %>", "[" + A + "][" + B + "]"},
		{"<% contentFor(\"c\") { %>[<%= blk() { %><%= v %><% } %>]<% } %><%= contentOf(\"c\", {v: a}) %><%= contentOf(\"c\", {v: b}) %>", "[" + A + "][" + B + "]"},
		{"<% let f = fn(v) { return partial(\"cell\") } %><%= f(a) %>|<%= f(b) %>|<%= f(a) %>", A + "|" + B + "|" + A},
		{"<% let f = fn(v) { return blk() { %><%= v %><% } } %><%= f(a) %>|<%= f(b) %>", A + "|" + B},
		{"<%= for (r) in rows { %><%= for (v) in r { %>[<%= partial(\"cell\") %>]<% } %>|<% } %>", "[" + A + "][" + B + "]|[" + C + "][" + D + "]|"},
		{"<%= for (r) in rows { %><%= for (v) in r { %>[<%= blk() { %><%= v %><% } %>]<% } %>|<% } %>", "[" + A + "][" + B + "]|[" + C + "][" + D + "]|"},
		{"<%= for (v) in rows[0] { %>[<%= partial(\"cell\") %>]<% } %><%= for (v) in rows[1] { %>(<%= partial(\"cell\") %>)<% } %>", "[" + A + "][" + B + "](" + C + ")(" + D + ")"},
		{"<% contentFor(\"c\") { %><%= v %>,<% } %><% let g = fn(v) { return contentOf(\"c\", {v: v}) } %><%= g(a) %><%= g(b) %>", A + "," + B + ","},
	}
	k := cases[vrt.Choice(len(cases))]
	vrt.Note("input", k.in)
	got, err := plush.Render(k.in, ctx)
	vrt.Note("got", got)
	vrt.Assert(err == nil, "a helper call evaluated again in another scope renders")
	vrt.Assert(got == k.want, "every evaluation of a helper call renders in the scope it is made from")
	vrt.Cover("done")
}

// ---- "the same text as inline in the caller's scope" also for helpers that ask their
// context for what the Go context carries (a value under a key that is not a string)
type goKey struct{}

type valueCtx struct {
	context.Context
	v string
}

func (c valueCtx) Value(k interface{}) interface{} {
	if _, ok := k.(goKey); ok {
		return c.v
	}
	return c.Context.Value(k)
}

func GoContextInScopes() {
	v := vrt.BytesIn(2, "ab<")
	mk := func() *plush.Context {
		ctx := plush.NewContextWithContext(valueCtx{context.Background(), v})
		ctx.Set("who", func(h plush.HelperContext) string {
			s, _ := h.Value(goKey{}).(string)
			return "(" + s + ")"
		})
		ctx.Set("rec", func(h plush.HelperContext) (template.HTML, error) {
			s, err := h.Block()
			return template.HTML(s), err
		})
		ctx.Set("partialFeeder", func(string) (string, error) { return "<%= who() %>", nil })
		return ctx
	}
	sites := []string{
		"<%= partial(\"p\") %>",
		"<% contentFor(\"c\") { %><%= who() %><% } %><%= contentOf(\"c\") %>",
		"<%= contentOf(\"nope\") { %><%= who() %><% } %>",
		"<%= for (i) in [1] { %><%= who() %><% } %>",
		"<% let f = fn() { return who() } %><%= f() %>",
		"<%= rec() { %><%= who() %><% } %>",
		"<%= if (true) { %><%= who() %><% } %>",
	}
	site := sites[vrt.Choice(len(sites))]
	vrt.Note("input", site)
	got, err := plush.Render(site, mk())
	want, werr := plush.Render("<%= who() %>", mk())
	vrt.Assert(werr == nil && err == nil, "the helper renders in every scope")
	vrt.Assert(got == want, "a helper called in a nested scope sees the Go context the caller's scope carries")
	vrt.Cover("done")
}

// ---- "every later contentOf(name) emits what the stored block renders": the same
// text wherever the call stands (top level, a loop body, an if block, the body of
// a template function), also for blocks that hold loops, returns and exits
func StoredBlockSameEverywhere() {
	e := mkEnv()
	ctx := e.ctx(true, nil)
	blocks := []string{
		"<%= for (x) in xs { %><% return x %><% } %>!",
		"<%= for (x) in xs { %><%= x %><% if (x == \"1\") { break } %><% } %>!",
		"<%= v %><%= if (true) { %>t<% } %>",
		"<% let f = fn() { for (x) in xs { return x } return 9 } %><%= f() %>!",
	}
	b := blocks[vrt.Choice(len(blocks))]
	def := "<% contentFor(\"c\") { %>" + b + "<% } %>"
	top, err := plush.Render(def+"[<%= contentOf(\"c\") %>]", e.ctx(true, nil))
	vrt.Assert(err == nil, "the stored block renders at the top level")
	var in string
	switch vrt.Choice(4) {
	case 0:
		in = def + "<% let g = fn() { return contentOf(\"c\") } %>[<%= g() %>]"
	case 1:
		in = def + "<%= for (i) in [1] { %>[<%= contentOf(\"c\") %>]<% } %>"
	case 2:
		in = def + "<%= if (true) { %>[<%= contentOf(\"c\") %>]<% } %>"
	default:
		in = def + "<% let g = fn() { for (i) in [1] { return contentOf(\"c\") } return 0 } %>[<%= g() %>]"
	}
	vrt.Note("input", in)
	got, err := plush.Render(in, ctx)
	vrt.Assert(err == nil, "the stored block renders wherever contentOf stands")
	vrt.Assert(got == top, "contentOf emits what the stored block renders, the same text wherever the call stands")
	vrt.Cover("done")
}
