package c17

// Values whose text depends on the scope they are written in: plush formats a
// time.Time with the TIME_FORMAT visible in the current scope. A partial,
// contentOf or a block helper given its own TIME_FORMAT in data must render the
// time exactly as the inline form does in the scope extended with that data.

import (
	"html/template"
	"time"

	plush "github.com/gobuffalo/plush/v5"

	"verifharness/vrt"
)

func init() {
	vrt.Register("C17_scope_dependent_values", ScopeDependentValues)
}

func ScopeDependentValues() {
	tm := time.Date(2021, time.March, 4+vrt.IntRange(0, 3), 5, 6, 7, 0, time.UTC)
	outerFmts := []string{"", "2006", "Jan 2"}
	innerFmts := []string{"15:04", "2006-01-02", "Monday"}
	of := outerFmts[vrt.Choice(len(outerFmts))]
	inf := innerFmts[vrt.Choice(len(innerFmts))]
	mk := func(format string) *plush.Context {
		c := plush.NewContext()
		c.Set("tm", tm)
		c.Set("tp", &tm)
		c.Set("F", inf)
		if format != "" {
			c.Set("TIME_FORMAT", format)
		}
		c.Set("partialFeeder", func(name string) (string, error) { return "<%= tm %>/<%= tp %>", nil })
		c.Set("own", func(help plush.HelperContext) (template.HTML, error) {
			child := help.New()
			child.Set("TIME_FORMAT", inf)
			s, err := help.BlockWith(child)
			return template.HTML(s), err
		})
		return c
	}
	outer, err := plush.Render("<%= tm %>/<%= tp %>", mk(of))
	vrt.Assert(err == nil, "a time value renders")
	inner, err := plush.Render("<%= tm %>/<%= tp %>", mk(inf))
	vrt.Assert(err == nil, "a time value renders under another format")
	vrt.Assert(outer != inner, "the two formats give different texts (harness sanity)")
	inner1, err := plush.Render("<%= tm %>", mk(inf))
	vrt.Assert(err == nil, "a time value renders under another format")
	var in, want string
	switch vrt.Choice(9) {
	case 6: // the value leaves the block through return: still a time when the block is done
		in, want = "<% contentFor(\"c\") { %>[<% return tm %><% } %><%= contentOf(\"c\", {TIME_FORMAT: F}) %>", "["+inner1
	case 7:
		in, want = "<%= contentOf(\"none\", {TIME_FORMAT: F}) { %>[<% return tm %><% } %>", "["+inner1
	case 8:
		in, want = "<%= own() { %>[<% return tm %><% } %>", "["+inner1
	case 0:
		in, want = "<%= partial(\"p\", {TIME_FORMAT: F}) %>|<%= tm %>/<%= tp %>", inner+"|"+outer
	case 1:
		in = "<% contentFor(\"c\") { %><%= tm %>/<%= tp %><% } %><%= contentOf(\"c\", {TIME_FORMAT: F}) %>|<%= contentOf(\"c\") %>"
		want = inner + "|" + outer
	case 2:
		in, want = "<%= contentOf(\"none\", {TIME_FORMAT: F}) { %><%= tm %>/<%= tp %><% } %>|<%= tm %>/<%= tp %>", inner+"|"+outer
	case 3:
		in, want = "<%= own() { %><%= tm %>/<%= tp %><% } %>|<%= tm %>/<%= tp %>", inner+"|"+outer
	case 4:
		in, want = "<%= partial(\"p\") %>|<%= partial(\"p\", {TIME_FORMAT: F}) %>", outer+"|"+inner
	default:
		in, want = "<%= for (i) in [1] { %><%= own() { %><%= tm %>/<%= tp %><% } %><% } %>|<%= tm %>/<%= tp %>", inner+"|"+outer
	}
	vrt.Note("input", in)
	got, err := plush.Render(in, mk(of))
	vrt.Note("got", got)
	vrt.Assert(err == nil, "the composition renders")
	vrt.Assert(got == want, "a scope-dependent value is written as in the inline form of the equivalent scope")
	vrt.Cover("done")
}
