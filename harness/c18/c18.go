// Package c18: layout inside code tags is insignificant: whitespace, comments, tag splitting.
package c18

import (
	plush "github.com/gobuffalo/plush/v5"

	"verifharness/vrt"
)

func init() {
	vrt.Register("C18_separators", Separators)
	vrt.Register("C18_line_comments", LineComments)
	vrt.Register("C18_tag_split_merge", TagSplitMerge)
	vrt.Register("C18_comment_tags", CommentTags)
	vrt.Register("C18_comment_tags_quote_hash", CommentTagsQuoteHash)
	vrt.Register("C18_comment_tags_non_ascii", CommentTagsNonASCII)
	vrt.Register("C18_comments_in_blocks", CommentsInBlocks)
}

// a program: statements (token lists) of code tags, then a tail that shows the state
type program struct {
	stmts [][]string
	tail  string
}

var programs = []program{
	{[][]string{{"let", "x", "=", "1"}, {"let", "y", "=", "x", "+", "2"}}, "<%= x %>,<%= y %>"},
	{[][]string{{"let", "x", "=", "1"}, {"x", "=", "x", "*", "5"}, {"let", "y", "=", "[", "x", ",", "7", "]"}}, "<%= x %>,<%= y[1] %>"},
	{[][]string{{"if", "(", "a", "==", "1", ")", "{", "let", "x", "=", "3", "}"}, {"let", "w", "=", "4"}}, "<%= w %>"},
	{[][]string{{"if", "(", "a", ")", "{", "let", "x", "=", "3", "}", "else", "{", "let", "x", "=", "5", "}"}, {"let", "w", "=", "x", "+", "1"}}, "<%= w %>"},
	{[][]string{{"let", "s", "=", "0"}, {"for", "(", "v", ")", "in", "xs", "{", "s", "=", "s", "+", "v", "}"}, {"let", "w", "=", "s", "*", "2"}}, "<%= s %>,<%= w %>"},
	{[][]string{{"let", "f", "=", "fn", "(", "p", ",", "q", ")", "{", "return", "p", "+", "q", "}"}, {"let", "y", "=", "f", "(", "2", ",", "a", ")"}}, "<%= y %>"},
	{[][]string{{"let", "h", "=", "{", "k", ":", "1", ",", "j", ":", "a", "}"}, {"let", "y", "=", "h", "[", "\"j\"", "]"}}, "<%= y %>"},
	{[][]string{{"let", "b", "=", "!", "a", "&&", "true", "||", "a", "==", "1"}, {"let", "c", "=", "(", "a", "+", "2", ")", "*", "3"}}, "<%= b %>,<%= c %>"},
	{[][]string{{"let", "t", "=", "\"a b\""}, {"let", "u", "=", "t", "+", "`c`"}}, "<%= u %>"},
	{[][]string{{"let", "s", "=", "0"}, {"for", "(", "v", ")", "in", "same", "(", "xs", ")", "{", "s", "=", "s", "+", "v", "}"}, {"let", "w", "=", "s", "*", "2"}}, "<%= s %>,<%= w %>"},
	{[][]string{{"let", "s", "=", "0"}, {"for", "(", "v", ")", "in", "xs", "{", "for", "(", "u", ")", "in", "same", "(", "xs", ")", "{", "s", "=", "s", "+", "u", "}", "}"}, {"let", "w", "=", "s"}}, "<%= w %>"},
	{[][]string{{"let", "n", "=", "len", "(", "xs", ")"}, {"if", "(", "n", ">", "1", ")", "{", "n", "=", "n", "+", "10", "}"}, {"let", "m", "=", "n"}}, "<%= m %>"},
}

func isWord(t string) bool {
	c := t[0]
	return (c >= 'a' && c <= 'z') || (c >= 'A' && c <= 'Z') || (c >= '0' && c <= '9') || c == '_'
}

func newCtx() *plush.Context {
	ctx := plush.NewContext()
	ctx.Set("a", 1)
	ctx.Set("xs", []int{1, 2, 3})
	ctx.Set("same", func(v []int) []int { return v })
	return ctx
}

// canonical: one statement per tag, single spaces
func canonical(p program) string {
	s := ""
	for _, st := range p.stmts {
		s += "<%"
		for _, t := range st {
			s += " " + t
		}
		s += " %>"
	}
	return s + p.tail
}

func same(p program, relaid string) {
	canon := canonical(p)
	vrt.Note("canonical", canon)
	vrt.Note("input", relaid)
	want, werr := plush.Render(canon, newCtx())
	vrt.Assert(werr == nil, "the canonical layout renders (harness sanity)")
	got, err := plush.Render(relaid, newCtx())
	vrt.Note("got", got)
	vrt.Assert(err == nil, "a re-laid-out template still renders")
	vrt.Assert(got == want, "layout inside code tags does not change what a template renders to")
	vrt.Cover("done")
}

const ws = " \t\n\r"

// arbitrary white space (0-2 bytes; at least one where two words meet) at one or two token gaps
func Separators() {
	p := programs[vrt.Choice(len(programs))]
	// count gaps: before every token, and before the closing %>
	total := 0
	for _, st := range p.stmts {
		total += len(st) + 1
	}
	g1 := vrt.Choice(total)
	g2 := -1
	if vrt.Tier() > 0 {
		// a second varying gap: the next one, the one after, or the last gap of the program
		switch vrt.Choice(3) {
		case 0:
			g2 = g1 + 1
		case 1:
			g2 = g1 + 2
		default:
			g2 = total - 1
		}
	}
	max := 1 + vrt.Tier()
	s := ""
	g := 0
	for _, st := range p.stmts {
		s += "<%"
		prev := ""
		for i := 0; i <= len(st); i++ {
			next := "%>"
			if i < len(st) {
				next = st[i]
			}
			sep := " "
			if g == g1 || g == g2 {
				min := 0
				if prev != "" {
					if isWord(prev) {
						if isWord(next) {
							min = 1
						}
					}
				}
				sep = vrt.BytesIn(vrt.IntRange(min, max), ws)
			}
			s += sep + next
			prev = next
			g++
		}
	}
	same(p, s+p.tail)
}

// a # line comment (ended by \n or \r\n) at any gap
func LineComments() {
	p := programs[vrt.Choice(len(programs))]
	total := 0
	for _, st := range p.stmts {
		total += len(st) + 1
	}
	g1 := vrt.Choice(total)
	var body, end, after string
	if vrt.Bool() {
		// longer comment texts that look like code or like tag delimiters
		pool := []string{"%>", " was: <%= x %> before", " %> <% ", " let y = 9", "\" %>", "<%# %>"}
		body, end, after = pool[vrt.Choice(len(pool))], "\n", ""
	} else {
		body = vrt.BytesIn(vrt.IntRange(0, 1+vrt.Tier()), "c #%>\"{")
		end = "\n"
		if vrt.Bool() {
			end = "\r\n"
		}
		after = vrt.BytesIn(vrt.IntRange(0, 1), " \t")
	}
	s := ""
	g := 0
	for _, st := range p.stmts {
		s += "<%"
		for i := 0; i <= len(st); i++ {
			next := "%>"
			if i < len(st) {
				next = st[i]
			}
			if g == g1 {
				s += " #" + body + end + after + next
			} else {
				s += " " + next
			}
			g++
		}
	}
	same(p, s+p.tail)
}

// every way of cutting the statement sequence into tags; statements in one tag
// are separated by white space, a newline or a semicolon
func TagSplitMerge() {
	p := programs[vrt.Choice(len(programs))]
	s := "<%"
	for i, st := range p.stmts {
		if i > 0 {
			switch vrt.Choice(5) {
			case 0:
				s += " %><%"
			case 1:
				s += " "
			case 2:
				s += "\n"
			case 3:
				s += ";"
			default:
				s += " ;\n "
			}
		}
		for _, t := range st {
			s += " " + t
		}
	}
	s += " %>"
	same(p, s+p.tail)
}

// <%# %> comment tags between statement tags

// the same with the characters that start a string or a line comment in code
// (plush lexes the body of a comment tag as code; these characters used to swallow
// the closing %>: known_findings.json, repaired in 29ad1ed), one byte longer
func CommentTagsQuoteHash() { commentTags("c#\"`\\'<-", 1) }

func CommentTags() { commentTags("c \n{}(=1.,;", 0) }

// the same with arbitrary bytes outside ASCII (every value 0x80..0xff: valid 2-, 3-
// and 4-byte characters, stray continuation bytes, invalid lead bytes), directly
// in front of the closing %> or followed by one ASCII byte
func CommentTagsNonASCII() {
	p := programs[vrt.Choice(len(programs))]
	at := vrt.Choice(len(p.stmts) + 1)
	n := vrt.IntRange(1, 2+vrt.Tier())
	body := vrt.Bytes(n)
	for i := 0; i < len(body); i++ {
		vrt.Assume(body[i] >= 0x80)
	}
	body = "c" + body + vrt.BytesIn(vrt.IntRange(0, 1), " c")
	s := ""
	for i, st := range p.stmts {
		if i == at {
			s += "<%#" + body + "%>"
		}
		s += "<%"
		for _, t := range st {
			s += " " + t
		}
		s += " %>"
	}
	if at == len(p.stmts) {
		s += "<%#" + body + "%>"
	}
	same(p, s+p.tail)
}

func commentTags(alphabet string, extra int) {
	p := programs[vrt.Choice(len(programs))]
	at := vrt.Choice(len(p.stmts) + 1)
	body := vrt.BytesIn(vrt.IntRange(0, 1+extra+vrt.Tier()), alphabet)
	s := ""
	for i, st := range p.stmts {
		if i == at {
			s += "<%#" + body + "%>"
		}
		s += "<%"
		for _, t := range st {
			s += " " + t
		}
		s += " %>"
	}
	if at == len(p.stmts) {
		s += "<%#" + body + "%>"
	}
	same(p, s+p.tail)
}

// a comment tag (or a line comment) between the statements of a block whose body
// is cut across tags: function bodies (the result is used as a value), if and for bodies
func CommentsInBlocks() {
	body := vrt.BytesIn(vrt.IntRange(0, 1), "c \n{}(=1")
	cm := "<%#" + body + "%>"
	if vrt.Bool() {
		cm = "<% # " + vrt.BytesIn(vrt.IntRange(0, 1), "c x") + "\n %>"
	}
	type tc struct{ pre, post string }
	cases := []tc{
		{"<% let f = fn(x) { %>", "<% return x * 2 } %>[<%= f(2) + 1 %>]"},
		{"<% let f = fn(x) { %>", "<% return x * 2 } %>[<%= f(2) == 4 %>]"},
		{"<% let f = fn(x) { let y = x %>", "<% return y } %>[<%= xs[f(1)] %>]"},
		{"<% let f = fn(x) { if (x == 1) { %>", "<% return 7 } return 8 } %>[<%= f(1) - 1 %>]"},
		{"[<%= if (a == 1) { %>", "<%= 5 %><% } %>]"},
		{"[<%= for (v) in xs { %>", "<%= v %>,<% } %>]"},
		{"<% let g = fn() { %>", "<% } %>[<%= g() %>]"},
		// blocks of one statement whose value is used as a value (not printed in place)
		{"<% let hello = fn() { %>", "hello<% } %>[<%= hello() + \"!\" %>]"},
		{"<% let hello = fn() { %>hello", "<% } %>[<%= len(hello()) %>]"},
		{"<% let n = 0 %><% let bump = fn() { %>", "<% n = n + 1 } %>[<%= if (bump() == nil) { %>N<% } else { %>S<% } %>]"},
		{"<% let r = for (v) in [1, 2, 3] { %>", "<% let w = v } %>[<%= len(r) %>]"},
		{"<% let q = 0 %><% let y = if (true) { %>", "<% q = 1 } %>[<%= y == nil %>]"},
		{"<% let y = if (a == 1) { %>", "yes<% } %>[<%= y %>|<%= len(y) %>]"},
	}
	c := cases[vrt.Choice(len(cases))]
	canon := c.pre + c.post
	relaid := c.pre + cm + c.post
	vrt.Note("canonical", canon)
	vrt.Note("input", relaid)
	want, werr := plush.Render(canon, newCtx())
	vrt.Assert(werr == nil, "the canonical layout renders (harness sanity)")
	got, err := plush.Render(relaid, newCtx())
	vrt.Note("got", got)
	vrt.Assert(err == nil, "a template with a comment inside a block still renders")
	vrt.Assert(got == want, "a comment between the statements of a block does not change what the template renders to")
	vrt.Cover("done")
}
