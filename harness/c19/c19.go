// Package c19: iterator and collection helpers produce exact sequences and partitions.
package c19

import (
	"github.com/gobuffalo/plush/v5/helpers/iterators"

	"verifharness/vrt"
)

func init() {
	vrt.Register("C19_range_init", RangeInit)
	vrt.Register("C19_between_init", BetweenInit)
	vrt.Register("C19_until_init", UntilInit)
	vrt.Register("C19_range_bounded", RangeBounded)
}

// first element of range(a,b) for all 2^128 pairs
func RangeInit() {
	a, b := vrt.Int(), vrt.Int()
	it := iterators.Range(a, b)
	v := it.Next()
	if a <= b {
		vrt.Assert(v == interface{}(a), "range: first element is a")
	} else {
		vrt.Assert(v == nil, "range: empty interval yields nothing")
	}
	vrt.Cover("done")
}

func BetweenInit() {
	a, b := vrt.Int(), vrt.Int()
	it := iterators.Between(a, b)
	v := it.Next()
	// a+1 .. b-1 is non-empty iff a < b-1 mathematically, i.e. a < b and a+1 < b
	nonEmpty := false
	if a < b {
		if a+1 < b {
			nonEmpty = true
		}
	}
	if nonEmpty {
		vrt.Assert(v == interface{}(a+1), "between: first element is a+1")
	} else {
		vrt.Assert(v == nil, "between: empty interval yields nothing")
	}
	vrt.Cover("done")
}

func UntilInit() {
	n := vrt.Int()
	it := iterators.Until(n)
	v := it.Next()
	if n > 0 {
		vrt.Assert(v == interface{}(0), "until: first element is 0")
	} else {
		vrt.Assert(v == nil, "until: empty interval yields nothing")
	}
	vrt.Cover("done")
}

// b - a <= 3: the sequence is exactly a..b then nil, for every a (incl. extremes)
func RangeBounded() {
	a := vrt.Int()
	d := vrt.IntRange(0, 3)
	b := a + d
	vrt.Assume(b >= a) // no wrap: the interval a..b exists
	it := iterators.Range(a, b)
	for i := 0; i <= d; i++ {
		v := it.Next()
		vrt.Assert(v == interface{}(a+i), "range: i-th element is a+i")
	}
	vrt.Assert(it.Next() == nil, "range: ends after b")
	vrt.Assert(it.Next() == nil, "range: stays exhausted")
	vrt.Cover("done")
}
