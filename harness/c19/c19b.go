package c19

import (
	"strconv"

	plush "github.com/gobuffalo/plush/v5"
	"github.com/gobuffalo/plush/v5/helpers/iterators"
	"github.com/gobuffalo/plush/v5/helpers/meta"

	"verifharness/vrt"
)

func init() {
	vrt.Register("C19_range_step", RangeStep)
	vrt.Register("C19_between_bounded", BetweenBounded)
	vrt.Register("C19_until_bounded", UntilBounded)
	vrt.Register("C19_groupby_partition", GroupByPartition)
	vrt.Register("C19_groupby_errors", GroupByErrors)
	vrt.Register("C19_len", Len)
	vrt.Register("C19_through_template", ThroughTemplate)
	vrt.Register("C19_long_intervals_in_loops", LongIntervalsInLoops)
}

// Step lemma on an arbitrary iterator state: Range(p+1, e) (wrapping) reaches
// every state (pos=p, end=e) of the counter. From it: Next() is p+1 if p < e
// and afterwards the iterator behaves like state (p+1, e); else nil, and it
// stays exhausted. Together with the init lemmas this gives: strictly
// increasing, stops exactly at e, terminates (e - pos decreases).
func RangeStep() {
	p, e := vrt.Int(), vrt.Int()
	vrt.Assume(p < 9223372036854775807) // p+1 must not wrap for the state to be meaningful
	it := iterators.Range(p+1, e)
	v1 := it.Next()
	if p < e {
		vrt.Assert(v1 == interface{}(p+1), "step: Next is pos+1 while pos < end")
		v2 := it.Next()
		ref := iterators.Range(p+2, e) // state (p+1, e) when p+2 does not wrap
		if p+1 < 9223372036854775807 {
			w := ref.Next()
			vrt.Assert(v2 == w, "step: the state after one step is (pos+1, end)")
		} else {
			vrt.Assert(v2 == nil, "step: exhausted at the top of int")
		}
	} else {
		vrt.Assert(v1 == nil, "step: nil once pos >= end")
		vrt.Assert(it.Next() == nil, "step: stays exhausted")
	}
	vrt.Cover("done")
}

func BetweenBounded() {
	a := vrt.Int()
	d := vrt.IntRange(0, 3) // number of elements
	b := a + d + 1
	vrt.Assume(b > a) // no wrap
	it := iterators.Between(a, b)
	for i := 1; i <= d; i++ {
		vrt.Assert(it.Next() == interface{}(a+i), "between: i-th element is a+i")
	}
	vrt.Assert(it.Next() == nil, "between: ends before b")
	vrt.Cover("done")
}

func UntilBounded() {
	n := vrt.IntRange(-2, 4)
	it := iterators.Until(n)
	for i := 0; i < n; i++ {
		vrt.Assert(it.Next() == interface{}(i), "until: i-th element is i")
	}
	vrt.Assert(it.Next() == nil, "until: ends at n-1")
	vrt.Cover("done")
}

func maxLen() int {
	if vrt.Tier() > 0 {
		return 40
	}
	return 12
}

type nexter interface{ Next() interface{} }

// groupBy(n, xs): every n (64 bit), every length 0..L, symbolic elements; both implementations.
func GroupByPartition() {
	L := vrt.IntRange(0, maxLen())
	spare := vrt.IntRange(0, 2) // spare capacity behind the slice (a sub-slice of a longer one): not part of xs
	base := make([]int, L+spare)
	for i := range base {
		base[i] = vrt.Int()
	}
	xs := base[:L]
	n := vrt.Int()
	impl := vrt.Choice(3)
	var it nexter
	var err error
	switch impl {
	case 0:
		it, err = iterators.GroupBy(n, xs)
	case 1:
		var g nexter
		g, err = plush.GroupByHelper(n, xs)
		it = g
	default:
		it, err = iterators.GroupBy(n, &xs) // pointer to slice
	}
	if n <= 0 {
		vrt.Assert(err != nil, "groupBy: n <= 0 is an error")
		vrt.Cover("error")
		return
	}
	vrt.Assert(err == nil, "groupBy: n > 0 on a slice succeeds")
	pos, groups, first, lastSize := 0, 0, -1, -1
	for k := 0; k <= L+1; k++ {
		g := it.Next()
		if g == nil {
			break
		}
		sub, ok := g.([]int)
		vrt.Assert(ok, "groupBy: a group is a sub-slice of the same type")
		vrt.Assert(len(sub) > 0, "groupBy: no empty group")
		if first < 0 {
			first = len(sub)
		}
		if lastSize >= 0 {
			vrt.Assert(lastSize == first, "groupBy: all groups but the last have equal size")
		}
		lastSize = len(sub)
		vrt.Assert(pos+len(sub) <= L, "groupBy: groups stay inside xs")
		for j := range sub {
			vrt.Assert(sub[j] == xs[pos+j], "groupBy: groups are consecutive sub-slices of xs")
		}
		pos += len(sub)
		groups++
	}
	vrt.Assert(pos == L, "groupBy: concatenation of the groups is xs")
	vrt.Assert(groups <= n, "groupBy: at most n groups")
	if lastSize >= 0 {
		vrt.Assert(lastSize <= first, "groupBy: the last group is not larger than the others")
	}
	vrt.Assert(it.Next() == nil, "groupBy: stays exhausted")
	vrt.Cover("partition")
}

type pt struct{ X int }

func GroupByErrors() {
	n := vrt.Int()
	vrt.Assume(n > 0)
	var err error
	which := vrt.Choice(2)
	switch vrt.Choice(5) {
	case 0:
		_, err = gb(which, n, 5)
	case 1:
		_, err = gb(which, n, "abc")
	case 2:
		_, err = gb(which, n, map[string]int{"a": 1})
	case 3:
		_, err = gb(which, n, pt{1})
	default:
		_, err = gb(which, n, nil)
	}
	vrt.Assert(err != nil, "groupBy: non-sequences are errors")
	// pointers to arrays, and other element types, are sequences
	var it nexter
	switch vrt.Choice(3) {
	case 0:
		it, err = gb(which, 2, &[3]string{"a", "b", "c"})
	case 1:
		it, err = gb(which, 2, []pt{{1}, {2}, {3}})
	default:
		it, err = gb(which, 2, []*pt{{1}, {2}, {3}})
	}
	vrt.Assert(err == nil, "groupBy: arrays and slices of any element type are accepted")
	c := 0
	for it.Next() != nil {
		c++
		vrt.Assert(c <= 2, "groupBy: at most n groups")
	}
	vrt.Assert(c == 2, "groupBy(2, 3 elements) has 2 groups")
	vrt.Cover("done")
}

func gb(which, n int, v interface{}) (nexter, error) {
	if which == 0 {
		it, err := iterators.GroupBy(n, v)
		if err != nil {
			return nil, err
		}
		return it, nil
	}
	g, err := plush.GroupByHelper(n, v)
	if err != nil {
		return nil, err
	}
	return g, nil
}

// len(x) is the Go length of a string, slice, array, map or pointer to one.
func Len() {
	n := vrt.IntRange(0, 4)
	s := vrt.Bytes(n)
	vrt.Assert(meta.Len(s) == n, "len(string) is its byte length")
	xs := make([]int, n)
	vrt.Assert(meta.Len(xs) == n, "len(slice)")
	vrt.Assert(meta.Len(&xs) == n, "len(pointer to slice)")
	arr := [3]string{}
	vrt.Assert(meta.Len(arr) == 3, "len(array)")
	vrt.Assert(meta.Len(&arr) == 3, "len(pointer to array)")
	m := map[string]int{}
	for i := 0; i < n; i++ {
		m[string(rune('a'+i))] = i
	}
	vrt.Assert(meta.Len(m) == n, "len(map)")
	vrt.Assert(meta.Len(&m) == n, "len(pointer to map)")
	vrt.Assert(meta.Len(nil) == 0, "len(nil)")
	vrt.Cover("done")
}

// range / between / until / groupBy consumed by a template for loop: the exact
// sequence, in order, with break and continue in the body, and it terminates
func ThroughTemplate() {
	a := vrt.Int()
	d := vrt.IntRange(0, 3) // number of elements
	t := vrt.Int()
	ctx := plush.NewContext()
	ctx.Set("a", a)
	ctx.Set("t", t)
	var iter string
	var seq []int
	switch vrt.Choice(4) {
	case 0:
		b := a + d - 1
		vrt.Assume(a > -9223372036854775808)
		vrt.Assume(b >= a-1)
		ctx.Set("b", b)
		iter = "range(a, b)"
		for i := 0; i < d; i++ {
			seq = append(seq, a+i)
		}
	case 1:
		b := a + d + 1
		vrt.Assume(b > a)
		ctx.Set("b", b)
		iter = "between(a, b)"
		for i := 0; i < d; i++ {
			seq = append(seq, a+1+i)
		}
	case 2:
		ctx.Set("n", d)
		iter = "until(n)"
		for i := 0; i < d; i++ {
			seq = append(seq, i)
		}
	default:
		xs := make([]int, d)
		for i := range xs {
			xs[i] = a + i
		}
		ctx.Set("xs", xs)
		iter = "groupBy(2, xs)"
	}
	itoa := strconv.Itoa
	var in, want string
	if iter == "groupBy(2, xs)" {
		in = "[<%= for (g) in groupBy(2, xs) { %>(<%= for (v) in g { %><%= v %>,<% } %>)<% } %>]"
		size := (d + 1) / 2
		if d == 2 {
			size = 2
		}
		want = "["
		for i := 0; i < d; i += size {
			want += "("
			for j := i; j < i+size && j < d; j++ {
				want += itoa(a+j) + ","
			}
			want += ")"
		}
		want += "]"
	} else {
		switch vrt.Choice(3) {
		case 0:
			in = "[<%= for (i, v) in " + iter + " { %><%= i %>:<%= v %>,<% } %>]"
			want = "["
			for i, v := range seq {
				want += itoa(i) + ":" + itoa(v) + ","
			}
			want += "]"
		case 1:
			in = "[<%= for (v) in " + iter + " { %><% if (v == t) { continue } %><%= v %>,<% } %>]"
			want = "["
			for _, v := range seq {
				if v == t {
					continue
				}
				want += itoa(v) + ","
			}
			want += "]"
		default:
			in = "[<%= for (v) in " + iter + " { %><% if (v == t) { break } %><%= v %>,<% } %>]"
			want = "["
			for _, v := range seq {
				if v == t {
					break
				}
				want += itoa(v) + ","
			}
			want += "]"
		}
	}
	vrt.Note("input", in)
	got, err := plush.Render(in, ctx)
	vrt.Note("got", got)
	vrt.Assert(err == nil, "a loop over an iterator helper renders")
	vrt.Assert(got == want, "a template loop over range/between/until/groupBy sees exactly the helper's sequence, and terminates")
	vrt.Cover("done")
}

// ---- intervals of ANY length (both ends arbitrary 64-bit ints: up to 2^64
// numbers) looped over in a template and left by break after the first
// elements: the loop yields a, a+1, ... whatever the length of the interval is
func LongIntervalsInLoops() {
	a, b := vrt.Int(), vrt.Int()
	k := vrt.IntRange(0, 2) // elements seen before the break
	ctx := plush.NewContext()
	ctx.Set("a", a)
	ctx.Set("b", b)
	itoa := strconv.Itoa
	var in, want string
	switch vrt.Choice(3) {
	case 0: // range(a, b): at least k+1 numbers
		vrt.Assume(a <= b)
		vrt.Assume(uint(b)-uint(a) >= uint(k))
		ctx.Set("stop", a+k)
		in = "[<%= for (v) in range(a, b) { %><%= v %>,<% if (v == stop) { break } %><% } %>]"
		want = "["
		for i := 0; i <= k; i++ {
			want += itoa(a+i) + ","
		}
		want += "]"
	case 1: // between(a, b): a+1 .. b-1, at least k+1 numbers
		vrt.Assume(a < b)
		vrt.Assume(uint(b)-uint(a) >= uint(k)+2)
		ctx.Set("stop", a+1+k)
		in = "[<%= for (v) in between(a, b) { %><%= v %>,<% if (v == stop) { break } %><% } %>]"
		want = "["
		for i := 0; i <= k; i++ {
			want += itoa(a+1+i) + ","
		}
		want += "]"
	default: // until(b): 0 .. b-1
		vrt.Assume(b > k)
		ctx.Set("stop", k)
		in = "[<%= for (i, v) in until(b) { %><%= i %>=<%= v %>,<% if (v == stop) { break } %><% } %>]"
		want = "["
		for i := 0; i <= k; i++ {
			want += itoa(i) + "=" + itoa(i) + ","
		}
		want += "]"
	}
	vrt.Note("input", in)
	got, err := plush.Render(in, ctx)
	vrt.Note("got", got)
	vrt.Assert(err == nil, "a loop over an interval of any length renders")
	vrt.Assert(got == want, "a loop over range / between / until yields the first elements of the interval, however long it is")
	vrt.Cover("done")
}
