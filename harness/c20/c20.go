// Package c20: text and encoding helpers: truncate bound, escaping completeness, raw identity.
// toJSON: see c20json.go (encoding/json is a model of the engine, validated by selftest).
package c20

import (
	"strings"
	"unicode/utf8"

	plush "github.com/gobuffalo/plush/v5"
	"github.com/gobuffalo/plush/v5/helpers/encoders"
	"github.com/gobuffalo/plush/v5/helpers/escapes"
	"github.com/gobuffalo/plush/v5/helpers/hctx"
	"github.com/gobuffalo/plush/v5/helpers/text"

	"verifharness/ent"
	"verifharness/vrt"
)

func init() {
	vrt.Register("C20_truncate", Truncate)
	vrt.Register("C20_truncate_defaults", TruncateDefaults)
	vrt.Register("C20_truncate_calls_independent", TruncateCallsIndependent)
	vrt.Register("C20_truncate_template", TruncateTemplate)
	vrt.Register("C20_truncate_runes", TruncateRunes)
	vrt.Register("C20_html_escape", HTMLEscape)
	vrt.Register("C20_js_escape", JSEscape)
	vrt.Register("C20_raw", Raw)
}

func maxS() int { return 3 + 2*vrt.Tier() }

// onBoundary: offset n is reached when s is decoded rune by rune from the start
func onBoundary(s string, n int) bool {
	off := 0
	for off < len(s) {
		if off == n {
			return true
		}
		_, w := utf8.DecodeRuneInString(s[off:])
		off += w
	}
	return off == n
}

func truncateLaws(s string, size int, trail string, got string) {
	rs := utf8.RuneCountInString(s)
	rt := utf8.RuneCountInString(trail)
	if rs <= size {
		vrt.Assert(got == s, "truncate: a string of at most size characters is returned unchanged")
		vrt.Cover("unchanged")
		return
	}
	vrt.Assert(strings.HasSuffix(got, trail), "truncate: a cut string ends with the trail")
	p := got[:len(got)-len(trail)]
	vrt.Assert(strings.HasPrefix(s, p), "truncate: what precedes the trail is a prefix of s")
	vrt.Assert(onBoundary(s, len(p)), "truncate: never splits a multi-byte character")
	bound := size
	if rt > bound {
		bound = rt
	}
	vrt.Assert(utf8.RuneCountInString(got) <= bound, "truncate: at most max(size, length of trail) characters")
	vrt.Cover("cut")
}

// every byte string (invalid UTF-8 included), every size, every trail
func Truncate() {
	s := vrt.Bytes(vrt.IntRange(0, maxS()))
	size := vrt.Int()
	trail := vrt.Bytes(vrt.IntRange(0, 1+vrt.Tier()))
	vrt.Note("s", s)
	vrt.Note("trail", trail)
	got := text.Truncate(s, hctx.Map{"size": size, "trail": trail})
	vrt.Note("got", got)
	truncateLaws(s, size, trail, got)
}

// defaults: size 50, trail "..."
func TruncateDefaults() {
	s := vrt.Bytes(vrt.IntRange(0, 2))
	long := strings.Repeat("é", 49) + s
	got := text.Truncate(long, hctx.Map{})
	truncateLaws(long, 50, "...", got)
	size := vrt.Int()
	got = text.Truncate(s, hctx.Map{"size": size})
	truncateLaws(s, size, "...", got)
}

// every call stands alone: the options an earlier call was given (or left out) do
// not change what a later one returns
func TruncateCallsIndependent() {
	s := vrt.Bytes(vrt.IntRange(0, 1+vrt.Tier()))
	size1 := vrt.IntRange(2, 3)
	trail1 := "~"
	switch vrt.Choice(4) {
	case 0:
		text.Truncate("abcdef", hctx.Map{"size": size1, "trail": trail1})
	case 1:
		text.Truncate("abcdef", hctx.Map{"size": size1})
	case 2:
		text.Truncate("abcdef", hctx.Map{"trail": trail1})
	default:
		text.Truncate("abcdef", hctx.Map{"size": 120, "trail": ""})
	}
	long := strings.Repeat("é", 49) + s
	switch vrt.Choice(3) {
	case 0: // no options: 50 and "..."
		truncateLaws(long, 50, "...", text.Truncate(long, hctx.Map{}))
	case 1: // only a size: the trail is "..."
		size := vrt.IntRange(0, 5)
		truncateLaws(s, size, "...", text.Truncate(s, hctx.Map{"size": size}))
	default: // only a trail: the size is 50
		truncateLaws(long, 50, "~", text.Truncate(long, hctx.Map{"trail": "~"}))
	}
}

func htmlEsc(s string) string {
	out := ""
	for i := 0; i < len(s); i++ {
		switch s[i] {
		case '<':
			out += "&lt;"
		case '>':
			out += "&gt;"
		case '&':
			out += "&amp;"
		case '\'':
			out += "&#39;"
		case '"':
			out += "&#34;"
		case 0:
			out += "�"
		default:
			out += s[i : i+1]
		}
	}
	return out
}

// through a template: the options map is a hash literal
func TruncateTemplate() {
	s := vrt.BytesIn(vrt.IntRange(0, 3), "abé<")
	size := vrt.IntRange(-1, 4)
	ctx := plush.NewContext()
	ctx.Set("s", s)
	ctx.Set("n", size)
	got, err := plush.Render("<%= truncate(s, {size: n, trail: \"~\"}) %>", ctx)
	vrt.Assert(err == nil, "truncate through a template renders")
	want := text.Truncate(s, hctx.Map{"size": size, "trail": "~"})
	truncateLaws(s, size, "~", want)
	vrt.Assert(ent.Same(got, func() string { return ent.Esc(want) }), "the template form yields the same string (escaped by the sink)")
}

// decodesTo: none of < > ' " raw, every & starts an entity, decoding gives p
func decodesTo(r, p string) bool {
	ents := []struct {
		e string
		c byte
	}{{"&lt;", '<'}, {"&gt;", '>'}, {"&amp;", '&'}, {"&#39;", '\''}, {"&#34;", '"'}, {"&quot;", '"'}, {"&apos;", '\''}}
	i, j := 0, 0
	for i < len(r) {
		c := r[i]
		if c == '<' || c == '>' || c == '\'' || c == '"' {
			return false
		}
		if c == '&' {
			matched := false
			for _, e := range ents {
				if i+len(e.e) <= len(r) {
					if r[i:i+len(e.e)] == e.e {
						if j >= len(p) {
							return false
						}
						if p[j] != e.c {
							return false
						}
						i += len(e.e)
						j++
						matched = true
						break
					}
				}
			}
			if !matched {
				return false
			}
			continue
		}
		if j >= len(p) {
			return false
		}
		if p[j] != c {
			return false
		}
		i++
		j++
	}
	return j == len(p)
}

func HTMLEscape() {
	s := vrt.Bytes(vrt.IntRange(0, maxS()))
	for i := 0; i < len(s); i++ {
		vrt.Assume(s[i] != 0)
	}
	got, err := escapes.HTMLEscape(s, plush.HelperContext{})
	vrt.Note("got", got)
	vrt.Assert(err == nil, "htmlEscape of a string succeeds")
	vrt.Assert(decodesTo(got, s), "htmlEscape: none of < > & ' \" outside entities, and it decodes to the input")
	// block form: the block's rendering is what gets escaped
	ctx := plush.NewContext()
	ctx.Set("s", s)
	out, err := plush.Render("<%= raw(htmlEscape(\"ignored\") { %><%= raw(s) %><% }) %>", ctx)
	if err == nil {
		vrt.Assert(decodesTo(out, s), "htmlEscape with a block escapes what the block renders")
		vrt.Cover("block")
	}
	vrt.Cover("done")
}

func JSEscape() {
	n := vrt.IntRange(0, 2+vrt.Tier())
	s := vrt.Bytes(n)
	for i := 0; i < n; i++ {
		vrt.Assume(s[i] < 0x80) // non-ASCII input is covered by the concrete cases below
	}
	got := escapes.JSEscape(s)
	vrt.Note("got", got)
	checkJS(got)
	concrete := []string{" ", "a b", "é", "\xff", "</script>", "'\"\\", "\r\n", "a=b&c"}
	checkJS(escapes.JSEscape(concrete[vrt.Choice(len(concrete))]))
	vrt.Cover("done")
}

func checkJS(got string) {
	backslashes := 0
	for i := 0; i < len(got); i++ {
		c := got[i]
		vrt.Assert(c != '<' && c != '>' && c != '&' && c != '=', "jsEscape: no < > & =")
		vrt.Assert(c != '\n' && c != '\r', "jsEscape: no raw line break")
		if c == '\'' || c == '"' {
			vrt.Assert(backslashes%2 == 1, "jsEscape: quotes are backslash-escaped")
		}
		if c == '\\' {
			backslashes++
		} else {
			backslashes = 0
		}
	}
	vrt.Assert(!strings.Contains(got, " ") && !strings.Contains(got, " "), "jsEscape: no raw U+2028 / U+2029")
}

func Raw() {
	s := vrt.Bytes(vrt.IntRange(0, maxS()))
	ctx := plush.NewContext()
	ctx.Set("s", s)
	got, err := plush.Render("[<%= raw(s) %>]", ctx)
	vrt.Assert(err == nil, "raw renders")
	vrt.Assert(got == "["+s+"]", "raw(s) reaches the output byte-identical")
	vrt.Assert(string(encoders.Raw(s)) == s, "Raw converts without changing a byte")
	vrt.Cover("done")
}

// longer texts built from rune classes (enumerated): ASCII, 2-, 3- and 4-byte
// runes, combining marks, an invalid byte, a truncated sequence; every size
var runeChunks = []string{"x", "\u0438", "\u0306", "\u4e16", "\U0001F600", "\xff", "\xe4\xb8", "e\u0301"}

func TruncateRunes() {
	k := 4 + vrt.Tier()
	s := ""
	n := vrt.IntRange(0, k)
	for i := 0; i < n; i++ {
		s += runeChunks[vrt.Choice(len(runeChunks))]
	}
	size := vrt.IntRange(-1, 6)
	trails := []string{"", "!", "...", "\u2026"}
	trail := trails[vrt.Choice(len(trails))]
	vrt.Note("s", s)
	got := text.Truncate(s, hctx.Map{"size": size, "trail": trail})
	vrt.Note("got", got)
	truncateLaws(s, size, trail, got)
}
