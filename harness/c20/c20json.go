package c20

// toJSON: "emits valid JSON that decodes back to v and contains no raw < > &".
// The oracle is a small JSON reader written from RFC 8259 (not a mirror of the
// encoder): it checks well-formedness byte by byte and returns the decoded
// tokens, which are compared with the value that went in.

import (
	"html/template"
	"strconv"
	"unicode/utf8"

	plush "github.com/gobuffalo/plush/v5"
	"github.com/gobuffalo/plush/v5/helpers/encoders"

	"verifharness/vrt"
)

func init() {
	vrt.Register("C20_to_json_strings", ToJSONStrings)
	vrt.Register("C20_to_json_values", ToJSONValues)
}

type jtok struct {
	kind byte // { } [ ] : , s(tring) n(umber) t f 0(null)
	s    string
}

func hexv(c byte) int {
	if c >= '0' {
		if c <= '9' {
			return int(c - '0')
		}
	}
	if c >= 'a' {
		if c <= 'f' {
			return int(c-'a') + 10
		}
	}
	if c >= 'A' {
		if c <= 'F' {
			return int(c-'A') + 10
		}
	}
	return -1
}

// jsonRead: tokens of a JSON text, false if the text is not well-formed at the
// lexical level (bracket balance is checked by the callers' expected sequences).
func jsonRead(b string) ([]jtok, bool) {
	var out []jtok
	i := 0
	for i < len(b) {
		c := b[i]
		if c == ' ' || c == '\n' || c == '\t' || c == '\r' {
			i++
			continue
		}
		if c == '{' || c == '}' || c == '[' || c == ']' || c == ':' || c == ',' {
			out = append(out, jtok{kind: c})
			i++
			continue
		}
		if c == '"' {
			i++
			var s []byte
			closed := false
			for i < len(b) {
				d := b[i]
				if d == '"' {
					closed = true
					i++
					break
				}
				if d < 0x20 {
					return nil, false
				}
				if d != '\\' {
					s = append(s, d)
					i++
					continue
				}
				if i+1 >= len(b) {
					return nil, false
				}
				e := b[i+1]
				i += 2
				switch e {
				case '"', '\\', '/':
					s = append(s, e)
				case 'b':
					s = append(s, '\b')
				case 'f':
					s = append(s, '\f')
				case 'n':
					s = append(s, '\n')
				case 'r':
					s = append(s, '\r')
				case 't':
					s = append(s, '\t')
				case 'u':
					if i+4 > len(b) {
						return nil, false
					}
					r := 0
					for k := 0; k < 4; k++ {
						h := hexv(b[i+k])
						if h < 0 {
							return nil, false
						}
						r = r*16 + h
					}
					i += 4
					if r >= 0xD800 {
						if r <= 0xDFFF {
							return nil, false // surrogates are not produced for valid input
						}
					}
					s = append(s, string(rune(r))...)
				default:
					return nil, false
				}
			}
			if !closed {
				return nil, false
			}
			out = append(out, jtok{kind: 's', s: string(s)})
			continue
		}
		if len(b)-i >= 4 {
			if b[i:i+4] == "true" {
				out = append(out, jtok{kind: 't'})
				i += 4
				continue
			}
			if b[i:i+4] == "null" {
				out = append(out, jtok{kind: '0'})
				i += 4
				continue
			}
		}
		if len(b)-i >= 5 {
			if b[i:i+5] == "false" {
				out = append(out, jtok{kind: 'f'})
				i += 5
				continue
			}
		}
		if c == '-' || (c >= '0' && c <= '9') {
			j := i
			if b[j] == '-' {
				j++
			}
			k := j
			for k < len(b) {
				if b[k] < '0' || b[k] > '9' {
					break
				}
				k++
			}
			if k == j {
				return nil, false
			}
			if b[j] == '0' {
				if k > j+1 {
					return nil, false
				}
			}
			out = append(out, jtok{kind: 'n', s: b[i:k]})
			i = k
			continue
		}
		return nil, false
	}
	return out, true
}

func sameTokens(got []jtok, want []jtok) bool {
	if len(got) != len(want) {
		return false
	}
	for i := range got {
		if got[i].kind != want[i].kind {
			return false
		}
		if got[i].s != want[i].s {
			return false
		}
	}
	return true
}

func noRawSpecials(s string) bool {
	for i := 0; i < len(s); i++ {
		if s[i] == '<' || s[i] == '>' || s[i] == '&' {
			return false
		}
	}
	return true
}

func str(s string) jtok { return jtok{kind: 's', s: s} }
func p(c byte) jtok     { return jtok{kind: c} }

type person struct {
	Name   string `json:"name"`
	Note   string
	hidden string
}

// ToJSONStrings: an arbitrary valid UTF-8 string s placed in several value shapes.
func ToJSONStrings() {
	s := vrt.Bytes(vrt.IntRange(0, 2+vrt.Tier()))
	vrt.Assume(utf8.ValidString(s))
	var v interface{}
	var want []jtok
	switch vrt.Choice(8) {
	case 0:
		v, want = s, []jtok{str(s)}
	case 1:
		v, want = []string{s, "a"}, []jtok{p('['), str(s), p(','), str("a"), p(']')}
	case 2:
		v, want = map[string]string{"k": s}, []jtok{p('{'), str("k"), p(':'), str(s), p('}')}
	case 3:
		v, want = person{Name: s, Note: "x", hidden: "h"}, []jtok{p('{'), str("name"), p(':'), str(s), p(','), str("Note"), p(':'), str("x"), p('}')}
	case 4:
		v = map[string]interface{}{"b": []interface{}{s, nil, true}, "a": s}
		want = []jtok{p('{'), str("a"), p(':'), str(s), p(','), str("b"), p(':'), p('['), str(s), p(','), p('0'), p(','), p('t'), p(']'), p('}')}
	case 5:
		v, want = template.HTML(s), []jtok{str(s)}
	case 6:
		v, want = &person{Name: "n", Note: s}, []jtok{p('{'), str("name"), p(':'), str("n"), p(','), str("Note"), p(':'), str(s), p('}')}
	default:
		v, want = &s, []jtok{str(s)}
	}
	direct, err := encoders.ToJSON(v)
	vrt.Assert(err == nil, "toJSON of plain data does not fail")
	ctx := plush.NewContext()
	ctx.Set("v", v)
	names := []string{"toJSON", "json"}
	got, err := plush.Render("<%= "+names[vrt.Choice(2)]+"(v) %>", ctx)
	vrt.Assert(err == nil, "toJSON renders")
	vrt.Assert(got == string(direct), "the rendered text is the helper's result, not escaped again")
	vrt.Assert(noRawSpecials(got), "toJSON output contains no raw < > &")
	toks, ok := jsonRead(got)
	vrt.Assert(ok, "toJSON output is well-formed JSON")
	vrt.Assert(sameTokens(toks, want), "toJSON output decodes back to the value")
	vrt.Cover("done")
}

// tagged marshals itself; json.Marshal must still validate and escape what it returns
type tagged string

func (t tagged) MarshalJSON() ([]byte, error) { return []byte(`{"t": "` + string(t) + `"}`), nil }

type label string

func (l label) MarshalText() ([]byte, error) { return []byte("L:" + string(l)), nil }

var payloads = []string{"a", "<b>", "&", "</script>", "x>y", ""}

// ToJSONValues: numbers, booleans, nil, typed nils, self-marshalling values, unsupported values.
func ToJSONValues() {
	n := vrt.Int()
	ctx := plush.NewContext()
	var v interface{}
	want := ""
	var wantToks []jtok
	fails := false
	switch vrt.Choice(14) {
	case 0:
		v, want = n, strconv.Itoa(n)
	case 1:
		v, want = []int{n, 2}, "["+strconv.Itoa(n)+",2]"
	case 2:
		v, want = map[string]int{"n": n}, `{"n":`+strconv.Itoa(n)+"}"
	case 3:
		b := vrt.Bool()
		v = b
		if b {
			want = "true"
		} else {
			want = "false"
		}
	case 4:
		v, want = nil, "null"
	case 5:
		v, want = (*person)(nil), "null"
	case 6:
		v, want = []string(nil), "null"
	case 7:
		v, want = map[string]int(nil), "null"
	case 8:
		v, want = []string{}, "[]"
	case 9:
		pl := payloads[vrt.Choice(len(payloads))]
		v, wantToks = tagged(pl), []jtok{p('{'), str("t"), p(':'), str(pl), p('}')}
	case 10:
		pl := payloads[vrt.Choice(len(payloads))]
		v, wantToks = []interface{}{tagged(pl)}, []jtok{p('['), p('{'), str("t"), p(':'), str(pl), p('}'), p(']')}
	case 11:
		pl := payloads[vrt.Choice(len(payloads))]
		v, wantToks = label(pl), []jtok{str("L:" + pl)}
	case 12:
		v, fails = func() {}, true
	default:
		v, fails = map[string]interface{}{"f": func() {}}, true
	}
	ctx.Set("v", v)
	src := "[<%= toJSON(v) %>]"
	if v == nil {
		src = "[<%= toJSON(nil) %>]" // a variable bound to nil is an unknown identifier; the literal is the nil value
	}
	got, err := plush.Render(src, ctx)
	if fails {
		vrt.Assert(err != nil, "a value JSON cannot represent is an error, not output")
		vrt.Assert(got == "", "no output with the error")
		vrt.Cover("fails")
		return
	}
	vrt.Assert(err == nil, "toJSON renders")
	if wantToks != nil {
		vrt.Assert(noRawSpecials(got), "toJSON output contains no raw < > &")
		vrt.Assert(len(got) >= 2, "bracketed")
		toks, ok := jsonRead(got[1 : len(got)-1])
		vrt.Assert(ok, "toJSON output is well-formed JSON")
		vrt.Assert(sameTokens(toks, wantToks), "toJSON output decodes back to the value")
	} else {
		vrt.Assert(got == "["+want+"]", "toJSON output is the JSON text of the value")
	}
	vrt.Cover("done")
}
