// Package ent: comparing rendered output without prescribing how the five HTML
// special characters are spelt as entities. Which spelling the sink uses
// (&#34; or &quot; ...) is the subject of C01 alone; the other checks compare
// with Go's spelling first and, if that fails, with the spelling plush itself
// uses for an escaped string on this tree (probed through Render).
package ent

import (
	"strings"

	plush "github.com/gobuffalo/plush/v5"
)

// order: < > & ' "
var goSpelling = [5]string{"&lt;", "&gt;", "&amp;", "&#39;", "&#34;"}

var accepted = [5][]string{
	{"&lt;", "&#60;", "&#x3c;", "&#x3C;", "&LT;"},
	{"&gt;", "&#62;", "&#x3e;", "&#x3E;", "&GT;"},
	{"&amp;", "&#38;", "&#x26;", "&AMP;"},
	{"&#39;", "&apos;", "&#x27;", "&#039;"},
	{"&#34;", "&quot;", "&#x22;", "&QUOT;", "&#034;"},
}

var cur = goSpelling
var probed bool

// Esc escapes s the way Go's html/template escaper does (NUL becomes U+FFFD),
// with the entity spelling currently in force.
func Esc(s string) string {
	out := ""
	for i := 0; i < len(s); i++ {
		switch s[i] {
		case '<':
			out += cur[0]
		case '>':
			out += cur[1]
		case '&':
			out += cur[2]
		case '\'':
			out += cur[3]
		case '"':
			out += cur[4]
		case 0:
			out += "�"
		default:
			out += s[i : i+1]
		}
	}
	return out
}

func probe() {
	probed = true
	ctx := plush.NewContext()
	ctx.Set("v", "<|>|&|'|\"")
	out, err := plush.Render("<%= v %>", ctx)
	if err != nil {
		return
	}
	parts := strings.Split(out, "|")
	if len(parts) != 5 {
		return
	}
	for i, p := range parts {
		for _, a := range accepted[i] {
			if p == a {
				cur[i] = a
			}
		}
	}
}

// Same: got equals build() under Go's entity spelling, or under the spelling
// plush uses on this tree. build must obtain its escaped parts from Esc.
func Same(got string, build func() string) bool {
	if got == build() {
		return true
	}
	if !probed {
		probe()
	}
	return got == build()
}
