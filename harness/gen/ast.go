// Package gen: a grammar of small plush programs (control flow, scopes,
// functions, output) together with a reference interpreter written from the
// property statements (C02, C05, C07, C08, C09, C16), so that programs can be
// enumerated from the grammar instead of being listed by hand. All data the
// programs compute with (ints, slice elements, thresholds) is symbolic; the
// program skeleton is chosen by vrt.Choice.
package gen

import "strconv"

// ---------------------------------------------------------------- expressions

const (
	ELit  = iota // integer literal N
	EVar         // variable Name
	EAdd         // A + B
	ECall        // Name(Args...)   user function or Go helper
	EIdx         // A[B]
	ENil         // nil
	EEq          // A == B
	ELt          // A < B
	ENot         // !A
	EAnd         // A && B
	EOr          // A || B
	EArr         // [Args...]
)

type Expr struct {
	K    int
	N    int
	Name string
	A, B *Expr
	Args []*Expr
}

func Lit(n int) *Expr                 { return &Expr{K: ELit, N: n} }
func Var(n string) *Expr              { return &Expr{K: EVar, Name: n} }
func Add(a, b *Expr) *Expr            { return &Expr{K: EAdd, A: a, B: b} }
func Eq(a, b *Expr) *Expr             { return &Expr{K: EEq, A: a, B: b} }
func Lt(a, b *Expr) *Expr             { return &Expr{K: ELt, A: a, B: b} }
func Not(a *Expr) *Expr               { return &Expr{K: ENot, A: a} }
func And(a, b *Expr) *Expr            { return &Expr{K: EAnd, A: a, B: b} }
func Or(a, b *Expr) *Expr             { return &Expr{K: EOr, A: a, B: b} }
func Idx(a, b *Expr) *Expr            { return &Expr{K: EIdx, A: a, B: b} }
func Nil() *Expr                      { return &Expr{K: ENil} }
func Arr(xs ...*Expr) *Expr           { return &Expr{K: EArr, Args: xs} }
func Call(f string, a ...*Expr) *Expr { return &Expr{K: ECall, Name: f, Args: a} }

func atom(e *Expr) bool {
	switch e.K {
	case ELit, EVar, ECall, EIdx, ENil, EArr:
		return true
	}
	return false
}

func paren(e *Expr) string {
	if atom(e) {
		return e.Src()
	}
	return "(" + e.Src() + ")"
}

func args(xs []*Expr) string {
	s := ""
	for i, a := range xs {
		if i > 0 {
			s += ", "
		}
		s += a.Src()
	}
	return s
}

// Src is the expression in plush syntax.
func (e *Expr) Src() string {
	switch e.K {
	case ELit:
		return strconv.Itoa(e.N)
	case EVar:
		return e.Name
	case EAdd:
		return paren(e.A) + " + " + paren(e.B)
	case ECall:
		return e.Name + "(" + args(e.Args) + ")"
	case EIdx:
		return paren(e.A) + "[" + e.B.Src() + "]"
	case ENil:
		return "nil"
	case EEq:
		return paren(e.A) + " == " + paren(e.B)
	case ELt:
		return paren(e.A) + " < " + paren(e.B)
	case ENot:
		return "!" + paren(e.A)
	case EAnd:
		return paren(e.A) + " && " + paren(e.B)
	case EOr:
		return paren(e.A) + " || " + paren(e.B)
	case EArr:
		return "[" + args(e.Args) + "]"
	}
	return "?"
}

// ---------------------------------------------------------------- statements

const (
	SText     = iota // literal text
	SOut             // <%= E %>;      (the ';' keeps printed numbers apart)
	SLet             // <% let Name = E %>
	SAssign          // <% Name = E %>
	SIf              // if / else if / else; Show: written with <%= (its blocks may print)
	SFor             // <%= for (Key, Val) in E { %> Body <% } %>
	SBreak           // <% break %>
	SContinue        // <% continue %>
	SFn              // <% let Name = fn(Params) { %> Body <% } %>
	SReturn          // <% return E %>
	SEval            // <% E %>        a silent expression tag
)

type Elif struct {
	Cond *Expr
	Body []*Stmt
}

type Stmt struct {
	K       int
	Text    string
	E       *Expr
	Name    string
	Show    bool
	Then    []*Stmt
	Elifs   []Elif
	Else    []*Stmt
	HasElse bool
	Key     string // "" = single-name form: for (Val) in ...
	Val     string
	Params  []string
	Body    []*Stmt
}

func Text(s string) *Stmt            { return &Stmt{K: SText, Text: s} }
func Out(e *Expr) *Stmt              { return &Stmt{K: SOut, E: e} }
func Let(n string, e *Expr) *Stmt    { return &Stmt{K: SLet, Name: n, E: e} }
func Assign(n string, e *Expr) *Stmt { return &Stmt{K: SAssign, Name: n, E: e} }
func Break() *Stmt                   { return &Stmt{K: SBreak} }
func Continue() *Stmt                { return &Stmt{K: SContinue} }
func Return(e *Expr) *Stmt           { return &Stmt{K: SReturn, E: e} }
func Eval(e *Expr) *Stmt             { return &Stmt{K: SEval, E: e} }
func If(show bool, c *Expr, then []*Stmt) *Stmt {
	return &Stmt{K: SIf, Show: show, E: c, Then: then}
}
func IfElse(show bool, c *Expr, then, els []*Stmt) *Stmt {
	return &Stmt{K: SIf, Show: show, E: c, Then: then, Else: els, HasElse: true}
}
func For(key, val string, it *Expr, body []*Stmt) *Stmt {
	return &Stmt{K: SFor, Show: true, Key: key, Val: val, E: it, Body: body}
}
func Fn(name string, params []string, body []*Stmt) *Stmt {
	return &Stmt{K: SFn, Name: name, Params: params, Body: body}
}

func blockSrc(ss []*Stmt) string {
	s := ""
	for _, st := range ss {
		s += st.Src()
	}
	return s
}

// code form of a statement that may stand inside one tag next to others
// (used for the bodies of silent ifs: `<% if (c) { break } %>`)
func (s *Stmt) code() string {
	switch s.K {
	case SBreak:
		return "break"
	case SContinue:
		return "continue"
	case SReturn:
		return "return " + s.E.Src()
	case SLet:
		return "let " + s.Name + " = " + s.E.Src()
	case SAssign:
		return s.Name + " = " + s.E.Src()
	case SEval:
		return s.E.Src()
	}
	return "?"
}

func codeBlock(ss []*Stmt) string {
	s := ""
	for i, st := range ss {
		if i > 0 {
			s += "\n"
		}
		s += st.code()
	}
	return s
}

// Src is the statement in plush template syntax.
func (s *Stmt) Src() string {
	switch s.K {
	case SText:
		return s.Text
	case SOut:
		return "<%= " + s.E.Src() + " %>;"
	case SLet, SAssign, SBreak, SContinue, SReturn, SEval:
		return "<% " + s.code() + " %>"
	case SIf:
		if !s.Show {
			// silent: the blocks hold control statements only, in code form
			out := "<% if (" + s.E.Src() + ") { " + codeBlock(s.Then) + " }"
			for _, ei := range s.Elifs {
				out += " else if (" + ei.Cond.Src() + ") { " + codeBlock(ei.Body) + " }"
			}
			if s.HasElse {
				out += " else { " + codeBlock(s.Else) + " }"
			}
			return out + " %>"
		}
		out := "<%= if (" + s.E.Src() + ") { %>" + blockSrc(s.Then)
		for _, ei := range s.Elifs {
			out += "<% } else if (" + ei.Cond.Src() + ") { %>" + blockSrc(ei.Body)
		}
		if s.HasElse {
			out += "<% } else { %>" + blockSrc(s.Else)
		}
		return out + "<% } %>"
	case SFor:
		names := s.Val
		if s.Key != "" {
			names = s.Key + ", " + s.Val
		}
		return "<%= for (" + names + ") in " + s.E.Src() + " { %>" + blockSrc(s.Body) + "<% } %>"
	case SFn:
		ps := ""
		for i, p := range s.Params {
			if i > 0 {
				ps += ", "
			}
			ps += p
		}
		return "<% let " + s.Name + " = fn(" + ps + ") { %>" + blockSrc(s.Body) + "<% } %>"
	}
	return "?"
}

// Source of a whole program.
func Source(prog []*Stmt) string { return blockSrc(prog) }
