package gen

import (
	plush "github.com/gobuffalo/plush/v5"

	"verifharness/vrt"
)

// sliceIter is a user iterator over ints (plush.Iterator).
type sliceIter struct {
	xs  []int
	pos int
}

func (s *sliceIter) Next() interface{} {
	if s.pos >= len(s.xs) {
		return nil
	}
	s.pos++
	return s.xs[s.pos-1]
}

// Symbolic data for a generated program: x, t and up to maxLen slice elements.
func NewData(maxLen int) Data {
	L := vrt.IntRange(0, maxLen)
	xs := make([]int, L)
	for i := range xs {
		xs[i] = vrt.Int()
	}
	return Data{X: vrt.Int(), T: vrt.Int(), Xs: xs}
}

// WithHits adds n arbitrary results for the recording helper hit(k).
func (d Data) WithHits(n int) Data {
	d.B = make([]bool, n)
	for i := range d.B {
		d.B[i] = vrt.Bool()
	}
	return d
}

func sameInts(a, b []int) bool {
	if len(a) != len(b) {
		return false
	}
	for i := range a {
		if a[i] != b[i] {
			return false
		}
	}
	return true
}

func Context(d Data, hits *[]int) *plush.Context {
	ctx := plush.NewContext()
	ctx.Set("hit", func(k int) bool {
		*hits = append(*hits, k)
		if k < len(d.B) {
			return d.B[k]
		}
		return false
	})
	ctx.Set("x", d.X)
	ctx.Set("t", d.T)
	ctx.Set("xs", d.Xs)
	ctx.Set("same", func(v []int) []int { return v })
	ctx.Set("iter", func(v []int) plush.Iterator { return &sliceIter{xs: v} })
	ctx.Set("none", func() interface{} { return nil })
	return ctx
}

// agrees: the outcome (got, err, hits) is one the reference outcome allows.
func agrees(ref *Ref, got string, err error, hits []int) bool {
	switch {
	case ref.Skip:
		return true
	case ref.Fail:
		if err == nil {
			return false
		}
		return got == ""
	case ref.Either:
		if err != nil {
			return true
		}
		return got == ref.Out
	}
	if err != nil {
		return false
	}
	if got != ref.Out {
		return false
	}
	return sameInts(hits, ref.Hits)
}

// Check renders prog with plush and compares the result with what the
// reference interpreter derives from the property statements. what names the
// property-specific claim in the assertion labels.
func Check(prog []*Stmt, d Data, what string) {
	src := Source(prog)
	vrt.Note("input", src)
	var hits []int
	got, err := plush.Render(src, Context(d, &hits))
	vrt.Note("got", got)
	ref := Run(prog, d)
	if ref.Stale && !ref.Skip {
		// a let of an earlier iteration was read: one scope per loop run, or a fresh one per iteration
		alt := RunFresh(prog, d)
		vrt.Note("want", ref.Out)
		vrt.Note("or", alt.Out)
		if agrees(ref, got, err, hits) {
			vrt.Cover("let kept for the loop run")
			return
		}
		vrt.Assert(agrees(alt, got, err, hits), what+": the outcome is that of the reference interpreter (a let in a loop body lasts for the loop run, or for the iteration)")
		vrt.Cover("fresh scope per iteration")
		return
	}
	switch {
	case ref.Skip:
		vrt.Cover("outcome not fixed by the properties (no panic, no hang)")
	case ref.Fail:
		vrt.Assert(err != nil, what+": a failing operation fails the render")
		vrt.Assert(got == "", what+": a failed render returns no output")
		vrt.Cover("failing program")
	case ref.Either:
		vrt.Note("want", ref.Out)
		vrt.Assert(err != nil || got == ref.Out, what+": an error, or the output of the reference interpreter")
		vrt.Cover("either")
	default:
		vrt.Note("want", ref.Out)
		vrt.Assert(err == nil, what+": a program without a failing operation renders")
		vrt.Assert(got == ref.Out, what+": the output is that of the reference interpreter")
		vrt.Assert(sameInts(hits, ref.Hits), what+": the recording helper is called exactly when, and in the order in which, the reference interpreter calls it")
		vrt.Cover("rendered")
	}
}
