package gen

import "verifharness/vrt"

// Profile selects which productions of the grammar a harness enumerates. Every
// choice below is a vrt.Choice: the engine explores all programs of the profile,
// nothing is sampled. Blocks have the shape  pre · construct · post  where pre
// and post come from small menus (something that prints or binds before, an
// observer after) and the construct from a rich one; this keeps the number of
// programs polynomial while every construct is seen with output before it and
// an observation after it.
type Profile struct {
	Ifs      bool // <%= if %> with printing blocks, else, else-if
	Ctl      bool // silent ifs holding break / continue / return / let
	Bare     bool // bare break / continue (what follows is dead)
	Loops    bool // nested loops
	Iters    int  // kinds of iterable a nested loop may use (1..7)
	Lets     bool // let / reads of the let-bound name v
	Assigns  bool // assignment to an existing name
	Calls    bool // calls of the user function f (when one is defined)
	Unknown  bool // the unbound name u in tolerant positions
	Faults   bool // failing operations in value positions
	Shadow   bool // loop variables / lets named like outer names
	Conds    int  // size of the condition menu (0 = all)
	Vals     int  // size of the value menu (0 = all)
	Pres     int  // size of the pre menu (0 = all)
	Posts    int  // size of the post menu (0 = all)
	Leafs    int  // size of the leaf menu (0 = all)
	Elifs    bool // else-if arms
	Hits     bool // conditions may call the recording helper hit(k)
	NoKey    bool // loops are written without an index variable
	LetConds bool // conditions may test the let-bound name v; a block may end by binding it
}

// Cx is the syntactic context a block is generated for.
type Cx struct {
	Loop  bool   // inside a loop body: break / continue are legal
	Fn    bool   // inside a function body: no text, no output, return is legal
	Inner string // the innermost int-valued name (loop element, parameter, x)
	Key   string // the loop index, if bound
	FnAr  int    // arity of the user function f, 0 = none defined
	Other string // a second int-valued name in scope (the second parameter)
}

type G struct {
	P      Profile
	letter int
	hits   int
}

// Hit: the next call of the recording helper, hit(k) with a fresh k.
func (g *G) Hit() *Expr {
	e := Call("hit", Lit(g.hits))
	g.hits++
	return e
}

// FnBody: a function body over its (first) parameter: pre · construct · return.
func (g *G) FnBody(param string, fnAr int, second string) []*Stmt {
	c := Cx{Fn: true, Inner: param, FnAr: fnAr, Other: second}
	var out []*Stmt
	out = append(out, g.pre(c)...)
	out = append(out, g.Construct(c, 0)...)
	out = append(out, Return(g.Val(c)))
	return out
}

func (g *G) Text() *Stmt {
	s := string(rune('A' + g.letter%26))
	g.letter++
	return Text(s)
}

func pickBlock(m [][]*Stmt, limit int) []*Stmt {
	n := len(m)
	if limit > 0 && limit < n {
		n = limit
	}
	return m[vrt.Choice(n)]
}

func pick(xs []*Expr, limit int) *Expr {
	n := len(xs)
	if limit > 0 && limit < n {
		n = limit
	}
	return xs[vrt.Choice(n)]
}

// Val: an expression in a value position.
func (g *G) Val(c Cx) *Expr {
	m := []*Expr{Var(c.Inner)}
	if g.P.Faults {
		m = append(m, Var("u")) // early, so that a small menu keeps one failing operand
	}
	if c.Other != "" {
		m = append(m, Add(Var(c.Inner), Var(c.Other)))
	}
	if g.P.Lets {
		m = append(m, Var("v"))
	}
	if g.P.Calls && c.FnAr == 1 {
		m = append(m, Call("f", Var(c.Inner)))
	}
	if g.P.Calls && c.FnAr == 2 {
		m = append(m, Call("f", Var(c.Inner), Lit(1)))
	}
	if c.Inner != "x" {
		m = append(m, Var("x"))
	}
	m = append(m, Add(Var(c.Inner), Lit(1)))
	if c.Key != "" {
		m = append(m, Var(c.Key))
	}
	if g.P.Faults {
		m = append(m, Idx(Var("xs"), Lit(5)), Add(Var("u"), Lit(1)))
	}
	return pick(m, g.P.Vals)
}

// Cond: an expression in a condition position.
func (g *G) Cond(c Cx) *Expr {
	m := []*Expr{Eq(Var(c.Inner), Var("t"))}
	if g.P.Unknown {
		m = append(m, Var("u"))
	}
	m = append(m, Var(c.Inner), Lt(Var(c.Inner), Var("t")))
	if g.P.LetConds {
		m = append([]*Expr{Var("v")}, m...) // is the let-bound name set? (first, so that a small menu keeps it)
	}
	if g.P.Unknown {
		m = append(m, Not(Var("u")), Or(Var("u"), Eq(Var(c.Inner), Var("t"))))
	}
	if g.P.Calls && c.FnAr == 1 {
		m = append(m, Eq(Call("f", Var(c.Inner)), Var("t")))
	}
	if g.P.Faults {
		m = append(m, Lt(Var("u"), Lit(1)))
	}
	if g.P.Hits {
		// listed first so that a small Conds keeps it
		m = append([]*Expr{g.Hit()}, m...)
	}
	return pick(m, g.P.Conds)
}

// Iterable kinds for loops.
func (g *G) Iterable(limit int) *Expr {
	m := []*Expr{
		Var("xs"),
		Call("iter", Var("xs")),
		Call("same", Var("xs")),
		Arr(Nil(), Var("x")),
		Arr(Var("x"), Lit(7)),
		Call("range", Lit(0), Lit(1)),
		Call("none"),
	}
	return pick(m, limit)
}

// pre: something that prints or binds before the construct (or nothing).
func (g *G) pre(c Cx) []*Stmt {
	var m [][]*Stmt
	m = append(m, nil)
	if !c.Fn {
		m = append(m, []*Stmt{g.Text()}, []*Stmt{Out(Var(c.Inner))})
	}
	if g.P.Lets {
		m = append(m, []*Stmt{Let("v", Var(c.Inner))})
	}
	return pickBlock(m, g.P.Pres)
}

// post: an observer after the construct (or nothing).
func (g *G) post(c Cx) []*Stmt {
	var m [][]*Stmt
	m = append(m, nil)
	if !c.Fn {
		if c.Key != "" {
			m = append(m, []*Stmt{Out(Var(c.Key))})
		} else {
			m = append(m, []*Stmt{g.Text()})
		}
		m = append(m, []*Stmt{Out(Var(c.Inner))})
		if g.P.Lets {
			m = append(m, []*Stmt{Out(Var("v"))})
		}
		if c.Key != "" {
			m = append(m, []*Stmt{g.Text()})
		}
	} else {
		m = append(m, []*Stmt{Return(g.Val(c))})
	}
	if g.P.LetConds && !c.Fn {
		m = append([][]*Stmt{{Let("v", Var(c.Inner))}}, m...)
	}
	return pickBlock(m, g.P.Posts)
}

// leaf: a tiny printing block, possibly ending in a control statement.
func (g *G) leaf(c Cx) []*Stmt {
	var m [][]*Stmt
	m = append(m, []*Stmt{g.Text()})
	if c.Loop {
		m = append(m, []*Stmt{g.Text(), Break()}, []*Stmt{Out(Var(c.Inner)), Continue()})
	}
	m = append(m, []*Stmt{Out(Var(c.Inner))})
	if c.Loop {
		m = append(m, []*Stmt{Break()}, []*Stmt{Continue()})
	}
	if g.P.Lets {
		m = append(m, []*Stmt{Let("v", Add(Var(c.Inner), Lit(1)))})
	}
	return pickBlock(m, g.P.Leafs)
}

// ctl: the body of a silent if.
func (g *G) ctl(c Cx) []*Stmt {
	var m [][]*Stmt
	if c.Loop {
		m = append(m, []*Stmt{Break()}, []*Stmt{Continue()})
	}
	if c.Fn {
		m = append(m, []*Stmt{Return(g.Val(c))})
	}
	if g.P.Lets {
		m = append(m, []*Stmt{Let("v", Var(c.Inner))})
	}
	if len(m) == 0 {
		return []*Stmt{Let("w", Lit(1))}
	}
	return m[vrt.Choice(len(m))]
}

const (
	kCtl = iota
	kCtlElse
	kBreak
	kContinue
	kIf
	kIfElse
	kElif
	kFor
	kLet
	kShadowLet
	kAssign
	kOut
)

// Construct: the statement under test in the middle of a block.
func (g *G) Construct(c Cx, depth int) []*Stmt {
	var m []int
	if g.P.Ctl && (c.Loop || c.Fn || g.P.Lets) {
		m = append(m, kCtl)
		if c.Loop {
			m = append(m, kCtlElse)
		}
	}
	if g.P.Bare && c.Loop {
		m = append(m, kBreak, kContinue)
	}
	if g.P.Ifs && !c.Fn {
		m = append(m, kIf, kIfElse)
		if g.P.Elifs {
			m = append(m, kElif)
		}
	}
	if g.P.Loops && depth > 0 && !c.Fn {
		m = append(m, kFor)
	}
	if g.P.Lets {
		m = append(m, kLet)
		if g.P.Shadow {
			m = append(m, kShadowLet)
		}
	}
	if g.P.Assigns {
		m = append(m, kAssign)
	}
	if !c.Fn && (g.P.Calls || g.P.Faults) {
		m = append(m, kOut)
	}
	switch m[vrt.Choice(len(m))] {
	case kCtl:
		return []*Stmt{If(false, g.Cond(c), g.ctl(c))}
	case kCtlElse:
		return []*Stmt{IfElse(false, g.Cond(c), []*Stmt{Break()}, []*Stmt{Continue()})}
	case kBreak:
		return []*Stmt{Break()}
	case kContinue:
		return []*Stmt{Continue()}
	case kIf:
		return []*Stmt{If(true, g.Cond(c), g.leaf(c))}
	case kIfElse:
		th := g.leaf(c)
		el := []*Stmt{g.Text()}
		if c.Loop && vrt.Choice(2) == 1 {
			el = []*Stmt{g.Text(), Continue()}
		}
		return []*Stmt{IfElse(true, g.Cond(c), th, el)}
	case kElif:
		s := IfElse(true, g.Cond(c), []*Stmt{g.Text()}, []*Stmt{g.Text()})
		s.Elifs = []Elif{{Cond: g.Cond(c), Body: g.leaf(c)}}
		return []*Stmt{s}
	case kFor:
		return []*Stmt{g.For(c, depth-1)}
	case kLet:
		return []*Stmt{Let("v", g.Val(c))}
	case kShadowLet:
		return []*Stmt{Let("x", g.Val(c))}
	case kAssign:
		if g.P.Shadow && vrt.Choice(2) == 1 {
			return []*Stmt{Assign("x", g.Val(c))}
		}
		return []*Stmt{Assign("v", g.Val(c))}
	case kOut:
		return []*Stmt{Out(g.Val(c))}
	}
	return []*Stmt{g.Text()}
}

// Block: pre · construct · post.
func (g *G) Block(c Cx, depth int) []*Stmt {
	var out []*Stmt
	out = append(out, g.pre(c)...)
	out = append(out, g.Construct(c, depth)...)
	out = append(out, g.post(c)...)
	return out
}

// For: a loop whose body is a generated block.
func (g *G) For(c Cx, depth int) *Stmt {
	val, key := "e", ""
	if c.Loop {
		val = "g" // an inner loop
	}
	if g.P.Shadow {
		switch vrt.Choice(3) {
		case 1:
			val = "x" // shadows the outer x
		case 2:
			val = c.Inner // shadows whatever is innermost
		}
	}
	if !g.P.NoKey && vrt.Choice(2) == 1 {
		key = "i"
		if c.Loop {
			key = "j"
		}
	}
	it := g.Iterable(g.P.Iters)
	inner := Cx{Loop: true, Inner: val, Key: key, FnAr: c.FnAr}
	return For(key, val, it, g.Block(inner, depth))
}
