package gen

import "strconv"

// Reference interpreter for the grammar of ast.go. It is written from the
// property statements, not from plush's evaluator:
//
//	C02  output = literal text + values of <%= %> tags, in execution order; code
//	     tags contribute nothing
//	C05  a failing operation fails the render (empty output); only an unknown
//	     identifier used as a condition or operand of ! == != && || counts as nil
//	C07  first truthy branch; nil, false, unknown identifiers falsy, 0 truthy
//	C08  one body per element in order, index as key; break / continue keep what
//	     the iteration produced; nil iterable renders nothing, non-iterable fails
//	C09  loop variables, lets in a loop body, parameters and lets in a function
//	     are invisible afterwards and leave outer names unchanged
//	C16  arguments evaluated in the caller's scope, parameters bound, first
//	     return reached is the value
//
// Where the statements leave the outcome open the interpreter does not guess:
// it sets Either (an error, or exactly Out) or Skip (nothing is asserted).

// Data is what the templates compute with (all symbolic in the harnesses).
type Data struct {
	X, T int
	Xs   []int
	B    []bool // what the recording helper hit(k) returns
}

type iterator struct{ elems []interface{} }

type binding struct {
	name    string
	v       interface{}
	stamp   int
	tainted bool
}

type scope struct {
	vars  []*binding
	outer *scope
	iter  int
	loop  bool
	fn    bool
}

func (s *scope) local(name string) *binding {
	for _, b := range s.vars {
		if b.name == name {
			return b
		}
	}
	return nil
}

func (s *scope) set(name string, v interface{}) {
	if b := s.local(name); b != nil {
		b.v, b.stamp, b.tainted = v, s.iter, false
		return
	}
	s.vars = append(s.vars, &binding{name: name, v: v, stamp: s.iter})
}

// Ref is the outcome the properties prescribe.
type Ref struct {
	Out    string
	Fail   bool  // the render must fail with empty output
	Either bool  // an unspecified corner was touched: an error, or exactly Out
	Skip   bool  // the output is not determined by the properties
	Stale  bool  // a binding made in an earlier iteration of the running loop was read
	Fresh  bool  // mode: every iteration starts with a fresh scope (otherwise one scope per loop run)
	Hits   []int // the calls of hit(k), in order
	d      Data
	cur    *scope
	root   *scope
	silent int
	depth  int
}

const (
	stOK      = iota
	stUnknown // the expression itself is an unbound (or nil-bound) name
	stNested  // an unknown identifier deeper inside the expression
	stFault   // any other failing operation
)

const (
	sigNone = iota
	sigBreak
	sigContinue
	sigReturn
)

// Run interprets prog on d: a let in a loop body lasts for the loop run.
func Run(prog []*Stmt, d Data) *Ref { return run(prog, d, false) }

// RunFresh: the same, but every iteration starts with a fresh scope. The
// statements do not say which of the two a loop does; when the difference
// matters (Ref.Stale) a harness accepts both.
func RunFresh(prog []*Stmt, d Data) *Ref { return run(prog, d, true) }

func run(prog []*Stmt, d Data, fresh bool) *Ref {
	r := &Ref{d: d, Fresh: fresh}
	r.root = &scope{}
	r.cur = r.root
	r.root.set("x", d.X)
	r.root.set("t", d.T)
	r.root.set("xs", d.Xs)
	sig, _, st := r.block(prog)
	if sig != sigNone {
		r.Skip = true // break / continue / return at top level: not generated
	}
	if st != stOK {
		r.Fail = true
		r.Out = ""
	}
	return r
}

func truthy(v interface{}) bool {
	switch t := v.(type) {
	case nil:
		return false
	case bool:
		return t
	}
	return true
}

// lookup finds the binding a name refers to and flags reads whose meaning the
// properties do not fix.
func (r *Ref) lookup(name string) *binding {
	crossedFn := false
	for s := r.cur; s != nil; s = s.outer {
		if b := s.local(name); b != nil {
			if b.tainted {
				r.Skip = true // assigned from inside a nested scope: write-through or shadow?
			}
			if s.loop && b.stamp != s.iter {
				r.Stale = true // a let of an earlier iteration: fresh scope per iteration or per loop run? (both accepted)
			}
			if crossedFn && s != r.root {
				r.Skip = true // a function body reading its caller's locals: lexical or dynamic?
			}
			return b
		}
		if s.fn {
			crossedFn = true
		}
	}
	return nil
}

// value evaluates e where a value is required: an unknown identifier fails
// (status stNested so that an enclosing tolerant position can see what it was).
func (r *Ref) value(e *Expr) (interface{}, int) { return r.operand(e) }

// tolerant evaluates e in a position that tolerates an unknown identifier.
func (r *Ref) tolerant(e *Expr) (interface{}, int) {
	v, st := r.eval(e)
	switch st {
	case stOK:
		return v, stOK
	case stUnknown:
		return nil, stOK
	case stNested:
		// C05: the unknown name is not itself the condition / operand, so this
		// is the failure of a nested operation like any other
		return nil, stFault
	}
	return nil, stFault
}

func (r *Ref) eval(e *Expr) (interface{}, int) {
	switch e.K {
	case ELit:
		return e.N, stOK
	case ENil:
		return nil, stOK
	case EVar:
		b := r.lookup(e.Name)
		if b == nil || b.v == nil {
			return nil, stUnknown
		}
		return b.v, stOK
	case EAdd, ELt:
		a, st := r.operand(e.A)
		if st != stOK {
			return nil, st
		}
		b, st := r.operand(e.B)
		if st != stOK {
			return nil, st
		}
		x, ok1 := a.(int)
		y, ok2 := b.(int)
		if !ok1 || !ok2 {
			return nil, stFault
		}
		if e.K == EAdd {
			return x + y, stOK
		}
		return x < y, stOK
	case EEq:
		a, st := r.tolerant(e.A)
		if st != stOK {
			return nil, st
		}
		b, st := r.tolerant(e.B)
		if st != stOK {
			return nil, st
		}
		if a == nil || b == nil {
			return a == nil && b == nil, stOK
		}
		switch x := a.(type) {
		case int:
			if y, ok := b.(int); ok {
				return x == y, stOK
			}
		case bool:
			if y, ok := b.(bool); ok {
				return x == y, stOK
			}
		}
		return nil, stFault
	case ENot:
		a, st := r.tolerant(e.A)
		if st != stOK {
			return nil, st
		}
		return !truthy(a), stOK
	case EAnd, EOr:
		a, st := r.tolerant(e.A)
		if st != stOK {
			return nil, st
		}
		if e.K == EAnd && !truthy(a) {
			return false, stOK
		}
		if e.K == EOr && truthy(a) {
			return true, stOK
		}
		b, st := r.tolerant(e.B)
		if st != stOK {
			return nil, st
		}
		return truthy(b), stOK
	case EArr:
		out := []interface{}{}
		for _, a := range e.Args {
			v, st := r.operand(a)
			if st != stOK {
				return nil, st
			}
			out = append(out, v)
		}
		return out, stOK
	case EIdx:
		a, st := r.operand(e.A)
		if st != stOK {
			return nil, st
		}
		i, st := r.operand(e.B)
		if st != stOK {
			return nil, st
		}
		n, ok := i.(int)
		if !ok {
			return nil, stFault
		}
		switch xs := a.(type) {
		case []int:
			if n < 0 {
				return nil, stFault
			}
			if n >= len(xs) {
				return nil, stFault
			}
			return xs[n], stOK
		case []interface{}:
			if n < 0 {
				return nil, stFault
			}
			if n >= len(xs) {
				return nil, stFault
			}
			return xs[n], stOK
		}
		return nil, stFault
	case ECall:
		return r.call(e)
	}
	return nil, stFault
}

// operand: a sub-expression whose value is needed; an unknown name below the
// top of the expression is reported as nested.
func (r *Ref) operand(e *Expr) (interface{}, int) {
	v, st := r.eval(e)
	if st == stUnknown {
		if e.K == EVar {
			if b := r.lookup(e.Name); b != nil {
				// a name bound to nil in a value position: it reads as nothing or as
				// an unknown identifier, and what follows differs between the two
				r.Skip = true
				return nil, stOK
			}
		}
		return nil, stNested
	}
	return v, st
}

func (r *Ref) call(e *Expr) (interface{}, int) {
	if b := r.lookup(e.Name); b != nil {
		f, ok := b.v.(*Stmt)
		if !ok {
			return nil, stFault
		}
		if len(e.Args) < len(f.Params) {
			return nil, stFault
		}
		if len(e.Args) > len(f.Params) {
			r.Skip = true // surplus arguments: ignored or rejected?
		}
		vals := make([]interface{}, len(f.Params))
		for i := range f.Params {
			v, st := r.operand(e.Args[i])
			if st != stOK {
				return nil, st
			}
			vals[i] = v
		}
		if r.depth > 6 {
			r.Skip = true
			return nil, stFault
		}
		saved := r.cur
		r.cur = &scope{outer: saved, fn: true}
		r.depth++
		for i, p := range f.Params {
			r.cur.set(p, vals[i])
		}
		sig, v, st := r.block(f.Body)
		r.depth--
		r.cur = saved
		if st != stOK {
			// a failure inside the body; if it was an unknown identifier it
			// travels up unwrapped, which a tolerant position may forgive
			return nil, st
		}
		if sig != sigReturn {
			r.Skip = true // fell off the end: the value is what the body rendered
			return nil, stOK
		}
		return v, stOK
	}
	switch e.Name {
	case "same":
		if len(e.Args) != 1 {
			return nil, stFault
		}
		return r.helperArg(e.Args[0])
	case "none":
		return nil, stOK
	case "hit":
		if len(e.Args) != 1 || e.Args[0].K != ELit {
			return nil, stFault
		}
		k := e.Args[0].N
		r.Hits = append(r.Hits, k)
		if k < len(r.d.B) {
			return r.d.B[k], stOK
		}
		return false, stOK
	case "iter":
		if len(e.Args) != 1 {
			return nil, stFault
		}
		v, st := r.helperArg(e.Args[0])
		if st != stOK {
			return nil, st
		}
		xs, ok := v.([]int)
		if !ok {
			return nil, stFault
		}
		it := &iterator{}
		for _, x := range xs {
			it.elems = append(it.elems, x)
		}
		return it, stOK
	case "range":
		if len(e.Args) != 2 {
			return nil, stFault
		}
		a, st := r.helperArg(e.Args[0])
		if st != stOK {
			return nil, st
		}
		b, st := r.helperArg(e.Args[1])
		if st != stOK {
			return nil, st
		}
		lo, ok1 := a.(int)
		hi, ok2 := b.(int)
		if !ok1 || !ok2 {
			return nil, stFault
		}
		it := &iterator{}
		for i := lo; i <= hi; i++ {
			it.elems = append(it.elems, i)
		}
		return it, stOK
	}
	return nil, stNested // an unknown function name
}

// an argument of a Go helper: its failure is wrapped by the call, so it is
// never the tolerated bare unknown identifier
func (r *Ref) helperArg(e *Expr) (interface{}, int) {
	v, st := r.operand(e)
	if st == stNested {
		// raw or wrapped is an implementation detail: either reading
		return nil, stNested
	}
	return v, st
}

// ---------------------------------------------------------------- statements

func (r *Ref) write(v interface{}) {
	switch t := v.(type) {
	case nil:
	case int:
		r.Out += strconv.Itoa(t)
	case bool:
		if t {
			r.Out += "true"
		} else {
			r.Out += "false"
		}
	case []interface{}:
		for _, x := range t {
			r.write(x)
		}
	default:
		r.Skip = true // a slice of ints, a function, an iterator: no printed form is prescribed
	}
}

func (r *Ref) block(ss []*Stmt) (int, interface{}, int) {
	for _, s := range ss {
		sig, v, st := r.stmt(s)
		if st != stOK {
			return sigNone, nil, st
		}
		if sig != sigNone {
			return sig, v, stOK
		}
	}
	return sigNone, nil, stOK
}

func (r *Ref) stmt(s *Stmt) (int, interface{}, int) {
	switch s.K {
	case SText:
		if r.silent == 0 {
			r.Out += s.Text
		}
	case SOut:
		v, st := r.value(s.E)
		if st != stOK {
			return sigNone, nil, st
		}
		if r.silent == 0 {
			r.write(v)
			r.Out += ";"
		}
	case SEval:
		_, st := r.value(s.E)
		if st != stOK {
			return sigNone, nil, st
		}
	case SLet:
		v, st := r.value(s.E)
		if st != stOK {
			return sigNone, nil, st
		}
		r.cur.set(s.Name, v)
	case SAssign:
		v, st := r.value(s.E)
		if st != stOK {
			return sigNone, nil, st
		}
		b := r.lookup(s.Name)
		if b == nil || b.v == nil {
			return sigNone, nil, stNested // assignment to an unbound name
		}
		if r.cur.local(s.Name) == nil {
			// the name lives in an outer scope: write-through or a local shadow?
			b.tainted = true
		}
		r.cur.set(s.Name, v)
	case SFn:
		r.cur.set(s.Name, s)
	case SBreak:
		return sigBreak, nil, stOK
	case SContinue:
		return sigContinue, nil, stOK
	case SReturn:
		v, st := r.value(s.E)
		if st != stOK {
			return sigNone, nil, st
		}
		return sigReturn, v, stOK
	case SIf:
		return r.ifStmt(s)
	case SFor:
		return r.forStmt(s)
	}
	return sigNone, nil, stOK
}

func (r *Ref) branch(show bool, ss []*Stmt) (int, interface{}, int) {
	if !show {
		r.silent++
	}
	sig, v, st := r.block(ss)
	if !show {
		r.silent--
	}
	return sig, v, st
}

func (r *Ref) ifStmt(s *Stmt) (int, interface{}, int) {
	c, st := r.tolerant(s.E)
	if st != stOK {
		return sigNone, nil, st
	}
	if truthy(c) {
		return r.branch(s.Show, s.Then)
	}
	for _, ei := range s.Elifs {
		c, st := r.tolerant(ei.Cond)
		if st != stOK {
			return sigNone, nil, st
		}
		if truthy(c) {
			return r.branch(s.Show, ei.Body)
		}
	}
	if s.HasElse {
		return r.branch(s.Show, s.Else)
	}
	return sigNone, nil, stOK
}

func (r *Ref) forStmt(s *Stmt) (int, interface{}, int) {
	it, st := r.value(s.E)
	if st != stOK {
		return sigNone, nil, st
	}
	var elems []interface{}
	switch t := it.(type) {
	case nil:
		return sigNone, nil, stOK // a nil iterable renders nothing
	case []int:
		for _, x := range t {
			elems = append(elems, x)
		}
	case []interface{}:
		elems = t
	case *iterator:
		elems = t.elems
	default:
		return sigNone, nil, stFault // not iterable
	}
	saved := r.cur
	r.cur = &scope{outer: saved, loop: true}
	for i, el := range elems {
		r.cur.iter = i + 1
		if r.Fresh {
			r.cur.vars = nil
		}
		if s.Key != "" {
			r.cur.set(s.Key, i)
		}
		r.cur.set(s.Val, el)
		sig, v, st := r.block(s.Body)
		if st != stOK {
			r.cur = saved
			return sigNone, nil, st
		}
		if sig == sigBreak {
			break
		}
		if sig == sigReturn {
			if r.depth > 0 {
				// C16: the first return reached is the value of the call and
				// everything after it is skipped, the rest of the loop included
				r.cur = saved
				return sigReturn, v, stOK
			}
			r.Skip = true // outside a function the statements do not say what return in a loop body does
			break
		}
	}
	r.cur = saved
	return sigNone, nil, stOK
}
