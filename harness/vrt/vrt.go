// Package vrt is the harness runtime. The same harness source is
//   - executed symbolically by /verif/engine (symgo), which intercepts every
//     function of this package by name and never runs the bodies below, and
//   - compiled natively for replay: the bodies below pop the recorded values of a
//     replay vector (file named by VERIF_REPLAY, or one element of a batch).
package vrt

import (
	"encoding/hex"
	"encoding/json"
	"fmt"
	"math"
	"os"
	"reflect"
	"runtime"
	"strings"
	"sync"
)

// ---------------------------------------------------------------- registry

var registry = map[string]func(){}
var order []string

// Register a harness under a name (called from init of the harness packages;
// the engine intercepts it to learn the entry points).
func Register(name string, f func()) {
	registry[name] = f
	order = append(order, name)
}

// Names of the registered harnesses in registration order.
func Names() []string { return order }

// ---------------------------------------------------------------- replay state

// Vector is one replay vector.
type Vector struct {
	Property  string          `json:"property"`
	Harness   string          `json:"harness"`
	Tier      int             `json:"tier"`
	Values    []Value         `json:"values"`
	Predicted json.RawMessage `json:"predicted,omitempty"`
	Notes     []NoteRec       `json:"notes,omitempty"`
	ID        int             `json:"id,omitempty"`
	Partial   bool            `json:"partial,omitempty"` // a decided prefix only: the rest of the inputs are zero values
}

// Value is one recorded nondeterministic value, in creation order.
type Value struct {
	Kind string `json:"kind"` // byte|int|int64|bool|choice|perm
	V    int64  `json:"v"`
}

// NoteRec is a value noted by the harness.
type NoteRec struct {
	K string `json:"k"`
	V string `json:"v"` // hex for strings, decimal for ints, true/false
}

type assertFailure struct{ label string }

var cur struct {
	vec    *Vector
	pos    int
	notes  []NoteRec
	covers []string
}

func pop(kind string) int64 {
	if cur.vec == nil {
		panic("vrt: no replay vector loaded (native harness code only runs under replay)")
	}
	// map-iteration orders chosen by the engine cannot be imposed on the Go runtime
	for cur.pos < len(cur.vec.Values) && (cur.vec.Values[cur.pos].Kind == "perm" || cur.vec.Values[cur.pos].Kind == "sched") {
		cur.pos++
	}
	if cur.pos >= len(cur.vec.Values) {
		if cur.vec.Partial {
			return 0
		}
		panic(fmt.Sprintf("vrt: replay vector exhausted at value %d (%s)", cur.pos, kind))
	}
	v := cur.vec.Values[cur.pos]
	if v.Kind != kind {
		panic(fmt.Sprintf("vrt: replay vector value %d is %s, harness asked for %s", cur.pos, v.Kind, kind))
	}
	cur.pos++
	return v.V
}

// ---------------------------------------------------------------- nondeterminism

// Tier returns 0 for quick and 1 for thorough (concrete in both modes).
func Tier() int {
	if cur.vec == nil {
		return 0
	}
	return cur.vec.Tier
}

// Byte is an arbitrary byte.
func Byte() byte { return byte(pop("byte")) }

// Int is an arbitrary int (64 bit).
func Int() int { return int(pop("int")) }

// Int64 is an arbitrary int64.
func Int64() int64 { return pop("int64") }

// Float64 is an arbitrary float64 (every bit pattern: NaNs, infinities, zeros, subnormals).
func Float64() float64 { return math.Float64frombits(uint64(pop("float"))) }

// Bool is an arbitrary bool.
func Bool() bool { return pop("bool") != 0 }

// Choice forks over 0..n-1 (an enumerated dimension).
func Choice(n int) int {
	v := int(pop("choice"))
	if v < 0 || v >= n {
		panic("vrt: choice out of range")
	}
	return v
}

// IntRange forks over lo..hi inclusive (small explicit ranges such as lengths).
func IntRange(lo, hi int) int { return lo + Choice(hi-lo+1) }

// Bytes is a string of exactly n arbitrary bytes.
func Bytes(n int) string {
	b := make([]byte, n)
	for i := range b {
		b[i] = Byte()
	}
	return string(b)
}

// BytesIn is a string of n bytes, each assumed to be a member of alphabet.
func BytesIn(n int, alphabet string) string {
	s := Bytes(n)
	for i := 0; i < len(s); i++ {
		Assume(strings.IndexByte(alphabet, s[i]) >= 0)
	}
	return s
}

// ---------------------------------------------------------------- oracle side

type assumeFailure struct{}

// Assume restricts the inputs. A replayed vector always satisfies its assumptions.
func Assume(b bool) {
	if !b {
		panic(assumeFailure{})
	}
}

// Assert states the property. label identifies the assertion in reports.
func Assert(b bool, label string) {
	if !b {
		panic(assertFailure{label})
	}
}

// Cover marks a point that must be reachable (vacuity guard).
func Cover(label string) { cur.covers = append(cur.covers, label) }

// Note attaches a value to the path (shown in evidence samples, compared between
// the symbolic and the native run in path validation).
func Note(k string, v interface{}) {
	var s string
	switch x := v.(type) {
	case string:
		s = hex.EncodeToString([]byte(x))
	case int:
		s = fmt.Sprint(x)
	case bool:
		s = fmt.Sprint(x)
	case float64:
		s = fmt.Sprint(math.Float64bits(x))
	case error:
		if x == nil {
			s = "<nil>"
		} else {
			s = hex.EncodeToString([]byte(x.Error()))
		}
	case nil:
		s = "<nil>"
	default:
		s = "?"
	}
	cur.notes = append(cur.notes, NoteRec{k, s})
}

// MapOrderNondet: inside a window where it is on, the engine explores every
// iteration order of Go maps with 2..4 entries. Natively a no-op (the Go runtime
// randomises by itself); replays of order-dependent violations are run several times.
func MapOrderNondet(on bool) {}

// Unreachable marks code the harness believes cannot be reached.
func Unreachable(label string) { panic(assertFailure{"unreachable: " + label}) }

// ---------------------------------------------------------------- running a vector natively

// Result of a native run.
type Result struct {
	ID      int       `json:"id"`
	Outcome string    `json:"outcome"` // ok | assert | panic | assume | vector
	Label   string    `json:"label,omitempty"`
	Site    string    `json:"site,omitempty"`
	Msg     string    `json:"msg,omitempty"`
	Notes   []NoteRec `json:"notes,omitempty"`
	Covers  []string  `json:"covers,omitempty"`
}

// Run executes one vector against the natively compiled code.
func Run(v *Vector) (res Result) {
	res.ID = v.ID
	f := registry[v.Harness]
	if f == nil {
		res.Outcome, res.Msg = "vector", "unknown harness "+v.Harness
		return
	}
	cur.vec, cur.pos, cur.notes, cur.covers = v, 0, nil, nil
	defer func() {
		res.Notes, res.Covers = cur.notes, cur.covers
		cur.vec = nil
		if r := recover(); r != nil {
			switch x := r.(type) {
			case assertFailure:
				res.Outcome, res.Label = "assert", x.label
			case assumeFailure:
				res.Outcome = "assume"
			default:
				res.Outcome = "panic"
				res.Msg = fmt.Sprint(r)
				res.Site = panicSite()
				if strings.HasPrefix(res.Msg, "vrt: ") {
					res.Outcome = "vector"
				}
			}
		}
	}()
	f()
	res.Outcome = "ok"
	return
}

// panicSite: innermost frame in the module under test on the panicking stack.
func panicSite() string {
	pcs := make([]uintptr, 64)
	n := runtime.Callers(3, pcs)
	fr := runtime.CallersFrames(pcs[:n])
	for {
		f, more := fr.Next()
		if strings.Contains(f.Function, "gobuffalo/plush") {
			fn := f.Function
			if i := strings.LastIndex(fn, "/"); i >= 0 {
				fn = fn[i+1:]
			}
			return fn
		}
		if !more {
			break
		}
	}
	return ""
}

// Main is called by the TestReplay of each harness package.
//
//	VERIF_REPLAY=<file with one vector>     -> prints one REPLAY-RESULT line
//	VERIF_REPLAY_BATCH=<file, one vector per line> -> one line per vector
//
// Returns the number of vectors whose outcome is not "ok".
func Main() int {
	bad := 0
	emit := func(r Result) {
		b, _ := json.Marshal(r)
		fmt.Println("REPLAY-RESULT " + string(b))
		if r.Outcome != "ok" {
			bad++
		}
	}
	if p := os.Getenv("VERIF_REPLAY"); p != "" {
		data, err := os.ReadFile(p)
		if err != nil {
			fmt.Println("REPLAY-ERROR", err)
			return 1
		}
		var v Vector
		if err := json.Unmarshal(data, &v); err != nil {
			fmt.Println("REPLAY-ERROR", err)
			return 1
		}
		emit(Run(&v))
	}
	if p := os.Getenv("VERIF_REPLAY_BATCH"); p != "" {
		data, err := os.ReadFile(p)
		if err != nil {
			fmt.Println("REPLAY-ERROR", err)
			return 1
		}
		for _, line := range strings.Split(string(data), "\n") {
			if strings.TrimSpace(line) == "" {
				continue
			}
			var v Vector
			if err := json.Unmarshal([]byte(line), &v); err != nil {
				fmt.Println("REPLAY-ERROR", err)
				bad++
				continue
			}
			emit(Run(&v))
		}
	}
	return bad
}

// ---------------------------------------------------------------- Freeze (C13)

// Freeze: every heap object reachable from x becomes read-only. The engine
// reports any store into it as a violation; natively a deep structural hash is
// taken here (through reflect, unexported fields included) and compared again
// by CheckFrozen.
func Freeze(x interface{}) {
	frozenVals = append(frozenVals, x)
	frozenSums = append(frozenSums, deepHash(reflect.ValueOf(x), map[uintptr]bool{}, 0))
}

// CheckFrozen fails (as an assertion) if a frozen object has changed.
func CheckFrozen() {
	for i, x := range frozenVals {
		if deepHash(reflect.ValueOf(x), map[uintptr]bool{}, 0) != frozenSums[i] {
			frozenVals, frozenSums = nil, nil
			panic(assertFailure{"frozen: store to memory reachable from the frozen template"})
		}
	}
	frozenVals, frozenSums = nil, nil
}

var frozenVals []interface{}
var frozenSums []uint64

func mix(h uint64, x uint64) uint64 {
	h ^= x
	h *= 1099511628211
	return h
}

func hashString(s string) uint64 {
	h := uint64(14695981039346656037)
	for i := 0; i < len(s); i++ {
		h = mix(h, uint64(s[i]))
	}
	return h
}

func deepHash(v reflect.Value, seen map[uintptr]bool, depth int) uint64 {
	h := uint64(14695981039346656037)
	if !v.IsValid() || depth > 100 {
		return h
	}
	h = mix(h, uint64(v.Kind()))
	switch v.Kind() {
	case reflect.Bool:
		if v.Bool() {
			h = mix(h, 1)
		}
	case reflect.Int, reflect.Int8, reflect.Int16, reflect.Int32, reflect.Int64:
		h = mix(h, uint64(v.Int()))
	case reflect.Uint, reflect.Uint8, reflect.Uint16, reflect.Uint32, reflect.Uint64, reflect.Uintptr:
		h = mix(h, v.Uint())
	case reflect.Float32, reflect.Float64:
		h = mix(h, hashString(fmt.Sprint(v.Float())))
	case reflect.String:
		h = mix(h, hashString(v.String()))
	case reflect.Ptr:
		if v.IsNil() {
			return mix(h, 0)
		}
		p := v.Pointer()
		if seen[p] {
			return mix(h, 7)
		}
		seen[p] = true
		h = mix(h, deepHash(v.Elem(), seen, depth+1))
	case reflect.Interface:
		if v.IsNil() {
			return mix(h, 0)
		}
		h = mix(h, hashString(v.Elem().Type().String()))
		h = mix(h, deepHash(v.Elem(), seen, depth+1))
	case reflect.Struct:
		for i := 0; i < v.NumField(); i++ {
			h = mix(h, deepHash(v.Field(i), seen, depth+1))
		}
	case reflect.Slice, reflect.Array:
		h = mix(h, uint64(v.Len()))
		for i := 0; i < v.Len(); i++ {
			h = mix(h, deepHash(v.Index(i), seen, depth+1))
		}
	case reflect.Map:
		h = mix(h, uint64(v.Len()))
		var acc uint64
		it := v.MapRange()
		for it.Next() {
			// order-independent combination of the entries
			s2 := map[uintptr]bool{}
			for k := range seen {
				s2[k] = true
			}
			acc += mix(deepHash(it.Key(), s2, depth+1), deepHash(it.Value(), s2, depth+1))
		}
		h = mix(h, acc)
	}
	return h
}

// ---------------------------------------------------------------- Par (C14)

// Par runs f and g as two threads. The engine executes them as two logical
// threads and decides with the solver whether any two conflicting accesses can
// be adjacent in some schedule. Natively they run concurrently, many times, so
// that a replay under `go test -race` lets the race detector confirm the race.
func Par(f, g func()) {
	rounds := 300
	var fail interface{}
	var mu sync.Mutex
	run := func(h func(), wg *sync.WaitGroup) {
		defer wg.Done()
		defer func() {
			if r := recover(); r != nil {
				mu.Lock()
				if fail == nil {
					fail = r
				}
				mu.Unlock()
			}
		}()
		h()
	}
	for i := 0; i < rounds && fail == nil; i++ {
		var wg sync.WaitGroup
		wg.Add(2)
		go run(f, &wg)
		go run(g, &wg)
		wg.Wait()
	}
	if fail != nil {
		panic(fail)
	}
}
