#!/bin/bash
# usage: basebox.sh <rootdir> <name> <property> <repo-commit> <with|without>
# Runs the property's quick check on a scratch copy of /repo AT <repo-commit> (git archive), with or
# without <rootdir>/<name>/patch.diff applied. Prints the set of "harness|signature" pairs that
# violated. Used to attribute alarms to a patch that only applies to an older commit: an alarm is the
# patch's if it is raised with the patch and not without it.
set -u
ROOT=$1; NAME=$2; PROP=$3; BASE=$4; MODE=$5
SB=/tmp/basebox/$NAME-$PROP-$MODE-$$
rm -rf $SB; mkdir -p $SB/repo $SB/verif/replays $SB/verif/evidence $SB/verif/.work /verif/.work
git -C /repo archive $BASE | tar -x -C $SB/repo
if [ "$MODE" = with ]; then
  ( cd $SB/repo && patch -s -p1 < /verif/$ROOT/$NAME/patch.diff ) || { echo "patch does not apply"; rm -rf $SB; exit 3; }
fi
rsync -a --exclude go.sum /verif/harness $SB/verif/
sed -i "s#=> /repo#=> $SB/repo#" $SB/verif/harness/go.mod
cp /verif/known_findings.json $SB/verif/
LOG=/verif/.work/basebox-$NAME-$PROP-$MODE.log
VERIF_DIR=$SB/verif VERIF_REPO=$SB/repo /verif/bin/symgo check $PROP --tier quick > $LOG 2>&1; RC=$?
grep -E 'harness=.*signature=' $LOG | sed -E 's/.*harness=([^ ]+) signature="([^"]*)".*/\1|\2/' | sort -u
echo "BASEBOX $NAME $PROP $MODE exit=$RC"
rm -rf $SB
