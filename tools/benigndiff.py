#!/usr/bin/env python3
"""Property-preserving corpus against the current checks. A patch that applies to /repo HEAD is run
there (the check must stay silent). One that only applies to an older commit is run on that commit
with and without the patch (tools/basebox.sh): the old commit itself violates properties that were
repaired later, so the patch is charged only with alarms (harness|signature) raised with it and not
without it. Writes benign/RESULTS.md."""
import json, os, re, subprocess, sys
from concurrent.futures import ThreadPoolExecutor
os.chdir("/verif")
def sh(*a, cwd=None, env=None):
    return subprocess.run(a, cwd=cwd, capture_output=True, text=True, env=env)
R = "/tmp/bdclone"
sh("rm", "-rf", R); sh("git", "clone", "-q", "/repo", R)
head = sh("git", "-C", "/repo", "rev-parse", "--short", "HEAD").stdout.strip()
commits = sh("git", "log", "--format=%h", "-n", "90", cwd=R).stdout.split()
names = sys.argv[1:] or sorted(n for n in os.listdir("benign") if os.path.isdir("benign/" + n))
plan = []
for n in names:
    p = f"/verif/benign/{n}/patch.diff"
    if not os.path.exists(p): continue
    base = None
    for b in commits:
        sh("git", "checkout", "-q", "-f", b, cwd=R); sh("git", "clean", "-fdq", cwd=R)
        if sh("git", "apply", "--check", p, cwd=R).returncode == 0:
            # ... and builds there (a patch can apply to a commit it was not written for)
            sh("git", "apply", p, cwd=R)
            okb = sh("go", "build", "./...", cwd=R).returncode == 0
            sh("git", "checkout", "-q", "-f", b, cwd=R); sh("git", "clean", "-fdq", cwd=R)
            if okb:
                base = b; break
    plan.append((n, base))
sh("rm", "-rf", R)
def pairs(out):
    # alarm classes: the assertion text; for panics the message without the site (a rewrite
    # renames the functions a defect of the old commit surfaces in); for races the functions
    res = set()
    for l in out.splitlines():
        if "|" not in l or l.startswith("BASEBOX"): continue
        s = l.split("|", 1)[1]
        if s.startswith("panic:"):
            parts = s.split(":", 2)
            s = "panic:" + re.sub(r"v5\.\S+", "", parts[2] if len(parts) > 2 else parts[1])
        elif s.startswith("race:"):
            s = "race:" + "/".join(sorted(set(re.findall(r"v5\.[\w.()*]+", s))))
        res.add(s[:100])
    return res
def one(nb):
    n, base = nb
    prop = n.split("-")[0]
    if base is None:
        return (n, "-", "APPLIES NOWHERE", [])
    if base == head:
        env = dict(os.environ, SEEDROOT="/verif/benign")
        r = sh("tools/seedbox.sh", n, prop, env=env).stdout
        rc = re.search(r"exit=(\d+)", r)
        viol = re.findall(r"^VIOLATION.*", r, re.M)
        return (n, head, "silent" if rc and rc.group(1) == "0" and not viol else "ALARM", viol[:3])
    w = sh("tools/basebox.sh", "benign", n, prop, base, "with").stdout
    wo = sh("tools/basebox.sh", "benign", n, prop, base, "without").stdout
    if "exit=3" in w or "exit=3" in wo or "does not apply" in w:
        return (n, base, "ENGINE/APPLY PROBLEM", [w[-200:], wo[-200:]])
    new = sorted(pairs(w) - pairs(wo))
    return (n, base, "silent (no alarm the base does not raise itself; base raises %d)" % len(pairs(wo)) if not new else "ALARM", new[:5])
with ThreadPoolExecutor(int(os.environ.get("JOBS", "4"))) as ex:
    rows = list(ex.map(one, plan))
if sys.argv[1:]:
    for r in rows: print(*r)
    sys.exit(0)
with open("benign/RESULTS.md", "w") as f:
    f.write(f"# Property-preserving corpus against the checks (repo HEAD {head})\n\n| change | run on | verdict | alarms charged to the change |\n|---|---|---|---|\n")
    for n, b, v, extra in rows:
        f.write(f"| {n} | {b} | {v} | {'; '.join(extra)} |\n")
        print(n, b, v, extra)
