#!/usr/bin/env python3
"""benign/RESULTS.md from the logs tools/benigndiff.py left in .work (no checks are run)."""
import os, re, subprocess
os.chdir("/verif")
head = subprocess.run(["git", "-C", "/repo", "rev-parse", "--short", "HEAD"], capture_output=True, text=True).stdout.strip()
def classes(path):
    res = set()
    txt = open(path).read()
    for m in re.finditer(r'harness=(\S+) signature="([^"]*)"', txt):
        s = m.group(2)
        if s.startswith("panic:"):
            parts = s.split(":", 2)
            s = "panic:" + re.sub(r"v5\.\S+", "", parts[2] if len(parts) > 2 else parts[1])
        elif s.startswith("race:"):
            s = "race:" + "/".join(sorted(set(re.sub(r"\.func\d+", "", f) for f in re.findall(r"v5\.[\w.()*]+", s))))
        res.add(s[:100])
    return res, ("ENGINE-ERROR" in txt)
rows = []
for n in sorted(x for x in os.listdir("benign") if os.path.isdir("benign/" + x)):
    p = n.split("-")[0]
    w, wo = f".work/basebox-{n}-{p}-with.log", f".work/basebox-{n}-{p}-without.log"
    sr = f".work/seedrun-{n}-{p}.log"
    if os.path.exists(w) and os.path.exists(wo):
        (cw, ew), (co, eo) = classes(w), classes(wo)
        if ew or eo:
            rows.append((n, "older commit", "NOT RUN (does not build where it applies)", "")); continue
        new = sorted(cw - co)
        rows.append((n, "older commit (with / without the change)", "silent: no alarm class the old commit does not raise itself (it raises %d)" % len(co) if not new else "ALARM", "; ".join(new)))
    elif os.path.exists(sr):
        txt = open(sr).read()
        viol = re.findall(r"^VIOLATION.*", txt, re.M)
        rows.append((n, head, "silent" if not viol and "ENGINE-ERROR" not in txt else "ALARM", "; ".join(viol[:2])))
    else:
        rows.append((n, "-", "NOT RUN", ""))
with open("benign/RESULTS.md", "w") as f:
    f.write(f"# Property-preserving corpus against the checks (repo HEAD {head})\n\nA change that applies to HEAD is run there. One that only applies to an older commit is run on that commit with and without it (tools/basebox.sh): the old commit violates what was repaired later, so the change is charged only with alarm classes (assertion text; panic message without the site; racing functions) it adds.\n\n| change | run on | verdict | alarm classes charged to the change |\n|---|---|---|---|\n")
    for r in rows:
        f.write("| " + " | ".join(r) + " |\n")
print(sum(1 for r in rows if r[2].startswith("silent")), "silent of", len(rows))
for r in rows:
    if not r[2].startswith("silent"): print(r)
