#!/usr/bin/env python3
"""Property-preserving changes (benign/<name>/patch.diff): confirms in a scratch worktree of /repo HEAD that
the change builds and the suite passes with it, then runs the property's quick check against it on a
scratch copy (tools/seedbox.sh). The check must stay silent (exit 0). Writes benign/<name>/meta.json and
benign/RESULTS.md. usage: benignsweep.py [names...]   env JOBS (default 3)"""
import json, os, re, subprocess, sys, time
from concurrent.futures import ThreadPoolExecutor
os.chdir("/verif")
ENV = dict(os.environ, GOFLAGS="-mod=mod", GOPROXY="off", GOSUMDB="off", GOTOOLCHAIN="local", SEEDROOT="/verif/benign")
only = sys.argv[1:]

def sh(cmd, cwd=None):
    return subprocess.run(cmd, shell=True, cwd=cwd, env=ENV, capture_output=True, text=True)

def one(name):
    prop = name.split("-")[0]
    d = f"/verif/benign/{name}"
    wt = f"/tmp/wtb/{name}-{os.getpid()}"
    sh(f"rm -rf {wt}; git -C /repo worktree prune; git -C /repo worktree add --detach {wt} HEAD -q")
    ap = sh(f"git apply {d}/patch.diff", cwd=wt)
    applies = ap.returncode == 0
    suite = demo = None
    if applies:
        suite = sh("go build ./... && go test -vet=off -count=1 ./... 2>&1 | grep -v '^ok\\|no test files' | tail -5", cwd=wt)
        suite_ok = sh("go build ./... && go test -vet=off -count=1 ./... >/dev/null 2>&1", cwd=wt).returncode == 0
    else:
        suite_ok = False
    sh(f"git -C /repo worktree remove --force {wt}")
    rc, sigs = None, []
    if applies and suite_ok:
        r = sh(f"tools/seedbox.sh {name} {prop}").stdout
        m = re.search(r"SEEDRUN \S+ \S+ exit=(\d+)", r)
        rc = int(m.group(1)) if m else None
        try:
            log = open(f"/verif/.work/seedrun-{name}-{prop}.log").read()
        except FileNotFoundError:
            log = ""
        sigs = sorted(set(re.findall(r'signature="([^"]*)"', log)))[:8]
        und = re.findall(r"^UNDECIDED.*$", log, re.M)[:4]
    else:
        und = []
    notes = open(f"{d}/notes.md").read() if os.path.exists(f"{d}/notes.md") else ""
    meta = {"property": prop, "name": name, "kind": "property-preserving change written by a fresh sub-agent (saw only the property text and its own worktree)",
            "what": notes.strip()[:1500], "applies": applies, "suite_passes_with_patch": suite_ok,
            "repo_head": sh("git -C /repo rev-parse --short HEAD").stdout.strip(),
            "check_result": {"check": prop, "tier": "quick", "exit": rc, "silent": rc == 0, "signatures": sigs, "undecided": und}}
    json.dump(meta, open(f"{d}/meta.json", "w"), indent=1)
    print(name, "applies" if applies else "NOAPPLY", "suite-ok" if suite_ok else "SUITE-FAIL", "silent" if rc == 0 else f"ALARM rc={rc}", sigs[:2], und[:1], flush=True)
    return (name, prop, applies, suite_ok, rc, sigs, und)

names = [n for n in sorted(os.listdir("benign")) if os.path.isdir(f"benign/{n}") and (not only or n in only)]
with ThreadPoolExecutor(int(os.environ.get("JOBS", "3"))) as ex:
    rows = list(ex.map(one, names))
if not only:
    with open("benign/RESULTS.md", "w") as f:
        f.write("| property-preserving change | property | applies, suite passes | quick check silent | signatures if not |\n|---|---|---|---|---|\n")
        for n, p, a, s, rc, sg, und in rows:
            f.write(f"| {n} | {p} | {'yes' if a and s else 'NO'} | {'yes' if rc == 0 else 'NO (exit %s)' % rc} | `{'; '.join(sg)[:160]}` {'UNDECIDED: ' + str(len(und)) if und else ''} |\n")
