#!/bin/bash
# usage: crosssweep.sh <root: seeded|benign> <name>...   -- every property's quick check against each named change
ROOT=$1; shift
for n in "$@"; do for p in $(seq -w 1 20); do echo "$n C$p"; done; done | SEEDROOT=/verif/$ROOT xargs -P ${JOBS:-4} -L1 bash -c 'r=$(SEEDROOT='"/verif/$ROOT"' /verif/tools/seedbox.sh $0 $1 quick 2>&1 | tail -1); echo "$r"'
