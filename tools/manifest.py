#!/usr/bin/env python3
"""Regenerates /verif/MANIFEST.json from the table below (run from /verif)."""
import json

SETUP = "cd /verif/engine && GOFLAGS=-mod=mod GOPROXY=off GOSUMDB=off GOTOOLCHAIN=local go build -o ../bin/symgo . && cd /verif && ./bin/symgo selftest"

TECH = "bounded symbolic execution of /repo's Go SSA (own executor over x/tools go/ssa) with z3 deciding path feasibility, assertions and implicit run-time checks; native replay of every counterexample"

NOTE = ("Trusted base: go/packages+go/ssa, the executor's SSA semantics and its models of strings/fmt/strconv/errors/sync/html-template escapers/reflect "
        "(DESIGN.md 2.5, 2.6; validated on every run by native replay of sampled passing paths and by `symgo selftest`), z3 4.8.12. "
        "Single-byte conditions are decided exactly by evaluating the term on the byte's 256 values instead of a solver call (counted separately in the evidence). "
        "Claims hold only inside the stated bounds; inconclusive paths (unmodelled callee, solver unknown, fuel) are counted in the evidence and never reported as success or as violation. ")

# property -> (design section, quick extra flags, thorough extra flags, claim text, bounds note)
CHECKS = {
 "C03": ("4/C03", "--fuel 300000", "--fuel 300000 --budget 30m",
         "Bounded model checking of lexer+parser+ast printers: for every input inside the bounds no feasible path panics, exhausts its instruction budget (non-termination) or returns neither a tree nor an error with a message.",
         "Bounds quick: every byte string (all 256 values) of length <= 4 as a whole template; <= 2 arbitrary bytes inside each of 14 tag framings (closed, unclosed, nested openers); 3 arbitrary bytes inside the 3 basic framings; every sequence of 2 atoms over the full token vocabulary (57 atoms incl. symbolic identifier/number/string atoms) in the 3 basic framings; 1 byte through plush.Parse/Render. Thorough: raw <= 6 bytes, 3 bytes in all framings, 4 bytes in <% S %> and <%= S %>, 3 atoms. Outside: longer inputs, nesting depth 256, random soup."),
 "C10": ("4/C10", "", "--budget 30m",
         "Bounded model checking of plush.Context against an abstract chain-of-maps model written from the property: bounded histories (every sequence of New/Set over a tree of <= 4 contexts with two symbolic one-byte keys and a built-in name, values arbitrary ints or nil, all Value/Has observations compared after every step) plus the inductive step (arbitrary symbolic pre-state built through the exported constructors, one operation, all observations compared).",
         "Bounds quick: histories of 3 operations; step over chain root<-c1<-c2 with <= 1 binding per scope from a pool {1 arbitrary byte, 3 arbitrary bytes (may spell a built-in)}; thorough: histories of 4, step with a sibling and a third key. Excluded by assumption: a built-in helper name bound to nil (the property does not fix what later children see); the wrapped context.Context fallback with non-string keys."),
 "C19": ("4/C19", "", "--budget 30m",
         "Bounded model checking of range/between/until/groupBy/len: init and step lemmas of the counter iterator over all 2^64 values of every argument (so the int extremes are single solver models), bounded sequences, and the groupBy partition laws for every group count n (64 bit symbolic) and every slice length within the bound with symbolic elements, for both shipped implementations.",
         "Bounds quick: slice length <= 12; sequences of <= 4 elements from an arbitrary start; thorough: slice length <= 40. Outside: arrays passed by value to groupBy (a C04 matter), the through-template form (covered by C08 harnesses), element types other than int/string/struct/pointer."),
}

PENDING = "check not built yet in this session (build in progress, see DESIGN.md section 8)"
NA = {}

def main():
    props = [json.loads(l)["id"] for l in open("properties.jsonl")]
    checks = []
    for p in props:
        if p not in CHECKS:
            continue
        sec, q, t, text, bounds = CHECKS[p]
        checks.append({
            "property_id": p,
            "quick_cmd": f"./bin/symgo check {p} --tier quick {q}".strip(),
            "thorough_cmd": f"./bin/symgo check {p} --tier thorough {t}".strip(),
            "evidence_file": f"/verif/evidence/{p}.json",
            "replay_cmd_template": "./bin/symgo replay {path}",
            "engine": "symgo",
            "level_claimed": {"category": "model_checking", "text": text, "design_ref": "DESIGN.md section " + sec},
            "level_note": NOTE + bounds,
            "technique": TECH,
        })
    na = [{"property_id": p, "reason": NA.get(p, PENDING)} for p in props if p not in CHECKS]
    m = {
        "version": 1,
        "setup_cmd": SETUP,
        "hooks": {
            "guard": "verif",
            "enable": "no hooks are needed: harnesses (module /verif/harness, `replace plush => /repo`) use only the exported API and the engine loads /repo's working tree through go/packages on every run",
            "baseline_off_cmd": "cd /repo && GOFLAGS=-mod=mod go test -vet=off -count=1 -timeout 25m ./...",
            "source_commits": [],
            "add_only": True,
        },
        "engines": [{"name": "symgo", "path": "/verif/engine", "serves_properties": sorted(CHECKS), "kind_free_text": "forking symbolic executor for Go SSA + z3 (QF_BV), native replay of counterexamples"}],
        "checks": checks,
        "notes": "All checks: exit 0 = no unlisted confirmed violation, 1 = VIOLATION printed (confirmed by native replay), 3 = engine error. Known findings: /verif/known_findings.json. Seeded changes and which checks catch them: /verif/seeded and DESIGN.md.",
        "not_applicable": na,
    }
    json.dump(m, open("MANIFEST.json", "w"), indent=1)
    print("checks:", [c["property_id"] for c in checks], "not_applicable:", len(na))

main()
