#!/usr/bin/env python3
"""Regenerates /verif/MANIFEST.json from the table below (run from /verif)."""
import json

SETUP = "cd /verif/engine && GOFLAGS=-mod=mod GOPROXY=off GOSUMDB=off GOTOOLCHAIN=local go build -o ../bin/symgo . && cd /verif && ./bin/symgo selftest"

TECH = "bounded symbolic execution of /repo's Go SSA (own executor over x/tools go/ssa) with z3 deciding path feasibility, assertions and implicit run-time checks; native replay of every counterexample"

NOTE = ("Trusted base: go/packages+go/ssa, the executor's SSA semantics and its models of strings/fmt/strconv/errors/sync/html-template escapers/reflect "
        "(DESIGN.md 2.5, 2.6; validated on every run by native replay of sampled passing paths and by `symgo selftest`), z3 4.8.12. "
        "Single-byte conditions are decided exactly by evaluating the term on the byte's 256 values instead of a solver call (counted separately in the evidence). "
        "Claims hold only inside the stated bounds; inconclusive paths (unmodelled callee, solver unknown, fuel) are counted in the evidence and never reported as success or as violation. ")

# property -> (design section, quick extra flags, thorough extra flags, claim text, bounds note)
CHECKS = {
 "C03": ("4/C03", "--fuel 300000", "--fuel 300000 --budget 30m",
         "Bounded model checking of lexer+parser+ast printers: for every input inside the bounds no feasible path panics, exhausts its instruction budget (non-termination) or returns neither a tree nor an error with a message.",
         "Bounds quick: every byte string (all 256 values) of length <= 4 as a whole template; <= 2 arbitrary bytes inside each of 14 tag framings (closed, unclosed, nested openers); 3 arbitrary bytes inside the 3 basic framings; every sequence of 2 atoms over the full token vocabulary (57 atoms incl. symbolic identifier/number/string atoms) in the 3 basic framings; 1 byte through plush.Parse/Render. Thorough: raw <= 6 bytes, 3 bytes in all framings, 4 bytes in <% S %> and <%= S %>, 3 atoms. Also: 18 framings in total (closed, unclosed, nested openers, header positions of if/for/fn), and histories Parse/Render/Parse with the template cache on. Outside: longer inputs, nesting depth 256, random soup."),
 "C10": ("4/C10", "", "--budget 30m",
         "Bounded model checking of plush.Context against an abstract chain-of-maps model written from the property: bounded histories (every sequence of New/Set over a tree of <= 4 contexts with two symbolic one-byte keys and a built-in name, values arbitrary ints or nil, all Value/Has observations compared after every step) plus the inductive step (arbitrary symbolic pre-state built through the exported constructors, one operation, all observations compared).",
         "Bounds quick: histories of 3 operations; step over chain root<-c1<-c2 with <= 1 binding per scope from a pool {1 arbitrary byte, 3 arbitrary bytes (may spell a built-in)}; thorough: histories of 4, step with a sibling and a third key. Excluded by assumption: a built-in helper name bound to nil (the property does not fix what later children see); the wrapped context.Context fallback with non-string keys."),
 "C19": ("4/C19", "", "--budget 30m",
         "Bounded model checking of range/between/until/groupBy/len: init and step lemmas of the counter iterator over all 2^64 values of every argument (so the int extremes are single solver models), bounded sequences, and the groupBy partition laws for every group count n (64 bit symbolic) and every slice length within the bound with symbolic elements, for both shipped implementations.",
         "Bounds quick: slice length <= 12; sequences of <= 4 elements from an arbitrary start; thorough: slice length <= 40. Outside: arrays passed by value to groupBy (a C04 matter), the through-template form beyond the fixed programs of harness through_template (loops over range/between/until/groupBy(2, xs) with an arbitrary 64-bit start and 0-3 elements, rendered through Render and compared with the unrolled sequence), element types other than int/string/struct/pointer."),

 "C02": ("4/C02", "", "--budget 30m",
         "Bounded model checking of lexer+parser+evaluator against a reference scanner written from the statement: literal text is copied byte for byte except for the escapes \\<% and \\\\<%, output tags contribute their (escaped) value, code and comment tags nothing; double-quoted and back-quoted string literals denote the characters between their quotes.",
         "Bounds quick: every NUL-free byte string of length <= 5 as text (tag openers formed by text bytes excluded by assumption, stated in the harness); s0 TAG s1 [TAG z] with |s_i| <= 2 and TAG from a catalogue of 11 output/code/comment tags; string-literal contents <= 3 arbitrary bytes in 3 uses; the same inside if/for/fn/block-helper bodies with |s_i| <= 1; back-slash escape sequences before tag openers (runs of <= 3 back-slashes). Thorough: 7 / 3 / 5 / 2 bytes. Outside: NUL, unterminated strings, longer texts."),
 "C04": ("4/C04", "", "--budget 30m",
         "Bounded model checking of the evaluator's totality: for every cell of the kind matrices no feasible path panics (every reflect precondition is an explicit check of the reflect model; Go run-time checks are explicit in the executor) and Render returns output or (\"\", error). Every panic candidate is replayed natively.",
         "Matrices over a pool of 33 value kinds (incl. pointer-to-map, named map/slice/string/int kinds) (ints with arbitrary 64-bit payload so negative/huge indexes are single models, strings with arbitrary bytes, typed nils, slices, arrays, maps of three key types, structs, pointers, functions of three signatures, iterator, template.HTML): 13 binary operators + ! + unary minus x L x R; container x index x {read, member-after-index, double index}; container x index x assigned value; receiver x 20 member/method expressions; iterable kinds; callee x 9 call shapes; 21 built-in helper calls x argument kinds; user functions x 14 call shapes; helpers whose iterator results are looped over; every program of 3 atoms (thorough: 4, also in silent tags) over a 38-atom vocabulary of identifiers, literals, operators, brackets and keywords as the content of a tag (token_programs). Outside: helpers backed by unmodelled libraries (pathFor, inflections, env, debug), symbolic floats, random programs, regexp on symbolic strings."),
 "C05": ("4/C05", "", "--budget 30m",
         "Bounded model checking of error propagation: a recording helper that fails iff a symbolic flag is set is placed at 54 positions (operand of every operator, conditions, branch bodies, loop iterable/body, array/hash element, index, helper and user-function arguments, block-helper block, contentFor/contentOf, partial, let, assignment, silent tags); whenever it ran and failed, Render must return a non-nil error that errors.Is the sentinel, with empty output; guarded positions decide reachability symbolically.",
         "Bounds: one failing call per template (plus a two-call harness), fixed surrounding templates. The tolerated fault (unknown identifier as condition / operand of ! == != && ||) is the negative control; Also: a failing call in two positions at once (both flags symbolic) and errors nested below a tolerated position. A bare unknown identifier nested inside such an operand (id(nope), xs[nope]) is a grey area of the statement and is not decided."),
 "C06": ("4/C06", "", "--budget 30m",
         "Bounded model checking of operators against a reference: (1) one node a OP b with a, b arbitrary 64-bit ints / int64s / strings / bools / floats from a pool: rendered value equals Go's own operation on the same terms, division by zero and type mismatch are errors; (2) tree shape: every sequence of k operators with optional ! prefixes and one parenthesis pair, printed tree equals a reference precedence climber; (2b) chains of string concatenations and comparisons with arbitrary 1-byte strings; (3) short-circuit with a recording helper and end-to-end a OP1 b OP2 c with three arbitrary ints against a typed reference evaluator.",
         "Bounds quick: k = 2 operators (13^2 sequences x prefixes x paren placements); strings of <= 1 byte; thorough: k = 3, strings <= 2 bytes. Floats from a concrete pool of 6; ~= only on concrete strings; mixed bool/int comparisons are not decided (the statement does not fix them)."),
 "C07": ("4/C07", "", "--budget 30m",
         "Bounded model checking of truthiness and chains: 22 value kinds with arbitrary payloads tested in 8 syntactic contexts against the statement's truth table; chains of n recording conditions with every truth assignment (symbolic booleans) at top level, in a for body, in a function, in a helper block: output is the block of the first truthy condition and the recorded evaluations are exactly 0..first; a condition that fails (helper error, not an unknown identifier) is an error of the whole render, never a false branch.",
         "Bounds quick: chains of <= 2 conditions; thorough <= 4."),
 "C08": ("4/C08", "", "--budget 30m",
         "Bounded model checking of for loops against an unrolled reference: 14 body shapes (emit, key+value, break/continue as first/middle/last statement, inside if/else, statement after the control block, code-form bodies with return) over slices with arbitrary int elements and an arbitrary threshold; 14 iterable kinds; maps under every iteration order; control statements before/after/inside nested loops; nil elements; iterator-valued iterables with break/continue; tolerated faults (unknown identifier in a condition) inside a body do not end or skip iterations.",
         "Bounds quick: slice length <= 2; thorough <= 4. Maps of <= 2 entries."),
 "C16": ("4/C16", "", "--budget 30m",
         "Bounded model checking of user-defined functions: a decision-chain function over arbitrary int arguments and thresholds against its reference; argument expressions that mention caller variables named like the parameters; 12 uses of the result (operators, conditions, arguments, let); higher-order and recursive use; 0-4 parameters; nil arguments (a nil argument must not fall through to an outer variable of the parameter's name); calls nested as arguments.",
         "Bounds: recursion depth <= 3 (concrete depth, symbolic data); fixed function bodies from the catalogue in DESIGN.md Appendix D."),

 "C01": ("4/C01", "", "--budget 30m",
         "Bounded model checking of the output sink on every plumbing route: an arbitrary NUL-free payload is moved through sources (variable, struct field, nested pointer field, string map, interface map, slice element, whole slices) x 12 expression wrappers (let, +, [], {}, index, user function, Go helper, nesting, + raw(\"\")) x 14 block routes (if/else, for variable, for return, block helper, contentFor/contentOf block and data, partial data, partial with layout, partial reading the caller's scope, user function body, let); the emitted region must contain < > ' \" & only as entities and decode to the payload (entity spelling is not prescribed). Trusted values (template.HTML, HTMLer, raw()) on 8 routes must appear verbatim exactly once; mixed output keeps the string part escaped; helpers declared to return template.HTML vs string, and named string types (type S string, fmt.Stringer-less) are escaped like strings.",
         "Bounds quick: payload <= 2 bytes, wrapper depth 1; thorough: payload <= 4 bytes (an entity such as &lt; fits), wrapper depth 2. NUL excluded (Go's escaper maps it to U+FFFD)."),
 "C09": ("4/C09", "", "--budget 30m",
         "Bounded model checking of scoping against an environment-chain reference: nestings of {for, user-function call, partial with data, contentFor/contentOf with data, block helper with its own child context} with a shadowing let, a fresh let and probes at every level; all bound values are distinct arbitrary ints so 'unchanged' and 'invisible' cannot hold by coincidence; plus stored blocks / functions / block helpers used from a scope other than the defining one, top-level let seen by later tags, and the same partial/function used repeatedly (no state carried between uses).",
         "Bounds quick: nesting depth <= 2 (5 + 25 nestings x 5 outer choices); thorough: depth 3. Assignment (x = ..) to outer variables from inside a scope is not addressed by the statement and not checked; if blocks and Block() on the caller's context are not scopes."),
 "C11": ("4/C11", "", "--budget 30m",
         "Bounded model checking of path access: a struct/map/slice/array/pointer graph whose every leaf is its own arbitrary value; 48 paths (field, literal and variable index, map key, pointer, value and pointer methods, chained calls, method after index) compared with the same navigation written in Go; variable indexes range over all ints and variable keys over hit/miss; 19 uncompletable navigations must give an error or empty output; let / loop-iterable uses; method chains on a linked list (same method name up to 4 times); 23 further shapes (embedded struct fields and promoted methods, interface-held struct, slice of pointers with a nil entry, int-keyed map with a variable key, map of maps, map of slices, pointer to slice with a variable index).",
         "Bounds: graph depth 2, slices of length 2; leaves are 1-byte strings over a-z or arbitrary ints."),
 "C12": ("4/C12", "", "--budget 30m",
         "Bounded model checking of helper argument binding with recording helpers: fixed parameters of int/string/bool/interface{}/pointer/map/slice types, auto-supplied trailing map and helper context (struct and interface typed) with and without block, variadic tails of int/string/interface{}, nil arguments, 21 rejected calls (too many / unassignable: error names the call and the helper did not run), result shapes (), (T), (T,error), (error), evaluation order of argument expressions, helper calls nested as arguments of helper calls, and an error result in every position where a fault could be tolerated (condition, operand of == != && || !): it must surface. Argument payloads are arbitrary.",
         "Bounds: <= 4 arguments; too few plain arguments are only checked for totality (C04), as the statement does not specify them."),
 "C13": ("4/C13", "", "--budget 30m",
         "Bounded model checking of determinism and immutability: 22 programs covering every node type are rendered twice along {same parsed template, fresh parse, Clone, cache cold/warm, cache off} with equal arbitrary data and with every iteration order of the Go maps ranged over during evaluation (independently per run); outputs, errors and helper-call records must agree. The parsed program is frozen before Exec: any store into memory reachable from it is a violation. Cache key: two arbitrary texts of <= 3 bytes share a cached template only if identical.",
         "Bounds: maps of 2-4 entries are permuted (larger ones keep insertion order); 2 executions per history (3 with the cache). A native replay cannot impose a map order: order-dependent counterexamples are replayed 25 times."),
 "C15": ("4/C15", "", "--budget 30m",
         "Bounded model checking of error line numbers: 16 failing statements behind 8 preamble shapes (text, tags, multi-line double- and back-quoted strings, comment tags, line comments, white space inside tags, a block) whose filler bytes are symbolic over {\\n, \\r, space, letter}: the error starts with 'line N:' and N = 1 + number of newlines before the failing tag; shifting by k newlines (optionally after a letter) adds exactly k to every line number of the error and changes nothing else; failing tags inside if/for/function/helper-block bodies.",
         "Bounds quick: fillers <= 2 bytes, k <= 2; thorough: fillers <= 3 bytes, k <= 4. Only single-line failing tags are decided (for a statement inside a multi-line tag the statement's own line is reported and the property leaves that open)."),
 "C18": ("4/C18", "", "--budget 30m",
         "Bounded model checking of layout insensitivity: 12 programs as token lists covering let, assignment, if/else, for (variable and call iterables, nested), fn, hash, operators, strings, helper calls, with statements directly after closing braces; re-layouts: arbitrary white space (space, tab, LF, CR) at any token gap incl. before %>, # line comments (LF and CRLF) with arbitrary bodies at any gap, every way of cutting the statement sequence into tags (space, newline, semicolon, tag split), <%# %> comment tags between tags and inside if/for/fn blocks; each must render exactly what the canonical layout renders.",
         "Bounds quick: one varying gap, separators <= 1 byte, comment bodies <= 1 byte; thorough: two gaps, <= 2 bytes. Known finding (not repaired, see known_findings.json): comment-tag bodies containing a quote, back quote or #."),

 "C17": ("4/C17", "", "--budget 30m",
         "Bounded model checking of composition = inlining: for 7 bodies (text, output tags reading data and caller variables, loop, conditional, let, + and raw) and arbitrary data values, partial(name, data) / partial with layout / nested layout / nested partials to depth 3 / contentFor + contentOf (emits nothing where defined; used once, twice with different data, with omitted data, undefined with and without default block) / a recording block helper / one data map shared by two partials / contentOf evaluated inside for, function and partial scopes must produce exactly what the same source renders to inline in the caller's scope extended with the data (the inline rendering is computed by plush itself on the inlined source); JavaScript escaping exactly for a javascript content type and a non-.js extension.",
         "Bounds quick: data values <= 1 arbitrary NUL-free byte; thorough <= 2 bytes. The inline reference relies on C01/C02 for the plain rendering."),
 "C20": ("4/C20", "", "--budget 30m",
         "Bounded model checking of truncate / htmlEscape / jsEscape / raw: truncate over every byte string (invalid UTF-8 included, through the forking UTF-8 decoder), every 64-bit size and arbitrary trails against its laws (unchanged if short; else prefix of s on a character boundary + trail, at most max(size, len(trail)) characters), defaults, the template form, and multi-byte texts from rune classes (2/3/4-byte runes, combining marks) counted in characters not bytes; htmlEscape output decodes to its input with no raw special; jsEscape on arbitrary ASCII plus concrete non-ASCII cases has no < > & =, no unescaped quote, no raw line break; raw(s) is byte-identical through Render. toJSON: an arbitrary valid UTF-8 string in 8 value shapes (bare, slice, map, tagged struct, nested interface values, template.HTML, pointers) and arbitrary 64-bit ints, bools, nil, typed nils, empty/nil containers, json.Marshaler / TextMarshaler values over a payload pool, and unrepresentable values are rendered through toJSON/json; the output must have no raw < > &, be well-formed under a JSON reader written from RFC 8259 and decode to the tokens of the value (ints: equal to the decimal text); unrepresentable values are errors. encoding/json itself is a model of the engine (type-directed encoder, both escaping modes, Marshal / Encoder / HTMLEscape), compared with the standard library by `symgo selftest`.",
         "Bounds quick: |s| <= 3, |trail| <= 1; thorough |s| <= 5, |trail| <= 2; toJSON strings <= 2 (3) bytes; jsEscape <= 2 (3) symbolic ASCII bytes on the engine's model of text/template.JSEscape (validated against the stdlib by selftest)."),

 "C14": ("4/C14", "", "--budget 30m",
         "Bounded model checking of two logical threads (reduced claim): the executor runs the two operations as threads 1 and 2 in both orders, logs every access to a heap location (leaf cells, Go maps as one location each) with the mutexes held, and for every pair of conflicting accesses asks the solver whether timestamps exist in which the two are adjacent under program order and mutual exclusion of critical sections (critical sections that communicated keep their observed order); sat = data race, replayed natively under `go test -race`. Pairs: all 8x8 combinations of Set/Value/Has/New on a context and its parent; one parsed template (16 programs covering every node type) executed from two threads with own root contexts and with children of one shared parent, each result compared with the result of running alone; Render/Render (cold, warm, different texts) and Parse/CacheSet with the cache enabled.",
         "Bounds: two threads, one operation each (races are pairwise, so two threads cover any number of goroutines running these operations); synchronisation by sync.Mutex / RWMutex only - a path that touches sync/atomic, sync.Once, sync.Map, channels or starts goroutines is inconclusive; the Go memory model beyond 'unsynchronised conflicting accesses' is not modelled; the native confirmation is probabilistic (300 rounds under the race detector)."),
}

PENDING = "check not built yet in this session (build in progress, see DESIGN.md section 8)"
NA = {}

def main():
    props = [json.loads(l)["id"] for l in open("properties.jsonl")]
    checks = []
    for p in props:
        if p not in CHECKS:
            continue
        sec, q, t, text, bounds = CHECKS[p]
        checks.append({
            "property_id": p,
            "quick_cmd": f"./bin/symgo check {p} --tier quick {q}".strip(),
            "thorough_cmd": f"./bin/symgo check {p} --tier thorough {t}".strip(),
            "evidence_file": f"/verif/evidence/{p}.json",
            "replay_cmd_template": "./bin/symgo replay {path}",
            "engine": "symgo",
            "level_claimed": {"category": "model_checking", "text": text, "design_ref": "DESIGN.md section " + sec},
            "level_note": NOTE + bounds,
            "technique": TECH,
        })
    na = [{"property_id": p, "reason": NA.get(p, PENDING)} for p in props if p not in CHECKS]
    m = {
        "version": 1,
        "setup_cmd": SETUP,
        "hooks": {
            "guard": "verif",
            "enable": "no hooks are needed: harnesses (module /verif/harness, `replace plush => /repo`) use only the exported API and the engine loads /repo's working tree through go/packages on every run",
            "baseline_off_cmd": "cd /repo && GOFLAGS=-mod=mod go test -vet=off -count=1 -timeout 25m ./...",
            "source_commits": [],
            "add_only": True,
        },
        "engines": [{"name": "symgo", "path": "/verif/engine", "serves_properties": sorted(CHECKS), "kind_free_text": "forking symbolic executor for Go SSA + z3 (QF_BV), native replay of counterexamples"}],
        "checks": checks,
        "notes": "All checks: exit 0 = no unlisted confirmed violation, 1 = VIOLATION printed (confirmed by native replay), 3 = engine error. Known findings: /verif/known_findings.json. Seeded changes and which checks catch them: /verif/seeded and DESIGN.md.",
        "not_applicable": na,
    }
    json.dump(m, open("MANIFEST.json", "w"), indent=1)
    print("checks:", [c["property_id"] for c in checks], "not_applicable:", len(na))

main()
