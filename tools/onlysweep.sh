#!/bin/bash
# usage: onlysweep.sh <substring of harness names> <property>...   -- runs only the matching harnesses of each
# property against every seeded change of that property (scratch copies), prints one line per seed
ONLY=$1; shift
for P in "$@"; do ls /verif/seeded | grep "^$P-" ; done | xargs -P ${JOBS:-4} -I{} bash -c 'n={}; p=${n%%-*}; r=$(/verif/tools/seedbox.sh $n $p quick --only '"$ONLY"' 2>&1 | tail -1); echo "$n $r"' | sort
