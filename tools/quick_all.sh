#!/bin/bash
# runs every quick check once on /repo as it is (sequentially), one summary line each; exit status = number of checks that did not exit 0
cd /verif; bad=0
for p in $(seq -w 1 20); do
  s=$(date +%s); out=$(./bin/symgo check C$p --tier quick 2>&1); rc=$?
  echo "C$p rc=$rc $(( $(date +%s) - s ))s $(echo "$out" | grep '^property' | sed -E 's/.*(harnesses=[0-9]+ paths=[0-9]+).*(inconclusive=[0-9]+).*(unexplored=[0-9]+).*(candidates=[0-9]+).*/\1 \2 \3 \4/')"
  echo "$out" | grep "^VIOLATION\|^ENGINE\|^UNDECIDED\|^KNOWN" | head -5
  [ $rc -ne 0 ] && bad=$((bad+1))
done
exit $bad
