#!/usr/bin/env python3
"""For every seeded change whose patch.diff no longer applies to /repo HEAD: re-create it on the
/repo commit it was last confirmed on (from the committed meta.json) in a scratch clone and
cherry-pick it onto HEAD (three-way). Success: patch.diff is replaced (the old one kept as
patch.before-<head>.diff); conflict: listed for rebasing by hand."""
import json, os, subprocess, sys, shutil
os.chdir("/verif")
R = "/tmp/rbclone"
def sh(*a, cwd=None, check=False):
    return subprocess.run(a, cwd=cwd, capture_output=True, text=True)
shutil.rmtree(R, ignore_errors=True)
sh("git", "clone", "-q", "/repo", R)
sh("git", "config", "user.email", "x@y", cwd=R); sh("git", "config", "user.name", "x", cwd=R)
head = sh("git", "-C", "/repo", "rev-parse", "--short", "HEAD").stdout.strip()
ROOT = os.environ.get("ROOTDIR", "seeded")
names = sys.argv[1:] or sorted(os.listdir(ROOT))
ok, bad, fine = [], [], []
for n in names:
    p = f"/verif/{ROOT}/{n}/patch.diff"
    if not os.path.exists(p): continue
    sh("git", "checkout", "-q", "-f", head, cwd=R); sh("git", "clean", "-fdq", cwd=R)
    if sh("git", "apply", "--check", p, cwd=R).returncode == 0:
        fine.append(n); continue
    try:
        meta = json.loads(sh("git", "show", f"HEAD:{ROOT}/{n}/meta.json").stdout)
        base = [meta["confirmed"]["repo_head"]] if "confirmed" in meta else [meta["repo_head"]]
    except Exception as e:
        base = []
    # find a base on which it applies: the recorded one, else walk back from HEAD
    cands = base + sh("git", "log", "--format=%h", "-n", "80", cwd=R).stdout.split()
    done = False
    for b in cands:
        sh("git", "checkout", "-q", "-f", b, cwd=R); sh("git", "clean", "-fdq", cwd=R)
        if sh("git", "apply", "--check", p, cwd=R).returncode != 0: continue
        sh("git", "apply", p, cwd=R); sh("git", "add", "-A", cwd=R); sh("git", "commit", "-qm", "seed", cwd=R)
        c = sh("git", "rev-parse", "HEAD", cwd=R).stdout.strip()
        sh("git", "checkout", "-q", "-f", head, cwd=R)
        r = sh("git", "cherry-pick", c, cwd=R)
        if r.returncode == 0:
            new = sh("git", "diff", "HEAD~1", "HEAD", cwd=R).stdout
            if sh("go", "build", "./...", cwd=R).returncode != 0:
                bad.append((n, f"rebased from {b} but does not build")); done = True; break
            shutil.copy(p, f"/verif/{ROOT}/{n}/patch.before-{head}.diff")
            open(p, "w").write(new)
            ok.append((n, b))
        else:
            sh("git", "cherry-pick", "--abort", cwd=R)
            bad.append((n, f"conflict (base {b})"))
        done = True
        break
    if not done: bad.append((n, "applies nowhere"))
print("still applying:", len(fine))
print("rebased:", len(ok)); [print("  ", *x) for x in ok]
print("by hand:", len(bad)); [print("  ", *x) for x in bad]
shutil.rmtree(R, ignore_errors=True)
