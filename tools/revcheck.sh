#!/bin/bash
# usage: revcheck.sh <repo-commit> <property> [tier] [extra symgo flags]
# Runs a property's check against /repo's working tree with ONE fix commit reverted (on a scratch
# copy, /repo untouched): the check must report the defect the commit repaired.
set -u
C=$1; P=$2; shift; shift
N=_rev-$C
mkdir -p /verif/seeded/$N
git -C /repo diff $C $C~1 > /verif/seeded/$N/patch.diff
/verif/tools/seedbox.sh $N $P "$@"
rm -rf /verif/seeded/$N
