#!/bin/bash
# usage: seedbox.sh <seed-dir-name> <property> [tier] [extra symgo flags]
# Tries a seeded change WITHOUT touching /repo: copies /repo's working tree and /verif/harness into a
# scratch directory, applies /verif/seeded/<name>/patch.diff there and runs the property's check on the
# copy (VERIF_DIR / VERIF_REPO redirect the engine). The scratch directory is removed afterwards.
set -u
NAME=$1; PROP=$2; TIER=${3:-quick}; shift; shift; shift 2>/dev/null
SB=/tmp/seedbox/$NAME-$PROP-$$
rm -rf $SB; mkdir -p $SB/verif/replays $SB/verif/evidence $SB/verif/.work /verif/.work
rsync -a --exclude .git /repo/ $SB/repo/
( cd $SB/repo && git apply --unsafe-paths ${SEEDROOT:-/verif/seeded}/$NAME/patch.diff 2>/dev/null || patch -s -p1 < ${SEEDROOT:-/verif/seeded}/$NAME/patch.diff ) || { echo "patch does not apply"; rm -rf $SB; exit 3; }
rsync -a --exclude go.sum /verif/harness $SB/verif/
sed -i "s#=> /repo#=> $SB/repo#" $SB/verif/harness/go.mod
cp /verif/known_findings.json $SB/verif/
LOG=/verif/.work/seedrun-$NAME-$PROP.log
VERIF_DIR=$SB/verif VERIF_REPO=$SB/repo ${SYMGO:-/verif/bin/symgo} check $PROP --tier $TIER "$@" > $LOG 2>&1; RC=$?
grep -E "^(VIOLATION|KNOWN|ENGINE|property=)" $LOG | head -8
grep -A1 "^VIOLATION" $LOG | grep harness= | head -3
rm -rf $SB
echo "SEEDRUN $NAME $PROP exit=$RC"
