#!/bin/bash
# usage: seedrun.sh <seed-dir-name> <property> [tier]  -- applies /verif/seeded/<name>/patch.diff to /repo, runs the check, reverts
set -u
NAME=$1; PROP=$2; TIER=${3:-quick}
cd /verif
git -C /repo diff --quiet || { echo "/repo is dirty"; exit 2; }
git -C /repo apply /verif/seeded/$NAME/patch.diff || { echo "patch does not apply"; exit 3; }
./bin/symgo check $PROP --tier $TIER > /verif/.work/seedrun-$NAME-$PROP.log 2>&1; RC=$?
git -C /repo checkout -- .
git -C /verif checkout -- evidence 2>/dev/null
grep -E "^(VIOLATION|KNOWN|ENGINE|property=)" /verif/.work/seedrun-$NAME-$PROP.log | head -8
grep -A1 "^VIOLATION" /verif/.work/seedrun-$NAME-$PROP.log | grep harness= | head -3
echo "SEEDRUN $NAME $PROP exit=$RC"
