#!/usr/bin/env python3
"""Confirms every seeded change (suite passes / demo fails with it / demo passes without it, in a
scratch worktree of /repo HEAD) and runs the property's quick check against it (applied to /repo and
reverted straight afterwards; with SANDBOX=1 - the default - on a scratch copy through tools/seedbox.sh so /repo is never touched, JOBS seeds at a time). Writes seeded/<name>/meta.json and seeded/RESULTS.md."""
import json, os, re, subprocess, sys, time
from concurrent.futures import ThreadPoolExecutor

os.chdir("/verif")
REBASED = {
    "C10-nil-shadow": "the same condition re-applied to Context.Value after the locking fix",
    "C16-nil-arg-shadow": "the same condition re-applied to Context.Value after the locking fix",
    "C04-elem-kind-check": "the same one-token edit re-applied to evalUpdateIndex as rewritten by the index fix",
    "C08-inforblock-late": "the same move of the in-loop flag expressed on parseForExpression after the save/restore fix",
    "C13-sort-order-inplace": "the in-place sort of HashLiteral.Order applied to evalHashLiteral after the source-order fix",
    "C15-token-line-zero": "removal of the trailing line stamp in nextInsideToken after the start-line fix",
    "C18-for-call-cursor": "the extra cursor advance re-introduced on the call-iterable path after the for-block cursor fix",
    "C19-ranger-wrap": "increment-then-test in ranger.Next re-expressed on the done-flag iterator",
    "C20-truncate-bytelen": "byte-length early return re-applied to the rewritten Truncate",
    "C01-r4a-apostrophe-fastpath": "the same fast path re-applied after the nil *time.Time fix touched the neighbouring case of the sink",
    "C03-r4a-readstring-backslash-eof": "the same unconditional escape re-applied after the consecutive-escapes fix turned the `if` into a loop",
    "C03-readstring-backslash": "the same unconditional escape loop re-applied after the consecutive-escapes fix",
    "C02-r3-bstring-backslash": "the same merge of readString/readBString re-applied after the comment-tag fix touched the neighbouring lines",
    "C18-r4a-bare-hash-swallows-line": "the same extra readChar re-applied after the comment-tag fix added a guard at the top of the # case",
}
# checks of other properties that are known to catch a seed as well (or instead)
EXTRA = {"C20-r2-falsy-arg-zero": ["C12"], "C08-r2-nil-element-outer": ["C10"], "C16-nil-arg-shadow": ["C10"], "C19-r3-iterator-continue": ["C08"], "C16-r3-value-nil-fallthrough": ["C10"], "C12-r3-errors-as-swallow": ["C05"]}
only = sys.argv[1:]
RUN = "tools/seedbox.sh" if os.environ.get("SANDBOX", "1") == "1" else "tools/seedrun.sh"
JOBS = int(os.environ.get("JOBS", "3")) if RUN.endswith("seedbox.sh") else 1
rows = []


def one(name):
    d = os.path.join("seeded", name)
    prop = name.split("-")[0]
    t0 = time.time()
    if os.path.exists(os.path.join(d, "MOOT.txt")):
        # the code this change targeted was rewritten by a later repair: the same change can no
        # longer be made (or no longer has an observable effect); kept for the record, not swept
        try:
            meta = json.load(open(os.path.join(d, "meta.json")))
        except Exception:
            meta = {"property": prop, "name": name}
        meta["moot_since"] = open(os.path.join(d, "MOOT.txt")).read()[:1500]
        json.dump(meta, open(os.path.join(d, "meta.json"), "w"), indent=1)
        print(name, "MOOT", flush=True)
        return (name, prop, None, None, "moot: " + meta["moot_since"].split("\n")[0][:100], 0)
    v = subprocess.run(["tools/seedverify.sh", prop, "/verif/" + d], capture_output=True, text=True).stdout
    m = re.search(r"RESULT \S+ suite_with_patch_exit=(\d+) demo_with_patch_exit=(\d+) demo_without_exit=(\d+) dest=(\S+)", v)
    confirmed = bool(m) and m.group(1) == "0" and m.group(2) != "0" and m.group(3) == "0"
    r = subprocess.run([RUN, name, prop], capture_output=True, text=True).stdout
    rc = re.search(r"SEEDRUN \S+ \S+ exit=(\d+)", r)
    try:
        log = open(f"/verif/.work/seedrun-{name}-{prop}.log").read()
    except FileNotFoundError:
        log = ""  # the patch did not apply to the scratch copy
    sigs = sorted(set(re.findall(r'signature="([^"]*)"', log)))[:6]
    notes = open(os.path.join(d, "notes.md")).read() if os.path.exists(os.path.join(d, "notes.md")) else ""
    meta = {
        "property": prop,
        "name": name,
        "origin": "written by a fresh sub-agent that saw only the property text and its own scratch worktree" + ("; " + REBASED[name] if name in REBASED else ""),
        "rebased_onto_fixed_tree": name in REBASED,
        "needs_to_manifest": notes.strip().split("\n\n")[0][:1200],
        "confirmed": {
            "repo_head": subprocess.run(["git", "-C", "/repo", "rev-parse", "--short", "HEAD"], capture_output=True, text=True).stdout.strip(),
            "existing_suite_passes_with_patch": bool(m) and m.group(1) == "0",
            "demo_fails_with_patch": bool(m) and m.group(2) != "0",
            "demo_passes_without_patch": bool(m) and m.group(3) == "0",
            "demo_destination": m.group(4) if m else None,
            "commands": ["tools/seedverify.sh %s /verif/%s" % (prop, d), "%s %s %s" % (RUN, name, prop)],
        },
        "check_result": {"check": prop, "tier": "quick", "exit": int(rc.group(1)) if rc else None, "caught": bool(rc) and rc.group(1) == "1", "signatures": sigs},
    }
    for other in EXTRA.get(name, []):
        r2 = subprocess.run([RUN, name, other], capture_output=True, text=True).stdout
        rc2 = re.search(r"SEEDRUN \S+ \S+ exit=(\d+)", r2)
        meta.setdefault("also_run", []).append({"check": other, "exit": int(rc2.group(1)) if rc2 else None, "caught": bool(rc2) and rc2.group(1) == "1"})
        if meta["also_run"][-1]["caught"] and not meta["check_result"]["caught"]:
            meta["check_result"]["caught_by_other_check"] = other
    json.dump(meta, open(os.path.join(d, "meta.json"), "w"), indent=1)
    caught = meta["check_result"]["caught"] or bool(meta["check_result"].get("caught_by_other_check"))
    note = sigs[0] if sigs else ("caught by " + meta["check_result"].get("caught_by_other_check", "?"))
    print(name, "confirmed" if confirmed else "NOT CONFIRMED", "caught" if meta["check_result"]["caught"] else "MISSED", "%.0fs" % (time.time() - t0), flush=True)
    return (name, prop, confirmed, caught, note, time.time() - t0)


names = [n for n in sorted(os.listdir("seeded")) if os.path.isdir(os.path.join("seeded", n)) and (not only or n in only)]
with ThreadPoolExecutor(JOBS) as ex:
    rows = list(ex.map(one, names))

if not only:
    with open("seeded/RESULTS.md", "w") as f:
        f.write("| seeded change | property | confirmed (suite passes, demo fails with / passes without) | caught by quick check | first signature |\n|---|---|---|---|---|\n")
        for n, p, c, k, s, _ in rows:
            if c is None:
                f.write(f"| {n} | {p} | moot (see MOOT.txt) | - | `{s[:110]}` |\n")
                continue
            f.write(f"| {n} | {p} | {'yes' if c else 'NO'} | {'yes' if k else 'NO'} | `{s[:110]}` |\n")
