#!/bin/bash
# usage: seedverify.sh <id> <dir with patch.diff demo_test.go>   -- confirms a seeded change in a scratch worktree of /repo HEAD
set -u
export GOFLAGS=-mod=mod GOPROXY=off GOSUMDB=off GOTOOLCHAIN=local
ID=$1; SRC=$2; WT=/tmp/wtv/$ID-$$
rm -rf $WT; git -C /repo worktree prune; git -C /repo worktree add --detach $WT HEAD -q || exit 2
cd $WT
# where does the demo go?
DEST=$(head -5 $SRC/demo_test.go | grep -oE '<repo>/[A-Za-z0-9_/.]+' | head -1 | sed 's#<repo>/##')
[ -z "$DEST" ] && DEST=zz_demo_test.go
PKGDIR=$(dirname $DEST)
cp $SRC/demo_test.go $WT/$DEST
RACE=""; grep -q -- "-race" $SRC/notes.md 2>/dev/null && [ "$ID" = "C14" ] && RACE="-race"
echo "== (c) demo on unchanged tree"; go test $RACE -vet=off -count=1 ./$PKGDIR 2>&1 | tail -3; C=${PIPESTATUS[0]}
git apply $SRC/patch.diff || { echo "PATCH DOES NOT APPLY"; cd /; git -C /repo worktree remove --force $WT; exit 3; }
echo "== (b) demo with patch"; go test $RACE -vet=off -count=1 ./$PKGDIR 2>&1 | tail -3; B=${PIPESTATUS[0]}
rm $WT/$DEST
echo "== (a) suite with patch"; go build ./... && go test -vet=off -count=1 ./... 2>&1 | grep -v "^ok\|no test files" | tail -5; A=${PIPESTATUS[0]}
cd /; git -C /repo worktree remove --force $WT
echo "RESULT $ID: suite_with_patch_exit=$A demo_with_patch_exit=$B demo_without_exit=$C dest=$DEST"
