#!/bin/bash
# runs every thorough check once (sequentially) and prints one summary line each
export GOFLAGS=-mod=mod GOPROXY=off GOSUMDB=off GOTOOLCHAIN=local
export VERIF_DIR=${VERIF_DIR:-$PWD}
W=${WORKERS:-16}; B=${BUDGET:-30m}
(cd engine && go build -o ../bin/symgo .) || exit 2
for p in ${PROPS:-C05 C07 C08 C09 C11 C12 C13 C14 C16 C06 C19 C10 C18 C20 C17 C15 C02 C01 C04 C03}; do
  extra=""; [ "$p" = C03 ] && extra="--fuel 300000"
  /usr/bin/time -f "$p wall=%es exit=%x" ./bin/symgo check $p --tier thorough --budget $B --workers $W $extra > thorough-$p.log 2>&1
  grep "^property\|^VIOLATION\|^ENGINE\|^KNOWN\|harness=\|INCONCLUSIVE\|wall=" thorough-$p.log | cut -c1-420
done
